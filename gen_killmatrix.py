#!/usr/bin/env python3
"""Rewrites the table between the KILLMATRIX markers of DESIGN.md from seeded/*/meta.json."""
import json, glob, os, re
rows = []
for p in sorted(glob.glob('/verif/seeded/C*/meta.json') + glob.glob('/verif/seeded/C*/*/meta.json')):
    m = json.load(open(p))
    d = os.path.relpath(os.path.dirname(p), '/verif')
    files = ", ".join(f.replace("src/", "") for f in m.get("files_changed", []))
    caught = "yes" if m.get("detected") else "**no**"
    if m.get("missed_at_first"):
        caught = "yes, after strengthening"
    rows.append("| %s | `%s` | %s | %s | `%s` after %s cases (%s) |" % (
        m["property"], d, files, m["trigger"].replace("|", "/"), m.get("detected_clause", "-"), m.get("detected_after_cases", "-"), caught))
table = ["| property | kept as | files changed | what is needed for it to show | caught by the quick tier |", "|---|---|---|---|---|"] + rows
notes = []
for p in sorted(glob.glob('/verif/seeded/C*/meta.json') + glob.glob('/verif/seeded/C*/*/meta.json')):
    m = json.load(open(p))
    if m.get("missed_at_first"):
        notes.append("* **%s** was missed at first. %s" % (m["property"], m.get("strengthening", "")))
s = open('/verif/DESIGN.md').read()
block = "<!-- KILLMATRIX-BEGIN -->\n" + "\n".join(table) + "\n\n" + "\n".join(notes) + "\n<!-- KILLMATRIX-END -->"
s = re.sub(r"<!-- KILLMATRIX-BEGIN -->.*<!-- KILLMATRIX-END -->", lambda _: block, s, flags=re.S)
open('/verif/DESIGN.md', 'w').write(s)
print(len(rows), "rows")

#!/bin/bash
# tools_seeded.sh confirm <ID> [wt]  : in the scratch worktree: clean tree + patch only -> build + full test suite
# tools_seeded.sh check <ID> [tier] [n] : apply /verif/seeded/<ID>[/n]/patch.diff to /repo, run the check, undo
set -u
cmd=$1; id=$2
case $cmd in
confirm)
  wt=${3:-/tmp/wt/$id}
  cd $wt || exit 2
  git stash -q -u -- src tests examples 2>/dev/null; git stash drop -q 2>/dev/null
  git checkout -q -- . ; git clean -qfd src tests examples
  git apply SEEDED/patch.diff || { echo "PATCH DOES NOT APPLY"; exit 1; }
  [ -f Cargo.lock ] || cp /repo/Cargo.lock .
  cargo build --offline 2>&1 | tail -1
  cargo test --workspace --no-fail-fast --offline 2>&1 | grep -E "^test result|FAILED|failed" | head -8
  ;;
check)
  tier=${3:-quick}; n=${4:-}
  p=/verif/seeded/$id${n:+/$n}/patch.diff
  [ -z "$(git -C /repo status --porcelain)" ] || { echo "/repo dirty"; exit 2; }
  git -C /repo apply $p || { echo "PATCH DOES NOT APPLY"; exit 1; }
  shift; shift; shift 2>/dev/null; shift 2>/dev/null
  (cd /verif && ./check $id $tier 2>&1 | grep -E "^clause|^key|^detail|^VIOLATION|^$id |HARNESS|KNOWN" | cut -c1-400)
  git -C /repo checkout -- .
  rm -rf /verif/replays/$id/found
  # the evidence file now describes a run against the changed tree: put the committed one back
  git -C /verif checkout -q -- evidence/$id.json 2>/dev/null
  ;;
esac

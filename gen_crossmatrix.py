#!/usr/bin/env python3
"""Renders seeded/cross_matrix.txt (every seeded change x every quick check) into DESIGN.md between the CROSSMATRIX markers."""
import re, collections
rows = collections.OrderedDict()
for l in open('/verif/seeded/cross_matrix.txt'):
    p = l.split()
    if len(p) < 3 or not p[2].startswith('rc='):
        continue
    name, cid, rc = p[0], p[1], int(p[2][3:])
    rows.setdefault(name, {})[cid] = rc
ids = ["C%02d" % i for i in range(1, 21)]
out = ["| seeded change | checks whose quick tier reports a violation | inconclusive (exit 2) |", "|---|---|---|"]
for name, r in rows.items():
    caught = [c for c in ids if r.get(c) == 1]
    inc = [c for c in ids if r.get(c) not in (0, 1, None)]
    own = name.split('/')[1]
    caught_s = ", ".join(("**%s**" % c) if c == own else c for c in caught) or "none"
    out.append("| `%s` | %s | %s |" % (name, caught_s, ", ".join(inc) or "-"))
s = open('/verif/DESIGN.md').read()
block = "<!-- CROSSMATRIX-BEGIN -->\n" + "\n".join(out) + "\n<!-- CROSSMATRIX-END -->"
s = re.sub(r"<!-- CROSSMATRIX-BEGIN -->.*<!-- CROSSMATRIX-END -->", lambda _: block, s, flags=re.S)
open('/verif/DESIGN.md', 'w').write(s)
print(len(rows), "changes")

#!/usr/bin/env python3
"""Writes /verif/MANIFEST.json from the table below (keeps it schema-valid).

Run after changing which properties are claimed:  python3 gen_manifest.py
"""
import json, subprocess, os

ROOT = os.path.dirname(os.path.abspath(__file__))

def repo_hook_commits():
    try:
        out = subprocess.check_output(
            ["git", "-C", "/repo", "log", "--format=%h %s"], text=True)
    except Exception:
        return []
    return [l.split()[0] for l in out.splitlines() if l.split(" ", 1)[1].startswith("verif hooks")]

# id -> (claimed, category, technique, level text, level note, design ref)
CHECKS = {}

def claim(pid, category, technique, text, note, ref):
    CHECKS[pid] = dict(category=category, technique=technique, text=text, note=note, ref=ref)

claim("C10", "exploration",
      "property-based testing: generated QoS pairs (boundary pools) + exhaustive per-policy pool enumeration against a reference RxO table; metamorphic wire round trip",
      "Seeded generation of (offered, requested) QosPolicies pairs with every RxO policy absent or drawn from boundary pools, "
      "compared with an independent reference of the DDS 1.4 RxO table (verdict and reported cause), plus exhaustive enumeration of all "
      "per-policy pairs from the pools, plus the same verdict after both sides' QoS crossed the wire in either byte order. "
      "The function is pure, so generated pairs reach it completely; the pools contain every boundary the table has.",
      "Trusted: the reference table in incrate/c10_qos.rs (written from DDS 1.4 2.2.3 and the property text); values outside the pools (other durations) only by sampling.",
      "DESIGN.md section 2, C10")

claim("C14", "exploration",
      "property-based testing: messages built through the implementation's constructors from generated arguments; round trip + independent framing walker/decoder + canonical idempotence; reference-model check of number sets; raw-bytes parse/re-serialise",
      "Seeded generation of Message values through MessageBuilder / create_submessage with arguments from boundary pools (payload residues mod 4, SN sets wider than 256, SNs near 2^31/2^32/i64::MAX, both endianness flags per submessage, foreign headers); each is serialised, "
      "walked by an independent framing walker using only octetsToNextHeader, decoded by an independent RTPS codec and compared with the constructor arguments, parsed by Message::read_from_buffer and compared modulo RTPS padding, and re-serialised (fixpoint). "
      "Number sets are compared with a reference BTreeSet intersected with the 256 window. A third scenario feeds mutated/raw bytes: whatever parses must re-serialise to a canonical form that parses back equal.",
      "Trusted: incrate/wire.rs (independent codec written from RTPS 2.5 ch. 9). INFO_REPLY and the security submessages are outside the constructed domain (the implementation never emits INFO_REPLY; secure submessages are covered under C16). DATA payloads above 60000 bytes are not generated (the writer fragments them).",
      "DESIGN.md section 2, C14")

claim("C01", "exploration",
      "stateful property-based testing: generated submessage histories injected as datagrams into the real MessageReceiver/Reader, taken through the public DataReader API, checked against a bookkeeping model (history invariants + exact availability)",
      "Generated finite histories of DATA/DATAFRAG/HEARTBEAT/GAP datagrams from 1-3 writers (loss, duplication, reordering by construction: sequence numbers are drawn from a small window) interleaved with take calls, run against the real receive path "
      "(MessageReceiver::handle_received_packet -> Reader -> TopicCache -> SimpleDataReader/DataReader). A model of what the writers told the reader decides after every take: matched writer, delivered by a submessage, at most once, increasing, no undeclared hole below, bytes/timestamp/identity equal, "
      "and (exact model) everything deliverable was handed over. Deterministic: virtual clock, no sockets, no threads.",
      "Trusted: the model in incrate/rscript.rs; reader limits never exceeded (KeepAll, roomy resource limits) as the statement allows; interleaving with a concurrently running receive thread is not explored here (C13 covers the notification ordering).",
      "DESIGN.md section 2, C01")
claim("C03", "exploration",
      "stateful property-based testing: same generated histories, every emitted ACKNACK/NACKFRAG captured at the datagram tap, decoded by an independent codec and compared with the model as of the HEARTBEAT being answered",
      "Every reply datagram the reader emits for a generated history is captured at UDPSender::send_to_locator, decoded independently and by Message::read_from_buffer, and checked for: base <= lowest unknown SN, base monotone per match, every requested SN missing and inside the advertised range, "
      "count growing per kind, lowest missing sample requested by ACKNACK or - when partially received - by a NACKFRAG naming exactly the missing fragments (256 window), a reply whenever something is missing or the final flag is clear, numBits <= 256.",
      "Trusted: the model in incrate/rscript.rs and the independent codec incrate/wire.rs. Writers are matched with a unicast locator (callers' precondition).",
      "DESIGN.md section 2, C03")
claim("C05", "exploration",
      "property-based testing + exhaustive sweep: round trip of fragmented samples (reader side with generated permutations/duplicates/interleavings/withheld fragments; writer side differential against independent slicing; end to end writer->reader); exhaustive (size, fragment size) grid",
      "Reader side: generated DATAFRAG sets of several samples and writers in any order with duplicates, interleaving, incomplete sets and multi-fragment submessages against the model (sample handed over once, byte-identical, only when complete). "
      "Writer side: every DATAFRAG the real Writer emits for generated and exhaustively enumerated (size, fragment size) pairs is compared with an independent slicing of header||value. End to end: the Writer's own datagrams permuted/duplicated/one withheld into a real Reader.",
      "Trusted: incrate/wire.rs, the slicing arithmetic in incrate/c05_frag.rs. One fragment size per writer (RTPS rule). Fragment sizes 1..1024; sample sizes up to a few fragments.",
      "DESIGN.md section 2, C05")

claim("C06", "exploration",
      "fuzzing / property-based testing with structured generators: well-framed RTPS datagrams with boundary-pool field values, mutated and raw bytes, hostile discovery payloads, injected into a real node in a generated protocol state; oracles: no panic/abort, deterministic loop-iteration and allocation budgets, metamorphic survival clause (valid traffic of another peer processed as on a fresh node)",
      "Generated hostile datagram sequences (structured with boundary pools for every numeric field; mutated; raw) are injected into MessageReceiver::handle_received_packet of a node with a reliable and a best-effort reader and a reliable writer with history, after valid traffic put it into a generated protocol state; ACKNACK/NACKFRAG reach Writer::handle_ack_nack as in DPEventLoop. "
      "Per datagram: panics (overflow checks on), process aborts (supervisor), loop iterations at guarded tick points and peak allocation against budgets proportional to the datagram length. Afterwards a well-behaved peer's DATA+HEARTBEAT must be handed over byte-exact and answered with the right ACKNACK, and the writer must still answer that peer's ACKNACK with the requested sample. Genuine defects found are fixed or listed in known_findings.txt with a generator exclusion. Scenarios 3 / 4 run the stateful reader / writer scripts of C01 / C04 (incl. NACKFRAG, directed writes, cache cleaning) for survival, and require that the writer's repair requests drain once the traffic has stopped. Second stage (security build, scenario 5): a MessageReceiver with real SecurityPlugins and generated protection receives the datagrams of a key-exchanged peer, each first in 1-3 byte-mutated forms (bytes, submessage lengths, 32-bit fields of the secure submessages, truncation, insertion, splices) under the same per-datagram monitors; then a second correctly protecting peer must still reach every reader. ./check merges the evidence of the two stages.",
      "Trusted: tick points cover the value-driven loops found by reading (others are seen only by the 120 s watchdog, reported as inconclusive); allocation is measured per thread; libFuzzer target (fuzz/) adds coverage-guided raw bytes in the thorough tier.",
      "DESIGN.md section 2, C06")

claim("C04", "exploration",
      "stateful property-based testing: generated histories of write / crafted ACKNACK / match / loss / heartbeat tick / timers / cache cleaning against one real Writer with scripted remote readers; every emitted datagram decoded independently per destination; model of written samples, acknowledgments and requests",
      "Generated operation histories drive a real reliable Writer (all History / Durability settings, small fragment sizes) through its production entry points (WriterCommand channel, MessageReceiver -> acknack channel -> handle_ack_nack, handle_heartbeat_tick, the real timer dispatcher, cache cleaning). "
      "After every step all emitted datagrams are decoded per destination locator and checked: DATA/DATAFRAG bytes equal what was written, no single-reader sample reaches another reader, HEARTBEAT (first,last) = (lowest retrievable, highest written); after every cleaning the retention lower and upper bounds; at the end every outstanding request was answered by the bytes or a covering GAP and readers that spoke after a single-reader sample got a GAP.",
      "Trusted: the model in incrate/wscript.rs; scripted readers never lower their ACKNACK base; timer steps wait 3 ms of real time per step (verdict independent of the duration).",
      "DESIGN.md section 2, C04")
claim("C20", "exploration",
      "stateful property-based testing: the writer script with WaitForAcknowledgments commands at any point; the completion channel and the return values of the public sync / async calls are compared with a model",
      "Writer level (deterministic): generated histories of writes, ACKNACKs with bases around last / last+1 / last+2, reader match and loss, and WaitForAcknowledgments commands (also repeated) against the real Writer; after every step the completion channel must hold a token exactly when the model says that every reliable reader matched at the call has acknowledged everything written before the call or was lost - never earlier, and in the same step when already true at the call. "
      "API level: a real DataWriter wired to the rig Writer: async_wait_for_acknowledgments polled by a strict executor (only when woken) must be Pending exactly while the model's condition is false and Ready(true) as soon as the writer has processed the deciding event (in part of the cases the first poll meets a full command queue); the blocking form runs on a helper thread in three timing-robust shapes (already true -> true; never true -> false not before the requested 150 ms; becomes true during the wait -> true).",
      "Trusted: the model in incrate/wscript.rs and incrate/c20_waitack.rs. The blocking shapes use real time with wide margins (10 s for 'promptly', 145 ms lower bound for a 150 ms timeout).",
      "DESIGN.md section 2, C20")

claim("C13", "exploration",
      "schedule exploration: a cooperative yield-point scheduler owns the interleaving of the two real threads (event-loop side and application side); decisions are generated (and, for short scenarios, enumerated exhaustively); the oracle is 'data present and consumer idle implies a wake-up or notification was delivered'",
      "Eight scenarios put the producer side (Reader::notify_cache_change / Writer command processing) and the consumer side (SimpleDataReader / DataReader async streams, mio-0.6 and mio-0.8 event sources, DataWriter::async_write with a full queue, async_wait_for_acknowledgments) on two OS threads that only run when the scheduler hands them the token at guarded yield points placed between 'insert', 'notify', 'look at waker', 'store waker', 'take'. "
      "The consumer is a strict executor / strict poller: it polls only after a wake-up (or readiness event), and at the end the case fails if unread data (or queue room / completion) exists while the consumer sleeps with no wake-up pending. Switch decisions come from the choice bytes; an exhaustive DFS enumerates all switch vectors for the short scenarios.",
      "Trusted: the yield points cover the racing steps (they sit at every access of the shared waker slot, notification channel and cache in the code paths used); real OS preemption between yield points is not explored. The mio event sources are polled with a zero timeout after the producer has finished, so readiness must already be latched.",
      "DESIGN.md section 2, C13")

claim("C07", "exploration",
      "configuration / schedule / fault generation over LIVE participants: generated creation orders, pauses, QoS, payload sizes and datagram loss for two or three real DomainParticipants in one process; oracle = the sent sequence (round trip through the public API) and matched-status events",
      "Every case creates two or three real DomainParticipants in a private domain on this host and observes only DataWriter::write/dispose, DataReader::take and the matched-status events. Generated: the interleaving of the creation chains (participant -> topic -> writer -> early writes | participant -> topic -> reader | optional third participant and reader), pauses 0 / 30 ms / 300 ms / 2.5 s between the steps, with_key / no_key, Volatile / TransientLocal on either side, payload sizes of every residue mod 4 around 1x and 2x the fragment size, values and disposals, loss 0-20 % and duplication 0-5 % of ALL datagrams of the domain (guarded tap in UDPSender), and the entity deleted at the end. "
      "Checked: everybody matches within 40 s; samples written after matching arrive completely, in order and unaltered (blob is a function of the sequence number); a TransientLocal reader takes exactly retained history + later samples; a Volatile reader takes no sample written before it existed and only a suffix of the other early ones; deleting reader / writer / either participant produces an unmatch event with the right current count within 45 s. A fixed list of formerly failing creation orders always runs first.",
      "Trusted: generous real-time bounds; a case that misses a bound is run again and reported only if it fails twice (a flaky genuine defect may be missed, a loaded machine does not raise an alarm). The thread schedule is not controlled; a replay file reproduces the configuration only. A fault-free calibration pair must work first, otherwise the check exits 2 (no usable interface). Security-enabled configurations: see C16-C19.",
      "DESIGN.md section 2, C07")

claim("C16", "exploration",
      "round-trip and fault-injection property-based testing: generated protection configurations and plaintexts are encoded by the real crypto plugin, serialized to datagram bytes, altered (every byte position, field replacements, swaps between encodings, foreign key material, other addressee), parsed by the real RTPS parser and decoded; the oracle is the plaintext and a byte-region map derived from the DDS-Security wire layout",
      "One sender and 1-3 receivers (real CryptographicBuiltin instances, keys exchanged through the real key factory / token calls) with RTPS, submessage and payload protection each NONE / SIGN / ENCRYPT, AES-128/256, origin authentication on/off. Payloads (all residues mod 4) travel in DATA (padded) or DATAFRAG framing, submessages and whole messages through Message::write / Message::read_from_buffer. "
      "Violation: an untouched protected form is rejected or decodes differently at an addressed receiver; any alteration inside the authenticated bytes (transformation kind, key id, session id, IV, content, common MAC, the receiver's own MAC entry, RTPS header at message level) still decodes; any alteration at all decodes to different content; the prefix of another encoding, an encoding under other key material, or (with origin authentication) an encoding not carrying this receiver's MAC decodes. Receiver 0 is also matched and key-exchanged with a second legitimate sender: its traffic must round-trip, and what one sender encoded must be rejected when decoded under the other's handles (payload, submessage, message level).",
      "Trusted: ring's AES-GCM; the region map (from the specification's wire layout) of what is authenticated. Alterations are single-byte XOR masks and whole-field replacements, not adaptive forgeries.",
      "DESIGN.md section 2, C16")

claim("C17", "exploration",
      "fault-injection / differential property-based testing of the receive path: generated protection configurations and generated mixes of plaintext, wrongly protected, malformed and correctly protected traffic are injected into a real MessageReceiver with real SecurityPlugins; the oracle is a decision table written from the property",
      "A rig node (real MessageReceiver, Readers, Writer, SecurityPlugins with the real CryptographicBuiltin) with RTPS protection NONE/SIGN/ENCRYPT, 2-3 user readers and a user writer with generated submessage / payload protection, the three exempt built-in readers and the SEDP publications reader. A key-exchanged peer's plugins produce correct payload / submessage / message protection; the generator also sends plaintext, payloads under another writer's key, wrappers made with another endpoint's keys, broken prefix/body/postfix sequences, ENTITYID_UNKNOWN addressing, INFO_DST. "
      "Violation: a DATA reaches a reader's TopicCache (or an ACKNACK the ack-nack channel) although a required layer was missing or made with other keys (bypass); a protected payload is delivered altered; traffic carrying exactly the required protection (or plaintext to an unprotected endpoint, or plaintext to the three exempt topics under RTPS protection) is not delivered. Plaintext DATA also claims writer ids other than the matched one (bootstrap writers, SEDP writers, another endpoint's writer); user readers are sometimes also matched with writers of a third participant that carry the same entity ids. Scenario 1 starts at the governance document: the generated requirements are written as a signed governance document, loaded by the real AccessControlBuiltin, the attributes it derives are compared with the DDS-Security mapping (kind -> protected / encrypted / origin authenticated; secure built-in, key-exchange and bootstrap topics) and used to configure the same rig. A legitimate set-up that fails is a violation (c17.blocked|setup).",
      "Trusted: the decision table in incrate/c17_gate.rs; authentication / access control are stubs (never consulted by the gating code). Payload protection is taken to cover the serialized payload only (a DATA without payload is not generated).",
      "DESIGN.md section 2, C17")

claim("C18", "exploration",
      "model-based property-based testing: permissions and governance documents are generated from a grammar, signed in-process with the shipped Permissions CA key and loaded by the real access control plugin; decisions are compared with a reference evaluator over the generator's AST; signed documents are altered byte by byte, re-signed by another CA, and spliced",
      "Scenario 0: generated governance (domain rules with id / range / open-range sets, topic rules with patterns and access-control flags) and permissions documents (grants for this / another subject, valid / expired / not yet valid, allow / deny rules with domain sets, publish / subscribe criteria with topic patterns * ? [a-c] [!a] and optional partition lists, default ALLOW / DENY), S/MIME-signed like sign-test-configurations.sh, loaded through validate_local_permissions / validate_remote_permissions via data: URIs; 16 queries per case through check_create_datawriter / datareader / topic and check_remote_datawriter / datareader / topic. The reference evaluator implements: governance first matching topic rule decides protected / unprotected; otherwise first applicable rule of the subject's first currently valid grant, else the grant's default; own pattern matcher; domain-set membership; loading must fail exactly when no domain rule covers the domain or no valid grant names the subject. "
      "Scenario 1: one byte of the signed content of either document altered (must be rejected), any byte anywhere altered (counted), document signed by another CA of the same name (must be rejected), content of another validly signed document under this signature (must be rejected).",
      "Trusted: the reference evaluator and pattern matcher in incrate/c18_access.rs; openssl for producing signatures. Every entity is in the default partition (the plugin API has no partitions). Topic-kind queries are asserted only when the read and write flags of the topic rule agree. The plugin reads the wall clock for validity windows: the deciding bound is decades away, or 45 min - 10 h from the clock read at the start of the case and written with an explicit UTC offset.",
      "DESIGN.md section 2, C18")

claim("C19", "exploration",
      "fault-injection property-based testing with a metamorphic recovery oracle: a genuine three-message handshake between real AuthenticationBuiltin instances with one generated fault spliced in at a generated point, followed by the genuine message that was due",
      "Identities: the shipped participant certificate, a second one issued in-process by the shipped Identity CA key, and one issued by a foreign CA of the same name. Faults: every token field (c.id c.perm c.pdata c.dsign_algo c.kagree_algo hash_c1 dh1 challenge1 hash_c2 dh2 challenge2 signature, class id) with one byte flipped / truncated / emptied / removed / replaced by the value of another run; the whole message of another run; another message out of order; the corresponding message of the foreign-CA identity; a request or a hand-built consistent reply claiming a GUID not derived from the certificate (its own with bits changed, or the GUID of a third identity issued by the same CA); delivered before the request, the reply or the final message is processed, or after completion. "
      "Violation: the fault-free run fails or the secrets differ; a bad message makes the side that processed it return Ok / OkFinalMessage or hold a shared secret; after a rejected bad message the genuine message no longer completes the handshake with equal secrets; a bad message changes or erases the secret of a completed handshake; after the genuine handshake, the same plugin instance accepts a NEW participant whose certificate carries the genuine peer's subject name but was issued by a foreign CA (as requester or as replier). A genuine set-up that fails is a violation, not a harness error.",
      "Trusted: ring / openssl; alterations are single-field, not adaptive forgeries. A request is unauthenticated by design: a self-consistent bad request may be taken as a request (it must not complete on that side); that it then blocks the genuine request is the listed known finding.",
      "DESIGN.md section 2, C19")

claim("C02", "exploration",
      "fault-injection property-based testing: generated fault plans (drop / duplicate / delay per datagram) over a bounded run of a real Writer and 1-2 real Readers, followed by fault-free rounds; liveness decided as a fixpoint test on a projection of the protocol state, plus a quietness check",
      "A generated fault plan decides the fate of every datagram (DATA, DATAFRAG, HEARTBEAT, GAP, ACKNACK, NACKFRAG) exchanged between a real reliable Writer and real reliable Readers during generated writes / heartbeat ticks / timer steps / cache cleanings. Then faults stop and rounds {heartbeat tick, deliver all, fire timers to quiescence} run. "
      "Violation: the projection of the protocol state (both sides) repeats without the readers holding every sample of the writer's history and knowing the rest unavailable; or a bound of 8+4*(samples+fragments) rounds passes; or, after convergence, heartbeat ticks and timers still emit datagrams.",
      "Trusted: the projection contains all protocol state that matters (round bound is the backstop); timer steps wait 3 ms of real time; virtual time advances 1 s per round.",
      "DESIGN.md section 2, C02")

claim("C08", "exploration",
      "model-based (stateful) property-based testing: generated histories of arrivals (values / disposes, several instances and writers, out-of-order sequence numbers) and every access call of the public DataReader API against a reference model of DDS 1.4 2.2.2.5.1",
      "A reference model (instances with state, disposed generation count, per-sample generation snapshot / read flag / taken flag, History eviction) written from the DDS text predicts for every generated call (read, take, *_next_sample, read/take_instance This/Next with present, absent and unknown keys, four iterators; conditions any / not_read; max 0,1,2,all) "
      "the number of returned samples, that each is selected by the condition, per-writer sequence order, sample_state, instance_state, generation counts, view_state of the most recent sample of each instance, take-at-most-once, read never removing, and the History depth bound. Scenario 1 (differential): the no_key DataReader and a with_key DataReader receive the same values of 1-3 writers on one instance and must answer every call (read, take, *_next_sample, the four iterators) alike.",
      "Trusted: the model in incrate/c08_readtake.rs with the readings documented in the evidence assumptions (KeepLast counts taken changes as recent; 'most recent' is by reception time; view state asserted where two readings of the spec agree). Changes are placed in the topic cache as the RTPS Reader does.",
      "DESIGN.md section 2, C08")
claim("C09", "exploration",
      "property-based testing over queues of good/unintelligible changes x every read/take form (sync, iterator, async streams; with_key and no_key), with a deterministic loop-iteration budget per call and an exact delivery oracle; plus the same through DATA submessages into the real RTPS Reader",
      "Generated queues (each position good or one of 6 unintelligible kinds, 1-2 writers, reliable / best-effort) are drained through each of 12 API forms. Each call must return within 200+20*len iterations of the instrumented take loop; the outcomes must contain every good change exactly once in order, no fabricated sample, at most one error per reportable bad change, and never 'empty' / Pending while a good change is deliverable. "
      "Scenario 1 sends the queue as DATA submessages through MessageReceiver and a reliable Reader, including DATA that cannot become a change at all.",
      "Trusted: the tick point in try_take_one_with is the bounded-time signal (120 s watchdog as backstop). Async streams are polled directly with a counting waker.",
      "DESIGN.md section 2, C09")

claim("C11", "exploration",
      "model-based (stateful) property-based testing: generated histories of discovery events applied to a real DiscoveryDB and the real (never started) DPEventLoop handlers; model of the currently announced compatible endpoints predicts matched sets and the exact status-event stream",
      "Generated histories (participant announced/re-announced/disposed/timed out by participant_cleanup on a virtual clock/found again; endpoint announced/re-announced/disposed; compatible and incompatible QoS) are applied as Discovery applies them (DiscoveryDB::update_* then DPEventLoop::remote_*_discovered / remote_*_lost / remote_participant_lost / update_participant via guarded wrappers). "
      "After every event each local reader's / writer's matched set must equal the model's set, and its status channel must contain exactly the expected events with total (never decreasing, +1 per new match), current (= set size, +-1 per event) and incompatible-QoS counts.",
      "Trusted: the model in incrate/c11_matching.rs; 'currently announced' as defined in the evidence assumptions. The SEDP DataReader layer between the wire and these handlers is covered by C15 (wire) and C07 (end to end).",
      "DESIGN.md section 2, C11")
claim("C12", "exploration",
      "model-based (stateful) property-based testing of DiscoveryDB with a virtual clock: generated timings of announcements, liveness signals, clean-ups, disposes and reappearances around the lease boundaries",
      "Generated histories on a real DiscoveryDB whose Instant::now() is virtual (guarded hook): time advances are drawn around each participant's lease (lease-1ms, lease, lease+1ms, 2*lease, half, tiny); participant_cleanup must return exactly the participants whose last life sign (SPDP announcement or liveness side channel) is older than their lease, never one within it; "
      "dispose removes at once together with the endpoints; after a time-out and re-announcement the previously learned endpoints are listed again, after a dispose they are not.",
      "Trusted: the model in incrate/c12_lease.rs; the virtual-instant hook replaces the three Instant::now() calls of discovery_db.rs. ParticipantLost status events and the unmatching that follows are covered by C11.",
      "DESIGN.md section 2, C12")

claim("C15", "exploration",
      "property-based testing: round trip of generated discovery values in both PL_CDR byte orders, plus metamorphic relations on the wire form (foreign parameters inserted, order permuted, optional parameter deleted => documented default) using an independent parameter-list splitter; parse/re-serialise stability on mutated bytes",
      "Generated values of the four discovery types (every optional field independently present/absent, 0-3 locators of several kinds per list, strings of every alignment, all QoS enum values and boundary durations) are serialised with to_pl_cdr_bytes (LE and BE), walked by an independent parameter-list splitter, and parsed back (equality modulo receive timestamps). "
      "Then one metamorphic variant per case: 1-5 unknown standard / vendor-specific / must-understand parameters inserted anywhere (value must be unchanged; only must-understand ones may be rejected), order permuted (same value), one optional PID deleted (value = original with that field at its default). ParticipantMessageData (CDR LE/BE) and QosPolicies (parameter list) round trips; mutated parameter values must parse->serialise->parse stably.",
      "Trusted: the default table in incrate/c15_discovery_wire.rs (from RTPS 2.5 section 9.6.3.2 and the code's documented representation: absent lease / QoS policy = None). Security-specific parameters are out of the default build's domain.",
      "DESIGN.md section 2, C15")

NOT_YET = {
}

ALL = ["C%02d" % i for i in range(1, 21)]

def main():
    checks = []
    for pid in ALL:
        if pid not in CHECKS:
            continue
        c = CHECKS[pid]
        checks.append({
            "property_id": pid,
            "quick_cmd": f"./check {pid} quick",
            "thorough_cmd": f"./check {pid} thorough",
            "evidence_file": f"/verif/evidence/{pid}.json",
            "replay_cmd_template": f"./check {pid} --replay {{path}}",
            "engine": "vp",
            "level_claimed": {"category": c["category"], "text": c["text"], "design_ref": c["ref"]},
            "level_note": c["note"],
            "technique": c["technique"],
        })
    na = []
    for pid in ALL:
        if pid not in CHECKS:
            na.append({"property_id": pid,
                       "reason": NOT_YET.get(pid, "check not built yet in this round (planned, see DESIGN.md section 2); not claimed until its driver exists and was validated")})
    m = {
        "version": 1,
        "setup_cmd": "./setup.sh",
        "hooks": {
            "guard": "--cfg rustdds_verif",
            "enable": "RUSTFLAGS=\"--cfg rustdds_verif\" cargo build --release --offline --manifest-path /verif/harness/Cargo.toml [--features security]  (done by ./check)",
            "baseline_off_cmd": "/verif/baseline_off.sh",
            "source_commits": repo_hook_commits(),
            "add_only": True,
        },
        "engines": [
            {"name": "vp", "path": "/verif/harness",
             "serves_properties": [c["property_id"] for c in checks],
             "kind_free_text": "property-based testing engine: proptest TestRunner (fixed seed from VERIF_SEED) generates byte choice streams that in-crate drivers (/verif/incrate, compiled into rustdds under cfg(rustdds_verif)) decode into cases; explicit oracles; shrinking; replay files; known-findings matching"},
            {"name": "fuzz", "path": "/verif/fuzz",
             "serves_properties": [],
             "kind_free_text": "cargo-fuzz/libFuzzer targets feeding the same drivers (thorough tiers)"},
        ],
        "checks": checks,
        "not_applicable": na,
        "notes": "All checks: ./check <ID> quick|thorough rebuilds the harness and rustdds from /repo's working tree with --cfg rustdds_verif, honours VERIF_SEED, rewrites evidence/<ID>.json. Exit 0 held / 1 VIOLATION / 2 harness error, hang or inconclusive. Known findings: /verif/known_findings.txt.",
    }
    with open(os.path.join(ROOT, "MANIFEST.json"), "w") as f:
        json.dump(m, f, indent=1)
        f.write("\n")
    # validate if jsonschema available
    try:
        import jsonschema
        schema = json.load(open("/root/.vp/MANIFEST.schema.json"))
        jsonschema.validate(m, schema)
        print("MANIFEST.json valid;", len(checks), "claimed,", len(na), "not claimed")
    except ImportError:
        print("MANIFEST.json written (jsonschema not importable here)")

if __name__ == "__main__":
    main()

#!/usr/bin/env python3
"""tools_seeded_meta.py <dir> key=value ... : write meta.json for a seeded change"""
import sys, json, subprocess, os
d = sys.argv[1]
meta = {}
p = os.path.join(d, "meta.json")
if os.path.exists(p):
    meta = json.load(open(p))
for kv in sys.argv[2:]:
    k, v = kv.split("=", 1)
    if v in ("true", "false"):
        v = v == "true"
    meta[k] = v
diff = open(os.path.join(d, "patch.diff")).read()
meta["files_changed"] = sorted({l[6:] for l in diff.splitlines() if l.startswith("+++ b/")})
meta["base_commit"] = subprocess.check_output(["git", "-C", "/repo", "rev-parse", "--short", "HEAD"]).decode().strip()
json.dump(meta, open(p, "w"), indent=1, sort_keys=True)
print(open(p).read())

// Shared by all targets: run one in-crate driver on the fuzzer's bytes (the bytes are
// the driver's choice stream, or the raw input of the byte-level scenarios), with the
// semantic oracle inside the target. Listed known findings are tolerated (their
// generator exclusions are switched on, and a panic whose backtrace goes through a
// listed function is swallowed), so that a campaign does not rediscover them for ever.

use std::{
  cell::RefCell,
  panic,
  sync::{Once, OnceLock},
};

use rustdds::verif::{hooks, registry, Outcome, Verdict};

struct Known {
  sigs: Vec<String>,
  /// function paths taken from the signatures' keys
  /// (function name, kind of panic message or empty for any)
  frames: Vec<(String, String)>,
}

static KNOWN: OnceLock<Known> = OnceLock::new();
static INIT: Once = Once::new();

thread_local! {
  static LAST_BACKTRACE: RefCell<String> = const { RefCell::new(String::new()) };
}

fn init(property: &str) {
  INIT.call_once(|| {
    let root = std::env::var("VERIF_ROOT").unwrap_or_else(|_| "/verif".to_string());
    let text = std::fs::read_to_string(format!("{root}/known_findings.txt")).unwrap_or_default();
    let mut sigs = Vec::new();
    let mut frames = Vec::new();
    for line in text.lines() {
      let Some(rest) = line.trim().strip_prefix("known:") else { continue };
      if !rest.contains(&format!("property={property}")) {
        continue;
      }
      for tok in rest.split_whitespace() {
        if let Some(s) = tok.strip_prefix("sig=") {
          sigs.push(s.to_string());
          if let Some((_, key)) = s.split_once('|') {
            let f = key.rsplit(':').next().unwrap_or(key);
            let _ = f;
            if key.contains("rustdds::") {
              // backtraces of this build print short function names
              let path = &key[key.find("rustdds::").unwrap()..];
              // panic signatures are `function#kind-of-message`
              let (path, kind) = match path.split_once('#') {
                Some((p, k)) => (p, k.to_string()),
                None => (path, String::new()),
              };
              let segs: Vec<&str> = path.split("::").collect();
              let last = segs[segs.len() - 1];
              if last.len() >= 8 {
                frames.push((last.to_string(), kind));
              } else if segs.len() >= 2 {
                frames.push((format!("{}::{}", segs[segs.len() - 2], last), kind));
              }
            }
          }
        }
        if let Some(x) = tok.strip_prefix("excl=") {
          hooks::exclusion_enable(x);
        }
      }
    }
    let _ = KNOWN.set(Known { sigs, frames });
    panic::set_hook(Box::new(|info| {
      let bt = std::backtrace::Backtrace::force_capture().to_string();
      LAST_BACKTRACE.with(|b| *b.borrow_mut() = format!("{info}\n{bt}"));
    }));
  });
}

pub fn run(property: &str, scenario: u32, data: &[u8]) {
  init(property);
  let reg = registry();
  let prop = reg.iter().find(|p| p.id == property).expect("property registered");
  let f = prop.run;
  let res = panic::catch_unwind(|| f(scenario, data, false));
  let known = KNOWN.get().unwrap();
  match res {
    Ok(Outcome { verdict: Verdict::Violation { clause, key, detail }, .. }) => {
      let sig = format!("{clause}|{key}");
      if known.sigs.iter().any(|s| *s == sig) {
        return;
      }
      eprintln!("VIOLATION property={property} clause={clause} key={key}\n{detail}");
      panic::resume_unwind(Box::new(format!("violation {sig}")));
    }
    Ok(_) => {}
    Err(p) => {
      let bt = LAST_BACKTRACE.with(|b| b.borrow().clone());
      let kind_of = |text: &str| -> String {
        let first = text.lines().next().unwrap_or("");
        // "panicked at file:line:col:" is followed by the message on the next line
        let msg = text.lines().nth(1).unwrap_or(first);
        msg
          .chars()
          .filter(|ch| ch.is_ascii_alphabetic() || *ch == ' ')
          .collect::<String>()
          .split_whitespace()
          .take(7)
          .collect::<Vec<_>>()
          .join("_")
          .to_lowercase()
      };
      let kind = kind_of(&bt);
      if known.frames.iter().any(|(f, k)| bt.contains(f.as_str()) && (k.is_empty() || *k == kind)) {
        return;
      }
      eprintln!("PANIC in property {property} scenario {scenario}:\n{}", bt.chars().take(6000).collect::<String>());
      panic::resume_unwind(p);
    }
  }
}

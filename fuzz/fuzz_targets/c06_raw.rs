#![no_main]
mod common;
use libfuzzer_sys::fuzz_target;

fuzz_target!(|data: &[u8]| {
  common::run("C06", 1, data);
});

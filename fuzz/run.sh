#!/bin/bash
# fuzz/run.sh <target> <property> <scenario> [runs] [seed]
# Builds the libFuzzer target (nightly, offline) and runs a campaign of a fixed number of
# runs from a fresh corpus. A crash (a violation of the in-target oracle, a panic, an
# out-of-memory or a timeout that is not a listed known finding) is turned into a replay
# file for ./check and reported as VIOLATION; build problems exit 2.
set -u
t=$1; prop=$2; scen=$3; runs=${4:-1000000}; seed=${5:-${VERIF_SEED:-1}}
root=/verif
[ -f $root/fuzz/Cargo.lock ] || cp /repo/Cargo.lock $root/fuzz/Cargo.lock
cd $root/harness || exit 2
export RUSTFLAGS="--cfg rustdds_verif" CARGO_NET_OFFLINE=true VERIF_ROOT=$root
cargo +nightly fuzz build --fuzz-dir $root/fuzz $t > $root/fuzz/build-$t.log 2>&1 || { echo "HARNESS-ERROR: fuzz build failed (see fuzz/build-$t.log)"; exit 2; }
bin=$root/fuzz/target/x86_64-unknown-linux-gnu/release/$t
corp=$root/fuzz/corpus-run/$t; art=$root/fuzz/artifacts/$t
rm -rf $corp $art; mkdir -p $corp $art
[ -d $root/fuzz/corpus/$t ] && cp $root/fuzz/corpus/$t/* $corp/ 2>/dev/null
[ "$seed" = 0 ] && seed=1
$bin $corp -runs=$runs -seed=$seed -max_len=800 -len_control=0 -artifact_prefix=$art/ \
  -rss_limit_mb=6000 -malloc_limit_mb=1200 -timeout=120 -print_final_stats=1 > $root/fuzz/run-$t.log 2>&1
rc=$?
execs=$(grep -o "stat::number_of_executed_units: [0-9]*" $root/fuzz/run-$t.log | grep -o "[0-9]*$")
cov=$(grep -o "cov: [0-9]*" $root/fuzz/run-$t.log | tail -1)
echo "fuzz $t: ${execs:-?} executions, ${cov:-cov ?}, seed $seed, exit $rc"
if [ $rc -ne 0 ]; then
  a=$(ls -t $art/* 2>/dev/null | head -1)
  if [ -n "$a" ]; then
    mkdir -p $root/replays/$prop/found
    out=$root/replays/$prop/found/fuzz-$t-$(basename $a | cut -c1-24).json
    python3 - "$a" "$out" "$prop" "$scen" <<'PY'
import sys, json
a, out, prop, scen = sys.argv[1:5]
b = open(a, 'rb').read()
json.dump({"property": prop, "scenario": int(scen), "choices_hex": b.hex(), "origin": "libFuzzer artifact " + a}, open(out, 'w'), indent=1)
PY
    grep -E "^VIOLATION|^PANIC|ERROR: libFuzzer" $root/fuzz/run-$t.log | head -3
    echo "VIOLATION property=$prop replay=$out"
    exit 1
  fi
  echo "HARNESS-ERROR: fuzz target exited $rc without an artifact (see fuzz/run-$t.log)"; exit 2
fi
exit 0

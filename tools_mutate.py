#!/usr/bin/env python3
"""Sensitivity helper: apply one textual mutation to /repo's working tree, run a
check, restore the tree. usage: tools_mutate.py <file> <old> <new> -- <check args...>"""
import subprocess, sys
i = sys.argv.index('--')
f, old, new = sys.argv[1:4]
args = sys.argv[i+1:]
p = '/repo/' + f
if subprocess.run(['git','-C','/repo','status','--porcelain'],capture_output=True,text=True).stdout.strip():
    print('MUTATION-ERROR: /repo has uncommitted changes; commit them first'); sys.exit(3)
s = open(p).read()
if s.count(old) != 1:
    print(f"MUTATION-ERROR: pattern occurs {s.count(old)} times in {f}"); sys.exit(3)
open(p, 'w').write(s.replace(old, new))
try:
    r = subprocess.run(['/verif/check'] + args, capture_output=True, text=True)
    tail = [l for l in (r.stdout + r.stderr).splitlines() if l.startswith(('VIOLATION', 'clause', 'key', 'KNOWN', 'HARNESS', 'C')) ]
    print(f"exit={r.returncode}", ' | '.join(tail[-4:])[:600])
finally:
    subprocess.run(['git', '-C', '/repo', 'checkout', '--', f])
    # the evidence file now describes a run against the mutated tree: put the committed one back
    subprocess.run(['git', '-C', '/verif', 'checkout', '-q', '--', 'evidence/%s.json' % args[0]])
    subprocess.run(['rm', '-rf', '/verif/replays/%s/found' % args[0]])

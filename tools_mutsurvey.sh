#!/bin/bash
# tools_mutsurvey.sh <mutants.jsonl> <workers> <dir>
# Runs the mutation survey on private copies of /repo and /verif (one pair per
# worker, bind-mounted over /repo and /verif inside a private mount namespace), so
# that the real trees are never touched.  Results: <dir>/out.<k>.jsonl
set -u
M=$(readlink -f $1); W=${2:-4}; D=${3:-/tmp/ms}
mkdir -p $D
for k in $(seq 0 $((W-1))); do
  if [ ! -d $D/w$k/repo ]; then
    mkdir -p $D/w$k
    cp -a /repo $D/w$k/repo; cp -a /verif $D/w$k/verif
    touch $D/w$k/repo/.MUTSURVEY_PRIVATE_COPY
    git -C $D/w$k/repo worktree prune 2>/dev/null
  fi
  cat > $D/w$k/go.sh <<EOS
#!/bin/bash
mount --bind $D/w$k/repo /repo && mount --bind $D/w$k/verif /verif || exit 2
cd /verif && exec python3 /verif/tools_mutsurvey.py run $M $k $W $D/out.$k.jsonl
EOS
  chmod +x $D/w$k/go.sh
  nohup unshare -m $D/w$k/go.sh > $D/w$k/log 2>&1 &
done
echo "started $W workers in $D"

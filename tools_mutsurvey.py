#!/usr/bin/env python3
"""Mutation survey: how many small, compiling edits of the anchored code do the
quick tiers notice?  Not part of any registered check; a tool for finding holes.

  tools_mutsurvey.py gen <N> <seed> > mutants.jsonl
      sample N one-token edits (comparison / boolean / arithmetic / min-max /
      negation / dropped statement) from the non-test, non-hook code of the files
      the properties are anchored in.
  tools_mutsurvey.py run <mutants.jsonl> <k> <n> <out.jsonl>
      worker k of n: for each of its mutants apply it to /repo, run the quick tier
      of the properties that cover the file, stop at the first that reports a
      violation; if none does, run the pinned test suite to see whether the
      existing tests notice; undo.  Meant to run on PRIVATE copies of /repo and
      /verif (mount namespace, see tools_mutsurvey.sh), never on the real ones.
  tools_mutsurvey.py report <out.jsonl>...
"""
import json, os, random, re, subprocess, sys

# file -> quick tiers worth running (anchors of properties.jsonl plus what the
# cross matrix showed: the RTPS rigs share the real Reader / Writer code)
RTPS_R = ['C01', 'C03', 'C05', 'C02', 'C09', 'C06', 'C13']
RTPS_W = ['C04', 'C02', 'C20', 'C05', 'C06', 'C13']
COVER = {
    'src/rtps/reader.rs': RTPS_R + ['C11'],
    'src/rtps/rtps_writer_proxy.rs': RTPS_R,
    'src/rtps/fragment_assembler.rs': ['C05', 'C01', 'C02', 'C06'],
    'src/rtps/writer.rs': RTPS_W + ['C11'],
    'src/rtps/rtps_reader_proxy.rs': RTPS_W,
    'src/rtps/message_receiver.rs': ['C01', 'C06', 'C02', 'C14', 'C17'],
    'src/rtps/message.rs': ['C14', 'C06', 'C04'],
    'src/rtps/submessage.rs': ['C14', 'C06'],
    'src/rtps/dp_event_loop.rs': ['C11', 'C12'],
    'src/structure/cache_change.rs': ['C01', 'C08'],
    'src/structure/sequence_number.rs': ['C14', 'C03', 'C04', 'C01'],
    'src/structure/dds_cache.rs': ['C01', 'C08', 'C09', 'C04', 'C13'],
    'src/structure/guid.rs': ['C12', 'C11', 'C14'],
    'src/structure/parameter_id.rs': ['C15'],
    'src/structure/locator.rs': ['C15', 'C06'],
    'src/structure/duration.rs': ['C12', 'C15'],
    'src/messages/submessages/data_frag.rs': ['C05', 'C14', 'C06'],
    'src/messages/submessages/data.rs': ['C14', 'C01', 'C06'],
    'src/messages/submessages/gap.rs': ['C14', 'C06'],
    'src/messages/submessages/heartbeat.rs': ['C14', 'C06'],
    'src/messages/submessages/ack_nack.rs': ['C14', 'C06'],
    'src/messages/submessages/nack_frag.rs': ['C14', 'C06'],
    'src/messages/submessages/heartbeat_frag.rs': ['C14', 'C06'],
    'src/messages/submessages/elements/parameter_list.rs': ['C15', 'C14'],
    'src/messages/submessages/elements/serialized_payload.rs': ['C14', 'C05', 'C01'],
    'src/dds/qos.rs': ['C10', 'C15'],
    'src/dds/ddsdata.rs': ['C05', 'C01'],
    'src/dds/with_key/datasample_cache.rs': ['C08'],
    'src/dds/with_key/datareader.rs': ['C08', 'C09', 'C13'],
    'src/dds/no_key/datareader.rs': ['C08', 'C09'],
    'src/dds/with_key/simpledatareader.rs': ['C09', 'C01', 'C13', 'C08'],
    'src/dds/no_key/simpledatareader.rs': ['C09'],
    'src/dds/with_key/datawriter.rs': ['C13', 'C20', 'C04'],
    'src/dds/sampleinfo.rs': ['C08'],
    'src/dds/readcondition.rs': ['C08'],
    'src/dds/statusevents.rs': ['C11', 'C13'],
    'src/discovery/discovery_db.rs': ['C11', 'C12'],
    'src/discovery/sedp_messages.rs': ['C15', 'C11'],
    'src/discovery/spdp_participant_data.rs': ['C15', 'C12'],
    'src/serialization/pl_cdr_adapters.rs': ['C15'],
    'src/serialization/speedy_pl_cdr_helpers.rs': ['C15'],
    'src/security/cryptographic/cryptographic_builtin/crypto_transform.rs': ['C16', 'C17'],
    'src/security/cryptographic/cryptographic_builtin.rs': ['C16', 'C17'],
    'src/security/cryptographic/cryptographic_builtin/aes_gcm_gmac.rs': ['C16'],
    'src/security/cryptographic/cryptographic_builtin/crypto_key_factory.rs': ['C16', 'C17'],
    'src/security/cryptographic/cryptographic_builtin/crypto_key_exchange.rs': ['C16'],
    'src/security/cryptographic/cryptographic_builtin/validate_receiver_specific_macs.rs': ['C16'],
    'src/security/cryptographic/cryptographic_builtin/key_material.rs': ['C16'],
    'src/security/security_plugins.rs': ['C17', 'C16'],
    'src/security/access_control/access_control_builtin/domain_participant_permissions_document.rs': ['C18'],
    'src/security/access_control/access_control_builtin/domain_governance_document.rs': ['C17', 'C18'],
    'src/security/access_control/access_control_builtin/permissions_document.rs': ['C18'],
    'src/security/access_control/access_control_builtin/helpers.rs': ['C18'],
    'src/security/access_control/access_control_builtin/participant_access_control.rs': ['C18', 'C17'],
    'src/security/access_control/access_control_builtin/local_entity_access_control.rs': ['C18', 'C17'],
    'src/security/access_control/access_control_builtin/remote_entity_access_control.rs': ['C18'],
    'src/security/config.rs': ['C18'],
    'src/security/authentication/authentication_builtin/authentication.rs': ['C19'],
    'src/security/authentication/authentication_builtin/types.rs': ['C19'],
    'src/security/authentication/authentication_builtin.rs': ['C19'],
    'src/security/certificate.rs': ['C19', 'C18'],
}

OPS = [
    (r' <= ', ' < '), (r' < ', ' <= '), (r' >= ', ' > '), (r' > ', ' >= '),
    (r' == ', ' != '), (r' != ', ' == '), (r' && ', ' || '), (r' \|\| ', ' && '),
    (r' \+ 1\b', ' + 0'), (r' - 1\b', ' - 0'), (r' \+ 1\b', ' + 2'),
    (r'\.min\(', '.max('), (r'\.max\(', '.min('),
    (r'\btrue\b', 'false'), (r'\bfalse\b', 'true'),
    (r'\bif !', 'if '), (r'\.is_some\(\)', '.is_none()'), (r'\.is_none\(\)', '.is_some()'),
    (r'\.is_empty\(\)', '.is_empty() == false'),
    (r'\.saturating_sub\(', '.saturating_add('), (r'\.first\(\)', '.last()'),
    (r'\bcontinue;', 'break;'), (r'\.iter\(\)\.all\(', '.iter().any('), (r'\.iter\(\)\.any\(', '.iter().all('),
]
SKIP_LINE = re.compile(r'^\s*//|trace!|debug!|info!|warn!|error!|println!|assert|^\s*#\[|fmt::|write!\(|writeln!\(|unimplemented!|todo!|panic!|bail!|const |static ')
DROP_STMT = re.compile(r'^\s*(self\.[a-z_\.]+|[a-z_]+(\.[a-z_]+)+)\([^;{}]*\);\s*$')


def mask(lines):
    """True = do not touch this line."""
    skip = [False] * len(lines)
    n = len(lines)
    i = 0
    while i < n:
        l = lines[i]
        if l.startswith('#[cfg(test)]') and i + 1 < n and lines[i + 1].lstrip().startswith(('mod ', 'pub mod ', 'pub(crate) mod ')):
            if '{' in lines[i + 1]:
                for j in range(i, n):
                    skip[j] = True
                break
        if 'rustdds_verif' in l or '#[cfg(test)]' in l or '#[test]' in l:
            # skip the guarded item: up to the matching brace, or to the first ';' before any brace
            depth = 0
            seen = False
            j = i
            while j < n:
                skip[j] = True
                depth += lines[j].count('{') - lines[j].count('}')
                if '{' in lines[j]:
                    seen = True
                if (seen and depth <= 0) or (not seen and lines[j].rstrip().endswith((';', ',')) and j > i):
                    break
                j += 1
            i = j + 1
            continue
        m = re.search(r'\b(trace|debug|info|warn|error)!\(', l)
        if m and ');' not in l:
            j = i
            while j < n and ');' not in lines[j]:
                skip[j] = True
                j += 1
            if j < n:
                skip[j] = True
            i = j + 1
            continue
        if SKIP_LINE.search(l):
            skip[i] = True
        i += 1
    # impl Debug / Display blocks
    i = 0
    while i < n:
        if re.search(r'impl.*\b(Debug|Display)\b.*for', lines[i]):
            depth = 0
            j = i
            while j < n:
                skip[j] = True
                depth += lines[j].count('{') - lines[j].count('}')
                if depth <= 0 and '{' in ''.join(lines[i:j + 1]):
                    break
                j += 1
            i = j
        i += 1
    return skip


def candidates(path):
    lines = open('/repo/' + path).read().split('\n')
    skip = mask(lines)
    out = []
    for i, l in enumerate(lines):
        if skip[i]:
            continue
        code = l.split('//')[0]
        for pat, rep in OPS:
            for k, m in enumerate(re.finditer(pat, code)):
                if code[:m.start()].count('"') % 2 == 1:
                    continue  # inside a string literal
                new = code[:m.start()] + rep + code[m.end():] + l[len(code):]
                out.append({'file': path, 'line': i + 1, 'old': l, 'new': new, 'op': pat + '=>' + rep})
        if DROP_STMT.match(code) and 'return' not in code:
            out.append({'file': path, 'line': i + 1, 'old': l, 'new': re.sub(r'\S.*$', '// (statement dropped)', code, 1), 'op': 'drop-statement'})
    return out


def gen(n, seed, only=None):
    rnd = random.Random(seed)
    per = {}
    for f in COVER:
        if only and not any(o in f for o in only):
            continue
        if not os.path.exists('/repo/' + f):
            print('missing', f, file=sys.stderr)
            continue
        c = candidates(f)
        if c:
            per[f] = c
    w = {f: len(c) ** 0.5 for f, c in per.items()}
    tot = sum(w.values())
    out = []
    for f, c in per.items():
        k = min(len(c), max(1, round(n * w[f] / tot)))
        out += rnd.sample(c, k)
    rnd.shuffle(out)
    for i, m in enumerate(out):
        m['id'] = 'm%d-%04d' % (seed, i)
        m['props'] = COVER[m['file']]
        print(json.dumps(m))


def sh(cmd, timeout):
    try:
        r = subprocess.run(cmd, shell=True, capture_output=True, text=True, timeout=timeout)
        return r.returncode, r.stdout + r.stderr
    except subprocess.TimeoutExpired:
        return 124, 'TIMEOUT'


def run(path, k, n, outp):
    assert os.path.exists('/repo/.MUTSURVEY_PRIVATE_COPY'), 'refusing to run on the real /repo'
    ms = [json.loads(l) for l in open(path)]
    done = set()
    if os.path.exists(outp):
        done = {json.loads(l)['id'] for l in open(outp)}
    for idx, m in enumerate(ms):
        if idx % n != k or m['id'] in done:
            continue
        sh('git -C /repo checkout -q -- src', 60)
        p = '/repo/' + m['file']
        lines = open(p).read().split('\n')
        res = dict(m)
        if lines[m['line'] - 1] != m['old']:
            res['result'] = 'stale'
        else:
            lines[m['line'] - 1] = m['new']
            open(p, 'w').write('\n'.join(lines))
            res['result'] = 'survived-checks'
            res['ran'] = []
            for pid in m['props']:
                rc, out = sh('cd /verif && VERIF_SEED=1 VERIF_FUZZ_RUNS=0 ./check %s quick' % pid, 900)
                sh('rm -rf /verif/replays/%s/found' % pid, 60)
                res['ran'].append([pid, rc])
                if rc == 2 and 'build failed' in out:
                    res['result'] = 'does-not-compile'
                    break
                if rc == 1:
                    res['result'] = 'killed'
                    res['by'] = pid
                    cl = re.search(r'^clause: (.*)$', out, re.M)
                    ky = re.search(r'^key: (.*)$', out, re.M)
                    res['clause'] = (cl.group(1) if cl else '?') + '|' + (ky.group(1)[:80] if ky else '')
                    break
                if rc not in (0, 1):
                    res['result'] = 'check-error'
                    res['by'] = pid
                    res['tail'] = out[-400:]
                    break
            if res['result'] == 'survived-checks' and '/security/' not in m['file']:
                # the suite has tests with live participants on domain 0: other suites
                # running on this machine at the same time disturb them, so a failure
                # is believed only if the same test fails again
                failed = None
                for attempt in range(3):
                    rc, out = sh('cd /repo && timeout -s KILL 400 cargo test --workspace --no-fail-fast --offline 2>&1 | grep -E "^test result|FAILED|panicked" | head -8', 500)
                    f = set(re.findall(r'^test (\S+) \.\.\. FAILED', out, re.M))
                    if '624 passed' in out:
                        failed = set()
                        break
                    if not f:
                        failed = {'(suite did not finish)'} if failed is None else failed
                        break
                    failed = f if failed is None else (failed & f)
                    if not failed:
                        break
                if failed:
                    res['result'] = 'killed-by-existing-tests'
                    res['tests'] = sorted(failed)
        sh('git -C /repo checkout -q -- src', 60)
        open(outp, 'a').write(json.dumps(res) + '\n')


def report(paths):
    rs = [json.loads(l) for p in paths for l in open(p)]
    from collections import Counter
    c = Counter(r['result'] for r in rs)
    print(dict(c))
    for r in rs:
        if r['result'] in ('survived-checks', 'check-error', 'tests-unclear'):
            print('%s %s %s:%d  [%s]\n   - %s\n   + %s' % (r['id'], r['result'], r['file'], r['line'], r['op'], r['old'].strip(), r['new'].strip()))


def one(path, mid, checks):
    """apply one mutant of the list to the REAL /repo (must be clean), run the given quick tiers, undo"""
    assert not subprocess.run(['git', '-C', '/repo', 'status', '--porcelain'], capture_output=True, text=True).stdout.strip(), '/repo not clean'
    m = [json.loads(l) for l in open(path) if json.loads(l)['id'] == mid][0]
    p = '/repo/' + m['file']
    lines = open(p).read().split('\n')
    assert lines[m['line'] - 1] == m['old'], 'stale'
    lines[m['line'] - 1] = m['new']
    open(p, 'w').write('\n'.join(lines))
    try:
        for pid in checks or m['props']:
            rc, out = sh('cd /verif && VERIF_SEED=1 VERIF_FUZZ_RUNS=0 ./check %s quick' % pid, 1800)
            sh('rm -rf /verif/replays/%s/found' % pid, 60)
            cl = re.search(r'^clause: (.*)$', out, re.M)
            ky = re.search(r'^key: (.*)$', out, re.M)
            print(mid, m['file'].split('/')[-1], m['line'], pid, 'rc=%d' % rc, (cl.group(1) if cl else '') + '|' + (ky.group(1)[:70] if ky else ''), flush=True)
            if rc == 1:
                break
    finally:
        sh('git -C /repo checkout -q -- src', 60)
        sh('cd /verif && git checkout -q evidence', 60)


if __name__ == '__main__':
    if sys.argv[1] == 'one':
        one(sys.argv[2], sys.argv[3], sys.argv[4:])
        sys.exit(0)
    if sys.argv[1] == 'gen':
        gen(int(sys.argv[2]), int(sys.argv[3]), sys.argv[4:] or None)
    elif sys.argv[1] == 'run':
        run(sys.argv[2], int(sys.argv[3]), int(sys.argv[4]), sys.argv[5])
    elif sys.argv[1] == 'report':
        report(sys.argv[2:])

#!/bin/bash
# Runs the repository's pinned test suite with the verification guard OFF
# (no --cfg rustdds_verif). Same command as /root/.vp/BASELINE.json.
cd /repo || exit 2
unset RUSTFLAGS
export CARGO_NET_OFFLINE=true
if [ -f /w/lib/nextest.toml ] && cargo nextest --version >/dev/null 2>&1; then
  cargo nextest run --workspace --no-fail-fast --tool-config-file pb:/w/lib/nextest.toml --profile pb --test-threads 8 --offline
else
  cargo test --workspace --no-fail-fast --offline
fi

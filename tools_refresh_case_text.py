#!/usr/bin/env python3
"""tools_refresh_case_text.py <ID>...: a regress replay stores the text of the case it was saved for, and the
engine prints a note when the saved choice bytes decode to another text. When only the wording of the case
description changed (a field added to the description), refresh the stored text. Prints old/new so that a
real change of the decoded case is seen and NOT papered over."""
import json, subprocess, glob, re, sys
for pid in sys.argv[1:]:
    for f in sorted(glob.glob('/verif/replays/%s/regress/*.json' % pid)):
        out = subprocess.run(['/verif/check', pid, 'quick', '--replay', f], capture_output=True, text=True).stdout
        m = re.search(r'^case: (.*)$', out, re.M)
        j = json.load(open(f))
        if m and j.get('case') != m.group(1):
            print(f, '\n  old:', str(j.get('case'))[:300], '\n  new:', m.group(1)[:300])
            if '--write' in sys.argv:
                j['case'] = m.group(1); json.dump(j, open(f, 'w'), indent=1, sort_keys=True)

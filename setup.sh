#!/bin/bash
# Builds the framework offline from files on disk: both harness variants
# (default features, and --features security for C16-C19).
set -u
cd "$(dirname "$0")"
export CARGO_NET_OFFLINE=true
export RUSTFLAGS="--cfg rustdds_verif"
mkdir -p evidence harness/target
[ -f harness/Cargo.lock ] || cp /repo/Cargo.lock harness/Cargo.lock
rc=0
cargo build --release --offline --manifest-path harness/Cargo.toml --target-dir harness/target/default >harness/target/build-default.log 2>&1 || { tail -n 40 harness/target/build-default.log; rc=1; }
if grep -q '"C1[6-9]"' MANIFEST.json; then
  cargo build --release --offline --manifest-path harness/Cargo.toml --target-dir harness/target/security --features security >harness/target/build-security.log 2>&1 || { tail -n 40 harness/target/build-security.log; rc=1; }
fi
exit $rc

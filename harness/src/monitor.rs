//! Panic capture and wall-clock watchdog.

use std::{
  backtrace::Backtrace,
  cell::{Cell, RefCell},
  panic,
  sync::{Arc, Mutex},
  time::{Duration, Instant},
};

#[derive(Debug, Clone)]
pub struct PanicRecord {
  pub message: String,
  pub file: String,
  pub line: u32,
  /// first stack frame inside rustdds proper (not rustdds::verif), demangled
  pub frame: String,
  /// true when the panic site is in driver code (/verif/incrate): harness bug
  pub in_driver: bool,
  pub rustdds_frames: Vec<String>,
}

thread_local! {
  static IN_CASE: Cell<bool> = const { Cell::new(false) };
  static LAST: RefCell<Option<PanicRecord>> = const { RefCell::new(None) };
}

pub fn set_in_case(v: bool) {
  IN_CASE.with(|c| c.set(v));
}

pub fn take_panic() -> Option<PanicRecord> {
  LAST.with(|l| l.borrow_mut().take())
}

fn clean_frame(s: &str) -> String {
  // strip the trailing ::h<hash>
  let s = s.trim();
  match s.rfind("::h") {
    Some(i) if s.len() - i == 19 => s[..i].replace(' ', "_"),
    _ => s.replace(' ', "_"),
  }
}

fn first_rustdds_frame(bt: &str) -> String {
  for line in bt.lines() {
    let l = line.trim();
    // frame lines look like "12: rustdds::rtps::reader::Reader::handle_data_msg"
    let Some(pos) = l.find(": ") else { continue };
    let name = &l[pos + 2..];
    let is_rustdds = name.starts_with("rustdds::") || name.starts_with("<rustdds::");
    // trait impls on small value types (`<SequenceNumber as Add>::add`,
    // `<NumberSetIter as Iterator>::next`) say little about the call site: take
    // the first plain function or method instead
    if is_rustdds && !name.contains("rustdds::verif::") && !name.starts_with('<') {
      return clean_frame(name);
    }
  }
  "unknown".to_string()
}

pub fn install_panic_hook() {
  let default = panic::take_hook();
  panic::set_hook(Box::new(move |info| {
    let in_case = IN_CASE.with(|c| c.get());
    if !in_case {
      default(info);
      return;
    }
    let message = if let Some(s) = info.payload().downcast_ref::<&str>() {
      (*s).to_string()
    } else if let Some(s) = info.payload().downcast_ref::<String>() {
      s.clone()
    } else {
      "<non-string panic payload>".to_string()
    };
    let (file, line) = info
      .location()
      .map(|l| (l.file().to_string(), l.line()))
      .unwrap_or_default();
    let bt = Backtrace::force_capture().to_string();
    let frame = first_rustdds_frame(&bt);
    let rustdds_frames: Vec<String> = bt
      .lines()
      .map(str::trim)
      .filter(|l| l.contains("rustdds::") && !l.starts_with("at "))
      .take(12)
      .map(|l| l.to_string())
      .collect();
    let in_driver = file.starts_with("/verif/incrate") && !message.contains("VERIF-TICK-BUDGET");
    LAST.with(|l| {
      // keep the first panic of a case (a second one during unwinding is noise)
      let mut l = l.borrow_mut();
      if l.is_none() {
        *l = Some(PanicRecord {
          message,
          file,
          line,
          frame,
          in_driver,
          rustdds_frames,
        });
      }
    });
  }));
}

// ---------------------------------------------------------------- watchdog

pub struct Slot {
  pub started: Option<Instant>,
  pub scenario: u32,
  pub input: Vec<u8>,
}

pub type Slots = Arc<Vec<Mutex<Slot>>>;

pub fn new_slots(n: usize) -> Slots {
  Arc::new(
    (0..n)
      .map(|_| {
        Mutex::new(Slot {
          started: None,
          scenario: 0,
          input: Vec::new(),
        })
      })
      .collect(),
  )
}

/// Returns Some((scenario,input)) of a case that has been running longer than `limit`.
pub fn find_hung(slots: &Slots, limit: Duration) -> Option<(u32, Vec<u8>)> {
  for s in slots.iter() {
    let s = s.lock().unwrap();
    if let Some(t) = s.started {
      if t.elapsed() > limit {
        return Some((s.scenario, s.input.clone()));
      }
    }
  }
  None
}

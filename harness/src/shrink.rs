//! Second-stage reducer in the style of Hypothesis' internal shrinker, applied
//! after proptest's own shrinking: delete blocks, zero blocks, lower single
//! bytes, repeat to a fixpoint; a candidate is kept only if `still_fails`
//! (same clause id) holds. Bounded by `budget` re-executions.

pub fn reduce(input: &[u8], mut still_fails: impl FnMut(&[u8]) -> bool, budget: usize) -> Vec<u8> {
  let mut best = input.to_vec();
  let mut runs = 0usize;
  let mut try_candidate = |cand: &[u8], best: &mut Vec<u8>, runs: &mut usize| -> bool {
    if *runs >= budget || cand == best.as_slice() {
      return false;
    }
    *runs += 1;
    if still_fails(cand) {
      *best = cand.to_vec();
      true
    } else {
      false
    }
  };
  // strip trailing zeros first (exhausted stream reads as zeros)
  loop {
    let mut changed = false;
    while best.last() == Some(&0) {
      let cand = best[..best.len() - 1].to_vec();
      if !try_candidate(&cand, &mut best, &mut runs) {
        break;
      }
      changed = true;
    }
    // delete blocks
    for size in [16usize, 8, 4, 2, 1] {
      let mut i = 0;
      while i + size <= best.len() {
        let mut cand = best.clone();
        cand.drain(i..i + size);
        if try_candidate(&cand, &mut best, &mut runs) {
          changed = true;
        } else {
          i += 1;
        }
        if runs >= budget {
          return best;
        }
      }
    }
    // zero blocks
    for size in [8usize, 4, 2, 1] {
      let mut i = 0;
      while i + size <= best.len() {
        if best[i..i + size].iter().any(|b| *b != 0) {
          let mut cand = best.clone();
          for b in &mut cand[i..i + size] {
            *b = 0;
          }
          if try_candidate(&cand, &mut best, &mut runs) {
            changed = true;
          }
        }
        i += size;
        if runs >= budget {
          return best;
        }
      }
    }
    // lower single bytes (binary search towards zero)
    for i in 0..best.len() {
      if best[i] == 0 {
        continue;
      }
      let mut lo = 0u16; // known-not-failing below? unknown; search smallest failing value
      let mut hi = u16::from(best[i]);
      while lo < hi {
        let mid = (lo + hi) / 2;
        let mut cand = best.clone();
        cand[i] = mid as u8;
        if try_candidate(&cand, &mut best, &mut runs) {
          hi = mid;
          changed = true;
        } else {
          lo = mid + 1;
        }
        if runs >= budget {
          return best;
        }
      }
    }
    if !changed || runs >= budget {
      break;
    }
  }
  best
}

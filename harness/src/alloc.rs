//! Counting global allocator (per-thread live / peak bytes) for the
//! "memory out of proportion" oracle of C06. Thread-locals are const
//! initialised and have no destructor, so they are safe inside the allocator.
//!
//! A single request above HARD_CAP is refused (null => the process aborts, as it
//! would on a machine that cannot satisfy it); before refusing, the allocator
//! prints a tagged line and a backtrace to stderr, from which the supervising
//! parent process derives the discriminator of the `<id>.abort` violation.

use std::{
  alloc::{GlobalAlloc, Layout, System},
  cell::Cell,
};

use rustdds::verif::hooks::{set_alloc_probe, AllocStats};

pub const HARD_CAP: usize = 1 << 30; // 1 GiB in one request

thread_local! {
  static LIVE: Cell<isize> = const { Cell::new(0) };
  static PEAK: Cell<isize> = const { Cell::new(0) };
  static REPORTING: Cell<bool> = const { Cell::new(false) };
}

pub struct Counting;

#[inline]
fn add(n: isize) {
  let _ = LIVE.try_with(|l| {
    let v = l.get() + n;
    l.set(v);
    let _ = PEAK.try_with(|p| {
      if v > p.get() {
        p.set(v);
      }
    });
  });
}

#[cold]
fn refuse(size: usize) {
  let already = REPORTING.try_with(|r| r.replace(true)).unwrap_or(true);
  if !already {
    eprintln!("VERIF-OVERSIZE-ALLOC size={size}");
    eprintln!("{}", std::backtrace::Backtrace::force_capture());
  }
}

unsafe impl GlobalAlloc for Counting {
  unsafe fn alloc(&self, layout: Layout) -> *mut u8 {
    if layout.size() > HARD_CAP {
      refuse(layout.size());
      return std::ptr::null_mut();
    }
    let p = System.alloc(layout);
    if !p.is_null() {
      add(layout.size() as isize);
    }
    p
  }
  unsafe fn dealloc(&self, ptr: *mut u8, layout: Layout) {
    System.dealloc(ptr, layout);
    add(-(layout.size() as isize));
  }
  unsafe fn alloc_zeroed(&self, layout: Layout) -> *mut u8 {
    if layout.size() > HARD_CAP {
      refuse(layout.size());
      return std::ptr::null_mut();
    }
    let p = System.alloc_zeroed(layout);
    if !p.is_null() {
      add(layout.size() as isize);
    }
    p
  }
  unsafe fn realloc(&self, ptr: *mut u8, layout: Layout, new_size: usize) -> *mut u8 {
    if new_size > HARD_CAP {
      refuse(new_size);
      return std::ptr::null_mut();
    }
    let p = System.realloc(ptr, layout, new_size);
    if !p.is_null() {
      add(new_size as isize - layout.size() as isize);
    }
    p
  }
}

#[global_allocator]
static GLOBAL: Counting = Counting;

fn read() -> AllocStats {
  AllocStats {
    live: LIVE.with(|l| l.get()).max(0) as usize,
    peak: PEAK.with(|p| p.get()).max(0) as usize,
  }
}

fn reset_peak() {
  let v = LIVE.with(|l| l.get());
  PEAK.with(|p| p.set(v));
}

pub fn install_probe() {
  set_alloc_probe(read, reset_peak);
}

//! In-flight record: before each case the worker writes (scenario, input) to its
//! slot of a file, so that the supervising parent can recover the input of a
//! case that killed the process (abort on allocation failure, stack overflow,
//! double panic, SIGKILL by the OOM killer).

use std::{
  fs::{File, OpenOptions},
  os::unix::fs::FileExt,
  path::Path,
  sync::OnceLock,
};

pub const SLOT: u64 = 128 * 1024;
pub const SLOTS: usize = 20;

static FILE: OnceLock<Option<File>> = OnceLock::new();

pub fn init(path: Option<&str>) {
  let f = path.and_then(|p| {
    OpenOptions::new()
      .create(true)
      .write(true)
      .truncate(true)
      .open(p)
      .ok()
  });
  let _ = FILE.set(f);
}

pub fn begin(slot: usize, scenario: u32, input: &[u8]) {
  if let Some(Some(f)) = FILE.get() {
    let n = input.len().min(SLOT as usize - 16);
    let mut buf = Vec::with_capacity(12 + n);
    buf.extend_from_slice(&1u32.to_le_bytes());
    buf.extend_from_slice(&scenario.to_le_bytes());
    buf.extend_from_slice(&(n as u32).to_le_bytes());
    buf.extend_from_slice(&input[..n]);
    let _ = f.write_at(&buf, slot as u64 * SLOT);
  }
}

pub fn end(slot: usize) {
  if let Some(Some(f)) = FILE.get() {
    let _ = f.write_at(&0u32.to_le_bytes(), slot as u64 * SLOT);
  }
}

/// parent side: the cases that were running when the child died
pub fn read_running(path: &Path) -> Vec<(u32, Vec<u8>)> {
  let mut out = Vec::new();
  let Ok(f) = File::open(path) else {
    return out;
  };
  for slot in 0..SLOTS {
    let mut hdr = [0u8; 12];
    if f.read_exact_at(&mut hdr, slot as u64 * SLOT).is_err() {
      continue;
    }
    let state = u32::from_le_bytes([hdr[0], hdr[1], hdr[2], hdr[3]]);
    let scenario = u32::from_le_bytes([hdr[4], hdr[5], hdr[6], hdr[7]]);
    let n = u32::from_le_bytes([hdr[8], hdr[9], hdr[10], hdr[11]]) as usize;
    if state != 1 || n > SLOT as usize {
      continue;
    }
    let mut buf = vec![0u8; n];
    if f.read_exact_at(&mut buf, slot as u64 * SLOT + 12).is_ok() {
      out.push((scenario, buf));
    }
  }
  out
}

//! Engine: seeded generation of choice streams (proptest runner), case loop,
//! panic / allocation / tick / watchdog monitors, shrinking, replay,
//! known-findings matching, evidence JSON, VIOLATION / KNOWN-FINDING lines.
//!
//! usage: vp <PROPERTY-ID> [quick|thorough] [--replay <file>] [--scenario <n>] [--scale <f>]
//! exit codes: 0 held, 1 violation (VIOLATION line printed), 2 harness error / hang.
//!
//! The process started by the user is a *supervisor*: it runs the campaign in a
//! child process (`--child`), so that inputs which kill the process outright
//! (allocation failure abort, stack overflow) are recovered from the in-flight
//! record, reproduced in isolation, shrunk and reported like any other
//! violation.

mod alloc;
mod engine;
mod findings;
mod inflight;
mod monitor;
mod shrink;
mod supervisor;

use std::{env, path::PathBuf, process::exit};

pub struct Args {
  pub id: String,
  pub tier: String,
  pub replay: Option<PathBuf>,
  pub only_scenario: Option<u32>,
  pub scale: f64,
  pub list: bool,
  pub child: bool,
  pub raw: Option<(u32, PathBuf)>,
  pub seed: u64,
  pub root: PathBuf,
}

fn parse_args() -> Args {
  let args: Vec<String> = env::args().collect();
  if args.len() < 2 {
    eprintln!("usage: vp <PROPERTY-ID> [quick|thorough] [--replay <file>] [--scenario <n>] [--scale <f>]");
    exit(2);
  }
  let mut a = Args {
    id: String::new(),
    tier: env::var("VERIF_TIER").unwrap_or_else(|_| "quick".to_string()),
    replay: None,
    only_scenario: None,
    scale: 1.0,
    list: false,
    child: false,
    raw: None,
    seed: env::var("VERIF_SEED")
      .ok()
      .and_then(|s| s.trim().parse::<i128>().ok())
      .map(|v| v as u64)
      .unwrap_or(20260925),
    root: PathBuf::from(env::var("VERIF_ROOT").unwrap_or_else(|_| "/verif".to_string())),
  };
  let mut i = 1;
  while i < args.len() {
    match args[i].as_str() {
      "quick" | "thorough" => a.tier = args[i].clone(),
      "--replay" => {
        i += 1;
        a.replay = Some(PathBuf::from(&args[i]));
      }
      "--scenario" => {
        i += 1;
        a.only_scenario = Some(args[i].parse().expect("scenario number"));
      }
      "--scale" => {
        i += 1;
        a.scale = args[i].parse().expect("scale factor");
      }
      "--raw" => {
        a.raw = Some((args[i + 1].parse().expect("scenario"), PathBuf::from(&args[i + 2])));
        i += 2;
      }
      "--list" => a.list = true,
      "--child" => a.child = true,
      s if a.id.is_empty() => a.id = s.to_string(),
      s => {
        eprintln!("unexpected argument {s}");
        exit(2);
      }
    }
    i += 1;
  }
  if a.tier != "quick" && a.tier != "thorough" {
    eprintln!("unknown tier {}", a.tier);
    exit(2);
  }
  a
}

fn main() {
  let a = parse_args();
  if a.list {
    for p in rustdds::verif::registry() {
      println!("{}", p.id);
      for s in p.scenarios {
        println!("  scenario {} {} quick={} thorough={}", s.id, s.name, s.quick, s.thorough);
      }
    }
    exit(0);
  }
  let registry = rustdds::verif::registry();
  let Some(prop) = registry.into_iter().find(|p| p.id == a.id) else {
    eprintln!("property {} is not built into this harness binary (wrong feature set?)", a.id);
    exit(2);
  };

  if !a.child && a.raw.is_none() {
    exit(supervisor::supervise(&prop, &a));
  }

  if a.child {
    // a campaign child must not outlive its supervisor (an outer `timeout` kills only the
    // supervisor, and a case that never returns would keep this process spinning for ever)
    let parent = std::os::unix::process::parent_id();
    std::thread::spawn(move || loop {
      std::thread::sleep(std::time::Duration::from_secs(2));
      if std::os::unix::process::parent_id() != parent {
        eprintln!("HARNESS-ERROR: supervisor is gone; child exits");
        std::process::exit(2);
      }
    });
  }
  alloc::install_probe();
  monitor::install_panic_hook();
  inflight::init(env::var("VERIF_INFLIGHT").ok().as_deref());

  let cfg = engine::RunConfig {
    root: a.root.clone(),
    tier: a.tier.clone(),
    seed: a.seed,
    only_scenario: a.only_scenario,
    scale: a.scale,
  };
  if let Some((scenario, path)) = &a.raw {
    exit(engine::raw(&prop, *scenario, path));
  }
  let code = match &a.replay {
    Some(path) => engine::replay(&prop, &cfg, path),
    None => engine::run_property(&prop, &cfg),
  };
  exit(code);
}

//! Engine: seeded generation of choice streams (proptest runner), case loop,
//! panic / allocation / tick / watchdog monitors, shrinking, replay,
//! known-findings matching, evidence JSON, VIOLATION / KNOWN-FINDING lines.
//!
//! usage: vp <PROPERTY-ID> [quick|thorough] [--replay <file>] [--scenario <n>] [--scale <f>]
//! exit codes: 0 held, 1 violation (VIOLATION line printed), 2 harness error / hang.

mod alloc;
mod engine;
mod findings;
mod monitor;
mod shrink;

use std::{env, path::PathBuf, process::exit};

fn main() {
  let args: Vec<String> = env::args().collect();
  if args.len() < 2 {
    eprintln!("usage: vp <PROPERTY-ID> [quick|thorough] [--replay <file>] [--scenario <n>] [--scale <f>]");
    exit(2);
  }
  let mut id = String::new();
  let mut tier = env::var("VERIF_TIER").unwrap_or_else(|_| "quick".to_string());
  let mut replay: Option<PathBuf> = None;
  let mut only_scenario: Option<u32> = None;
  let mut scale: f64 = 1.0;
  let mut list = false;
  let mut i = 1;
  while i < args.len() {
    match args[i].as_str() {
      "quick" | "thorough" => tier = args[i].clone(),
      "--replay" => {
        i += 1;
        replay = Some(PathBuf::from(&args[i]));
      }
      "--scenario" => {
        i += 1;
        only_scenario = Some(args[i].parse().expect("scenario number"));
      }
      "--scale" => {
        i += 1;
        scale = args[i].parse().expect("scale factor");
      }
      "--list" => list = true,
      s if id.is_empty() => id = s.to_string(),
      s => {
        eprintln!("unexpected argument {s}");
        exit(2);
      }
    }
    i += 1;
  }
  if tier != "quick" && tier != "thorough" {
    eprintln!("unknown tier {tier}");
    exit(2);
  }
  let seed: u64 = env::var("VERIF_SEED")
    .ok()
    .and_then(|s| s.trim().parse::<i128>().ok())
    .map(|v| v as u64)
    .unwrap_or(20260925);
  let root = PathBuf::from(env::var("VERIF_ROOT").unwrap_or_else(|_| "/verif".to_string()));

  alloc::install_probe();
  monitor::install_panic_hook();

  if list {
    for p in rustdds::verif::registry() {
      println!("{}", p.id);
      for s in p.scenarios {
        println!("  scenario {} {} quick={} thorough={}", s.id, s.name, s.quick, s.thorough);
      }
    }
    exit(0);
  }

  let registry = rustdds::verif::registry();
  let Some(prop) = registry.into_iter().find(|p| p.id == id) else {
    eprintln!("property {id} is not built into this harness binary (wrong feature set?)");
    exit(2);
  };

  let cfg = engine::RunConfig {
    root,
    tier,
    seed,
    only_scenario,
    scale,
  };
  let code = match replay {
    Some(path) => engine::replay(&prop, &cfg, &path),
    None => engine::run_property(&prop, &cfg),
  };
  exit(code);
}

use std::{
  collections::{BTreeMap, BTreeSet, HashSet},
  fs,
  panic::{self, AssertUnwindSafe},
  path::{Path, PathBuf},
  sync::{
    atomic::{AtomicBool, AtomicU64, Ordering},
    Arc, Mutex,
  },
  thread,
  time::{Duration, Instant},
};

use proptest::{
  collection::vec,
  prelude::*,
  test_runner::{Config, RngSeed, TestCaseError, TestError, TestRunner},
};
use rustdds::verif::{hex, hooks, Outcome, Property, Scenario, Verdict};
use serde_json::{json, Value};

use crate::{
  findings::{self, Known},
  monitor::{self, Slots},
  shrink,
};

pub struct RunConfig {
  pub root: PathBuf,
  pub tier: String,
  pub seed: u64,
  pub only_scenario: Option<u32>,
  pub scale: f64,
}

const WATCHDOG: Duration = Duration::from_secs(120);
/// wall-clock bound per shrinking stage
const SHRINK_WALL_S: u64 = 150;

#[derive(Default)]
struct Stats {
  evaluations: u64,
  nontrivial: u64,
  distinct_nontrivial: HashSet<u64>,
  distinct_all: HashSet<u64>,
  discards: u64,
  excluded: u64,
  labels: BTreeMap<&'static str, u64>,
  /// label -> one sample
  label_samples: BTreeMap<&'static str, String>,
  largest: Option<(usize, String)>,
  first_samples: Vec<String>,
  known_hits: BTreeMap<String, u64>,
}

impl Stats {
  fn absorb(&mut self, o: &Outcome, input_len: usize) {
    self.evaluations += 1;
    self.excluded += u64::from(o.excluded);
    if let Verdict::Discard(_) = o.verdict {
      self.discards += 1;
      return;
    }
    self.distinct_all.insert(o.digest);
    if o.nontrivial {
      self.nontrivial += 1;
      self.distinct_nontrivial.insert(o.digest);
    }
    for l in &o.labels {
      *self.labels.entry(l).or_insert(0) += 1;
      if o.nontrivial && !self.label_samples.contains_key(l) && self.label_samples.len() < 64 {
        self.label_samples.insert(l, clip(&o.sample, 1200));
      }
    }
    if o.nontrivial {
      if self.first_samples.len() < 3 {
        self.first_samples.push(clip(&o.sample, 1200));
      }
      if self.largest.as_ref().map_or(true, |(n, _)| input_len > *n) {
        self.largest = Some((input_len, clip(&o.sample, 2000)));
      }
    }
  }
  fn merge(&mut self, other: Stats) {
    self.evaluations += other.evaluations;
    self.nontrivial += other.nontrivial;
    self.distinct_nontrivial.extend(other.distinct_nontrivial);
    self.distinct_all.extend(other.distinct_all);
    self.discards += other.discards;
    self.excluded += other.excluded;
    for (k, v) in other.labels {
      *self.labels.entry(k).or_insert(0) += v;
    }
    for (k, v) in other.label_samples {
      self.label_samples.entry(k).or_insert(v);
    }
    if let Some((n, s)) = other.largest {
      if self.largest.as_ref().map_or(true, |(m, _)| n > *m) {
        self.largest = Some((n, s));
      }
    }
    for s in other.first_samples {
      if self.first_samples.len() < 3 {
        self.first_samples.push(s);
      }
    }
    for (k, v) in other.known_hits {
      *self.known_hits.entry(k).or_insert(0) += v;
    }
  }
}

fn clip(s: &str, n: usize) -> String {
  if s.len() <= n {
    s.to_string()
  } else {
    let mut end = n;
    while !s.is_char_boundary(end) {
      end -= 1;
    }
    format!("{}…[{} bytes more]", &s[..end], s.len() - end)
  }
}

/// Result of executing one case under the monitors.
pub struct CaseResult {
  pub outcome: Outcome,
  /// harness bug (panic inside driver code)
  pub harness_error: Option<String>,
}

pub fn signature(o: &Outcome) -> Option<String> {
  match &o.verdict {
    Verdict::Violation { clause, key, .. } => Some(format!("{clause}|{key}")),
    _ => None,
  }
}

pub fn clause_of(o: &Outcome) -> Option<String> {
  match &o.verdict {
    Verdict::Violation { clause, .. } => Some(clause.clone()),
    _ => None,
  }
}

/// Run one case with panic capture. A panic inside RustDDS is a violation of the
/// property under test (clause `<id>.panic`, or `<id>.tick-budget`).
pub fn exec_case(prop: &Property, scenario: u32, input: &[u8], strict: bool) -> CaseResult {
  monitor::set_in_case(true);
  let _ = monitor::take_panic();
  let run = prop.run;
  let r = panic::catch_unwind(AssertUnwindSafe(|| run(scenario, input, strict)));
  monitor::set_in_case(false);
  hooks::tick_disarm();
  match r {
    Ok(outcome) => {
      let _ = monitor::take_panic(); // panics caught inside the driver itself
      CaseResult {
        outcome,
        harness_error: None,
      }
    }
    Err(_) => {
      // make sure thread-local rig state cannot leak into the next case
      hooks::capture_stop();
      hooks::clock_stop();
      hooks::instant_stop();
      hooks::yield_uninstall();
      let rec = monitor::take_panic();
      let mut o = Outcome::new();
      o.sample = format!("scenario={scenario} choices={}", hex(input));
      o.digest = rustdds::verif::fnv(input);
      match rec {
        Some(rec) if rec.in_driver => CaseResult {
          outcome: o,
          harness_error: Some(format!(
            "panic inside driver code at {}:{}: {}",
            rec.file, rec.line, rec.message
          )),
        },
        Some(rec) => {
          let id = prop.id.to_lowercase();
          let clause = if rec.message.contains(hooks::TICK_PANIC_TAG) {
            format!("{id}.tick-budget")
          } else {
            format!("{id}.panic")
          };
          o.nontrivial = true;
          // key of a panic: where (first rustdds function on the stack) and what (the message
          // without its numbers), so that another kind of panic in the same function is not
          // taken for a listed known finding
          let key = if clause.ends_with(".tick-budget") {
            rec.frame.clone()
          } else {
            let kind: String = rec
              .message
              .chars()
              .filter(|ch| ch.is_ascii_alphabetic() || *ch == ' ')
              .collect::<String>()
              .split_whitespace()
              .take(7)
              .collect::<Vec<_>>()
              .join("_")
              .to_lowercase();
            format!("{}#{}", rec.frame, kind)
          };
          o.violate(
            &clause,
            &key,
            format!(
              "panic at {}:{} in {}: {}; stack: {}",
              rec.file,
              rec.line,
              rec.frame,
              rec.message,
              rec.rustdds_frames.join(" <- ")
            ),
          );
          CaseResult {
            outcome: o,
            harness_error: None,
          }
        }
        None => CaseResult {
          outcome: o,
          harness_error: Some("panic without record".to_string()),
        },
      }
    }
  }
}

fn splitmix(mut x: u64) -> u64 {
  x = x.wrapping_add(0x9e3779b97f4a7c15);
  x = (x ^ (x >> 30)).wrapping_mul(0xbf58476d1ce4e5b9);
  x = (x ^ (x >> 27)).wrapping_mul(0x94d049bb133111eb);
  x ^ (x >> 31)
}

struct Failure {
  scenario: u32,
  input: Vec<u8>,
  outcome: Outcome,
}

struct Shared {
  stop: AtomicBool,
  failure: Mutex<Option<Failure>>,
  harness_error: Mutex<Option<String>>,
  known_printed: Mutex<BTreeSet<String>>,
  evaluations: AtomicU64,
}

fn print_known(shared: &Shared, prop: &Property, k: &Known) {
  let mut p = shared.known_printed.lock().unwrap();
  if p.insert(k.sig.clone()) {
    println!("KNOWN-FINDING: property={} {}", prop.id, k.what);
  }
}

fn run_scenario(
  prop: &Property,
  sc: &Scenario,
  cases: u64,
  cfg: &RunConfig,
  known: &[Known],
  shared: &Arc<Shared>,
  slots: &Slots,
) -> Stats {
  let hw = thread::available_parallelism().map(|n| n.get()).unwrap_or(4).min(16);
  let mut nthreads = if sc.max_threads == 0 { hw } else { sc.max_threads.min(hw) };
  if (cases as usize) < nthreads * 4 {
    nthreads = ((cases as usize) / 4).max(1);
  }
  let per = cases / nthreads as u64;
  let extra = cases % nthreads as u64;
  let mut total = Stats::default();
  thread::scope(|s| {
    let mut handles = Vec::new();
    for shard in 0..nthreads {
      let n = per + u64::from((shard as u64) < extra);
      if n == 0 {
        continue;
      }
      let shared = Arc::clone(shared);
      let slots = Arc::clone(slots);
      let seed = splitmix(cfg.seed ^ (u64::from(sc.id) << 40) ^ ((shard as u64) << 20) ^ 0x5eed);
      handles.push(s.spawn(move || {
        let stats = Mutex::new(Stats::default());
        let failed_here = AtomicBool::new(false);
        // shrinking is bounded by wall time as well (slow, live scenarios): after the
        // deadline every candidate counts as passing, so the reduction stops
        let shrink_deadline: Mutex<Option<Instant>> = Mutex::new(None);
        let mut config = Config::default();
        config.cases = n as u32;
        config.failure_persistence = None;
        config.rng_seed = RngSeed::Fixed(seed);
        config.max_shrink_iters = 4096;
        config.max_global_rejects = 1_000_000;
        config.verbose = 0;
        config.source_file = None;
        let mut runner = TestRunner::new(config);
        let max_len = sc.max_len;
        let strategy = prop_oneof![
          1 => vec(any::<u8>(), 0..=(max_len / 4).max(1)),
          4 => vec(any::<u8>(), 0..=max_len),
        ];
        let result = runner.run(&strategy, |input: Vec<u8>| {
          if shared.stop.load(Ordering::Relaxed) && !failed_here.load(Ordering::Relaxed) {
            return Ok(());
          }
          if let Some(d) = *shrink_deadline.lock().unwrap() {
            if Instant::now() > d {
              return Ok(());
            }
          }
          {
            let mut slot = slots[shard].lock().unwrap();
            slot.started = Some(Instant::now());
            slot.scenario = sc.id;
            slot.input = input.clone();
          }
          crate::inflight::begin(shard, sc.id, &input);
          let r = exec_case(prop, sc.id, &input, false);
          crate::inflight::end(shard);
          slots[shard].lock().unwrap().started = None;
          if let Some(e) = r.harness_error {
            let mut he = shared.harness_error.lock().unwrap();
            if he.is_none() {
              *he = Some(format!(
                "{e}\n  scenario={} choices={}",
                sc.id,
                hex(&input)
              ));
            }
            shared.stop.store(true, Ordering::Relaxed);
            return Ok(());
          }
          let shrinking = failed_here.load(Ordering::Relaxed);
          if !shrinking {
            stats.lock().unwrap().absorb(&r.outcome, input.len());
            shared.evaluations.fetch_add(1, Ordering::Relaxed);
          }
          if let Some(sig) = signature(&r.outcome) {
            if let Some(k) = known.iter().find(|k| k.sig == sig) {
              // listed finding: report once, keep searching behind it
              if !shrinking {
                print_known(&shared, prop, k);
                *stats
                  .lock()
                  .unwrap()
                  .known_hits
                  .entry(sig.clone())
                  .or_insert(0) += 1;
              }
              return Ok(());
            }
            failed_here.store(true, Ordering::Relaxed);
            shared.stop.store(true, Ordering::Relaxed);
            shrink_deadline
              .lock()
              .unwrap()
              .get_or_insert_with(|| Instant::now() + Duration::from_secs(SHRINK_WALL_S));
            return Err(TestCaseError::fail(sig));
          }
          Ok(())
        });
        if let Err(TestError::Fail(_, minimal)) = result {
          // re-run the minimal input to get its outcome
          let r = exec_case(prop, sc.id, &minimal, false);
          let mut f = shared.failure.lock().unwrap();
          if f.is_none() && r.outcome.is_violation() {
            *f = Some(Failure {
              scenario: sc.id,
              input: minimal,
              outcome: r.outcome,
            });
          }
        } else if let Err(TestError::Abort(reason)) = result {
          let mut he = shared.harness_error.lock().unwrap();
          if he.is_none() {
            *he = Some(format!("proptest aborted: {reason}"));
          }
        }
        stats.into_inner().unwrap()
      }));
    }
    for h in handles {
      match h.join() {
        Ok(st) => total.merge(st),
        Err(_) => {
          let mut he = shared.harness_error.lock().unwrap();
          if he.is_none() {
            *he = Some("engine worker thread panicked".to_string());
          }
        }
      }
    }
  });
  total
}

fn write_replay(
  cfg: &RunConfig,
  prop: &Property,
  scenario: u32,
  input: &[u8],
  o: &Outcome,
  subdir: &str,
) -> PathBuf {
  let (clause, key, detail) = match &o.verdict {
    Verdict::Violation {
      clause,
      key,
      detail,
    } => (clause.clone(), key.clone(), detail.clone()),
    _ => (String::new(), String::new(), String::new()),
  };
  let dir = cfg.root.join("replays").join(prop.id).join(subdir);
  let _ = fs::create_dir_all(&dir);
  let digest = rustdds::verif::fnv(input) ^ u64::from(scenario);
  let fname = format!(
    "{}-{:016x}.json",
    clause.replace(|c: char| !c.is_ascii_alphanumeric() && c != '.' && c != '-', "_"),
    digest
  );
  let path = dir.join(fname);
  let v = json!({
    "property": prop.id,
    "scenario": scenario,
    "choices_hex": hex(input),
    "seed": cfg.seed,
    "tier": cfg.tier,
    "clause": clause,
    "key": key,
    "signature": format!("{clause}|{key}"),
    "detail": clip(&detail, 4000),
    "case": clip(&o.sample, 8000),
  });
  let _ = fs::write(&path, serde_json::to_string_pretty(&v).unwrap());
  path
}

pub fn read_replay(path: &Path) -> Result<(String, u32, Vec<u8>, String), String> {
  let text = fs::read_to_string(path).map_err(|e| format!("{}: {e}", path.display()))?;
  let v: Value = serde_json::from_str(&text).map_err(|e| format!("{}: {e}", path.display()))?;
  let prop = v["property"].as_str().unwrap_or("").to_string();
  let scenario = v["scenario"].as_u64().unwrap_or(0) as u32;
  let hexs = v["choices_hex"].as_str().unwrap_or("");
  let sig = v["signature"].as_str().unwrap_or("").to_string();
  let mut bytes = Vec::with_capacity(hexs.len() / 2);
  let hb = hexs.as_bytes();
  let mut i = 0;
  while i + 1 < hb.len() {
    let s = std::str::from_utf8(&hb[i..i + 2]).unwrap();
    bytes.push(u8::from_str_radix(s, 16).map_err(|e| format!("bad hex: {e}"))?);
    i += 2;
  }
  Ok((prop, scenario, bytes, sig))
}

/// `--raw <scenario> <file>`: run one case from a raw input file (used by the supervisor)
pub fn raw(prop: &Property, scenario: u32, path: &Path) -> i32 {
  for e in std::env::var("VERIF_EXCL").unwrap_or_default().split(',') {
    if !e.is_empty() {
      hooks::exclusion_enable(e);
    }
  }
  let Ok(bytes) = fs::read(path) else {
    eprintln!("cannot read {}", path.display());
    return 2;
  };
  let r = exec_case(prop, scenario, &bytes, true);
  if let Some(e) = r.harness_error {
    eprintln!("HARNESS-ERROR: {e}");
    return 2;
  }
  match signature(&r.outcome) {
    Some(sig) => {
      println!("signature: {sig}");
      1
    }
    None => 0,
  }
}

pub fn replay(prop: &Property, cfg: &RunConfig, path: &Path) -> i32 {
  let (pid, scenario, bytes, _sig) = match read_replay(path) {
    Ok(x) => x,
    Err(e) => {
      eprintln!("cannot read replay: {e}");
      return 2;
    }
  };
  if pid != prop.id {
    eprintln!("replay file is for property {pid}, not {}", prop.id);
    return 2;
  }
  let r = exec_case(prop, scenario, &bytes, true);
  if let Some(e) = r.harness_error {
    eprintln!("HARNESS-ERROR: {e}");
    return 2;
  }
  println!("case: {}", r.outcome.sample);
  match &r.outcome.verdict {
    Verdict::Violation {
      clause,
      key,
      detail,
    } => {
      println!("clause: {clause}\nkey: {key}\ndetail: {detail}");
      let known = findings::load(&cfg.root, prop.id);
      let sig = format!("{clause}|{key}");
      if let Some(k) = known.iter().find(|k| k.sig == sig) {
        println!("KNOWN-FINDING: property={} {}", prop.id, k.what);
        return 0;
      }
      println!("VIOLATION property={} replay={}", prop.id, path.display());
      1
    }
    Verdict::Discard(r) => {
      println!("discarded: {r}");
      0
    }
    Verdict::Pass => {
      println!("pass");
      0
    }
  }
}

pub fn run_property(prop: &Property, cfg: &RunConfig) -> i32 {
  let t0 = Instant::now();
  let thorough = cfg.tier == "thorough";
  let all_known = findings::load(&cfg.root, prop.id);
  let shared = Arc::new(Shared {
    stop: AtomicBool::new(false),
    failure: Mutex::new(None),
    harness_error: Mutex::new(None),
    known_printed: Mutex::new(BTreeSet::new()),
    evaluations: AtomicU64::new(0),
  });
  let slots = monitor::new_slots(16);

  // watchdog thread
  {
    let slots = Arc::clone(&slots);
    let root = cfg.root.clone();
    let pid = prop.id.to_string();
    thread::spawn(move || loop {
      thread::sleep(Duration::from_secs(2));
      if let Some((scenario, input)) = monitor::find_hung(&slots, WATCHDOG) {
        let dir = root.join("replays").join(&pid);
        let _ = fs::create_dir_all(&dir);
        let path = dir.join(format!("hang-{:016x}.inflight", rustdds::verif::fnv(&input)));
        let v = json!({"property": pid, "scenario": scenario, "choices_hex": hex(&input),
                       "signature": "watchdog", "clause": "watchdog"});
        let _ = fs::write(&path, serde_json::to_string_pretty(&v).unwrap());
        eprintln!(
          "HARNESS-ERROR: watchdog: a case ran longer than {WATCHDOG:?}; input saved to {} (reported as inconclusive, not as a violation)",
          path.display()
        );
        std::process::exit(2);
      }
    });
  }

  if let Ok(p) = std::env::var("VERIF_KNOWN_PRINTED") {
    let mut kp = shared.known_printed.lock().unwrap();
    for s in p.split('\x1f') {
      if !s.is_empty() {
        kp.insert(s.to_string());
      }
    }
  }
  let abort_prefix = format!("{}.abort|", prop.id.to_lowercase());
  // Known findings and regression inputs are replayed with all generator
  // exclusions OFF (their choice streams were saved that way); exclusions are
  // switched on only for the generated campaign.
  let env_exclusions: Vec<String> = std::env::var("VERIF_EXCL")
    .unwrap_or_default()
    .split(',')
    .filter(|e| !e.is_empty())
    .map(str::to_string)
    .collect();
  hooks::exclusion_clear();
  let mut pending_exclusions: Vec<String> = env_exclusions;
  let mut known_status: Vec<Value> = Vec::new();
  let mut active_known: Vec<Known> = Vec::new();
  let mut regress_ran = 0u64;

  // Stage 1: listed known findings — does each still reproduce from its saved input?
  for k in &all_known {
    let mut reproduced = false;
    let mut note = String::new();
    if k.sig.starts_with(&abort_prefix) {
      // process-killing finding: reproduced (or not) by the supervisor in its own process
      reproduced = shared.known_printed.lock().unwrap().contains(&k.sig);
      note = "process-killing input, replayed by the supervisor".to_string();
    } else if let Some(rp) = &k.replay {
      match read_replay(&cfg.root.join(rp)) {
        Ok((_, scenario, bytes, _)) => {
          let r = exec_case(prop, scenario, &bytes, true);
          if let Some(e) = r.harness_error {
            eprintln!("HARNESS-ERROR: {e}");
            return 2;
          }
          match signature(&r.outcome) {
            Some(sig) if sig == k.sig => reproduced = true,
            Some(sig) => {
              // saved input fails differently now: that is a *different* violation
              let path = write_replay(cfg, prop, scenario, &bytes, &r.outcome, "found");
              if !all_known.iter().any(|k2| k2.sig == sig) {
                println!("case: {}", clip(&r.outcome.sample, 3000));
                println!("signature: {sig}");
                println!("VIOLATION property={} replay={}", prop.id, path.display());
                return finish(prop, cfg, &shared, Stats::default(), Vec::new(), known_status, t0, 1, regress_ran);
              }
              note = format!("saved input now fails with listed signature {sig}");
            }
            None => note = "saved input no longer fails".to_string(),
          }
        }
        Err(e) => note = format!("replay unreadable: {e}"),
      }
    } else {
      note = "no saved input".to_string();
    }
    if reproduced {
      print_known(&shared, prop, k);
      if let Some(ex) = &k.excl {
        pending_exclusions.push(ex.clone());
      }
    }
    // The signature stays listed either way: a listed finding is never a VIOLATION.
    active_known.push(k.clone());
    known_status.push(json!({"signature": k.sig, "what": k.what, "reproduced_from_saved_input": reproduced,
                             "exclusion": k.excl, "note": note}));
  }

  // Stage 1b: regression inputs (shrunk failures of fixed defects and of seeded changes)
  let regress_dir = cfg.root.join("replays").join(prop.id).join("regress");
  if let Ok(rd) = fs::read_dir(&regress_dir) {
    let mut files: Vec<PathBuf> = rd.filter_map(|e| e.ok().map(|e| e.path())).collect();
    files.sort();
    for f in files {
      if f.extension().and_then(|e| e.to_str()) != Some("json") {
        continue;
      }
      if f
        .file_name()
        .and_then(|n| n.to_str())
        .map_or(false, |n| n.starts_with(abort_prefix.trim_end_matches('|')))
      {
        continue; // process-killing inputs are replayed by the supervisor
      }
      let Ok((pid, scenario, bytes, _)) = read_replay(&f) else {
        continue;
      };
      if pid != prop.id {
        continue;
      }
      let r = exec_case(prop, scenario, &bytes, true);
      regress_ran += 1;
      // a replay file holds choice bytes: if the generator has changed since it was written,
      // it may decode to another case and no longer guard what it was kept for
      if let Ok(text) = fs::read_to_string(&f) {
        if let Ok(v) = serde_json::from_str::<Value>(&text) {
          let stored: String = v["case"].as_str().unwrap_or("").chars().take(60).collect();
          let now: String = r.outcome.sample.chars().take(60).collect();
          if stored.len() == 60 && now.len() == 60 && stored != now && !stored.contains("Instant {") {
            eprintln!("note: regression input {} now decodes to another case than the one it was saved for (generator changed?)", f.display());
          }
        }
      }
      if let Some(e) = r.harness_error {
        eprintln!("HARNESS-ERROR: {e} (regression input {})", f.display());
        return 2;
      }
      if let Some(sig) = signature(&r.outcome) {
        if let Some(k) = active_known.iter().find(|k| k.sig == sig) {
          print_known(&shared, prop, k);
          continue;
        }
        println!("case: {}", clip(&r.outcome.sample, 3000));
        if let Verdict::Violation { detail, .. } = &r.outcome.verdict {
          println!("detail: {}", clip(detail, 3000));
        }
        println!("signature: {sig}");
        println!("VIOLATION property={} replay={}", prop.id, f.display());
        return finish(prop, cfg, &shared, Stats::default(), Vec::new(), known_status, t0, 1, regress_ran);
      }
    }
  }

  for ex in &pending_exclusions {
    hooks::exclusion_enable(ex);
  }

  // Stage 2: exhaustive enumeration, if the property has one
  let mut exhaustive_reports: Vec<Value> = Vec::new();
  let mut total = Stats::default();
  if let (Some(ex), None) = (prop.exhaustive, cfg.only_scenario) {
    monitor::set_in_case(true);
    let rep = panic::catch_unwind(AssertUnwindSafe(|| ex(thorough)));
    monitor::set_in_case(false);
    match rep {
      Ok(rep) => {
        exhaustive_reports.push(json!({"name": rep.name, "cases": rep.cases, "nontrivial": rep.nontrivial,
                                       "complete": rep.complete, "samples": rep.samples}));
        total.evaluations += rep.cases;
        if let Some((bytes, scenario, outcome)) = rep.violation {
          let sig = signature(&outcome).unwrap_or_default();
          if let Some(k) = active_known.iter().find(|k| k.sig == sig) {
            print_known(&shared, prop, k);
          } else {
            let path = write_replay(cfg, prop, scenario, &bytes, &outcome, "found");
            println!("case: {}", clip(&outcome.sample, 3000));
            if let Verdict::Violation { detail, .. } = &outcome.verdict {
              println!("detail: {}", clip(detail, 3000));
            }
            println!("signature: {sig}");
            println!("VIOLATION property={} replay={}", prop.id, path.display());
            return finish(prop, cfg, &shared, total, exhaustive_reports, known_status, t0, 1, regress_ran);
          }
        }
      }
      Err(_) => {
        let rec = monitor::take_panic();
        eprintln!("HARNESS-ERROR: exhaustive enumeration panicked: {rec:?}");
        return 2;
      }
    }
  }

  // Stage 3: generated cases per scenario
  let mut per_scenario: Vec<Value> = Vec::new();
  for sc in prop.scenarios {
    if let Some(only) = cfg.only_scenario {
      if only != sc.id {
        continue;
      }
    }
    let base = if thorough { sc.thorough } else { sc.quick };
    let cases = ((f64::from(base)) * cfg.scale).ceil() as u64;
    if cases == 0 {
      continue;
    }
    let ts = Instant::now();
    let st = run_scenario(prop, sc, cases, cfg, &active_known, &shared, &slots);
    per_scenario.push(json!({"scenario": sc.id, "name": sc.name, "evaluations": st.evaluations,
        "nontrivial": st.nontrivial, "distinct_nontrivial": st.distinct_nontrivial.len(),
        "discards": st.discards, "wall_s": ts.elapsed().as_secs_f64()}));
    total.merge(st);
    if shared.stop.load(Ordering::Relaxed) {
      break;
    }
  }
  exhaustive_reports.extend(per_scenario);

  if let Some(e) = shared.harness_error.lock().unwrap().clone() {
    eprintln!("HARNESS-ERROR: {e}");
    let _ = finish(prop, cfg, &shared, total, exhaustive_reports, known_status, t0, 2, regress_ran);
    return 2;
  }

  let failure = shared.failure.lock().unwrap().take();
  if let Some(f) = failure {
    // second-stage reduction, keeping the clause id fixed
    let clause = clause_of(&f.outcome).unwrap();
    let known_sigs: Vec<String> = active_known.iter().map(|k| k.sig.clone()).collect();
    let stage2_deadline = Instant::now() + Duration::from_secs(SHRINK_WALL_S);
    let reduced = shrink::reduce(
      &f.input,
      |cand| {
        if Instant::now() > stage2_deadline {
          return false;
        }
        let r = exec_case(prop, f.scenario, cand, false);
        r.harness_error.is_none()
          && clause_of(&r.outcome).as_deref() == Some(clause.as_str())
          && !known_sigs.contains(&signature(&r.outcome).unwrap_or_default())
      },
      2000,
    );
    let r = exec_case(prop, f.scenario, &reduced, true);
    let (input, outcome) = if r.outcome.is_violation() && r.harness_error.is_none() {
      (reduced, r.outcome)
    } else {
      (f.input, f.outcome)
    };
    let path = write_replay(cfg, prop, f.scenario, &input, &outcome, "found");
    println!("scenario: {}", f.scenario);
    println!("case: {}", clip(&outcome.sample, 4000));
    if let Verdict::Violation { clause, key, detail } = &outcome.verdict {
      println!("clause: {clause}\nkey: {key}\ndetail: {}", clip(detail, 4000));
    }
    println!("VIOLATION property={} replay={}", prop.id, path.display());
    return finish(prop, cfg, &shared, total, exhaustive_reports, known_status, t0, 1, regress_ran);
  }

  // vacuity guard
  if total.evaluations > 0 && total.discards * 5 > total.evaluations {
    eprintln!(
      "HARNESS-ERROR: {} of {} cases were discarded by the generator (> 20 %): the run is vacuous",
      total.discards, total.evaluations
    );
    let _ = finish(prop, cfg, &shared, total, exhaustive_reports, known_status, t0, 2, regress_ran);
    return 2;
  }
  finish(prop, cfg, &shared, total, exhaustive_reports, known_status, t0, 0, regress_ran)
}

#[allow(clippy::too_many_arguments)]
fn finish(
  prop: &Property,
  cfg: &RunConfig,
  shared: &Arc<Shared>,
  total: Stats,
  parts: Vec<Value>,
  known_status: Vec<Value>,
  t0: Instant,
  code: i32,
  regress_ran: u64,
) -> i32 {
  let mut samples: Vec<Value> = Vec::new();
  for s in &total.first_samples {
    samples.push(json!(s));
  }
  if let Some((n, s)) = &total.largest {
    samples.push(json!({"largest_choice_stream_bytes": n, "case": s}));
  }
  for (l, s) in total.label_samples.iter().take(12) {
    samples.push(json!({"label": l, "case": s}));
  }
  for p in &parts {
    if let Some(arr) = p.get("samples").and_then(|s| s.as_array()) {
      for s in arr.iter().take(3) {
        samples.push(s.clone());
      }
    }
  }
  if samples.is_empty() {
    samples.push(json!("no non-trivial case was generated in this run"));
  }
  let labels: BTreeMap<String, u64> = total
    .labels
    .iter()
    .map(|(k, v)| (k.to_string(), *v))
    .collect();
  let exhaustive_nontrivial: u64 = parts
    .iter()
    .filter(|p| p.get("complete").is_some())
    .map(|p| p["nontrivial"].as_u64().unwrap_or(0))
    .sum();
  let known_hits: BTreeMap<String, u64> = total.known_hits.clone();
  let ev = json!({
    "property_id": prop.id,
    "tier": cfg.tier,
    "seed": cfg.seed as i64,
    "level": prop.level,
    "coverage": {
      "evaluations": total.evaluations + regress_ran,
      "distinct_nontrivial": total.distinct_nontrivial.len() as u64 + exhaustive_nontrivial,
      "nontrivial_generated": total.nontrivial,
      "distinct_cases": total.distinct_all.len(),
      "rule": prop.rule,
      "samples": samples,
      "label_histogram": labels,
      "discarded": total.discards,
      "redirected_by_known_finding_exclusions": total.excluded,
      "parts": parts,
      "regression_inputs_replayed": regress_ran,
      "known_findings": known_status,
      "known_finding_hits_in_campaign": known_hits,
      "exhaustive": false,
    },
    "assumptions": prop.assumptions,
    "wall_s": t0.elapsed().as_secs_f64(),
    "violations": if code == 1 { 1 } else { 0 },
    "exit_code": code,
  });
  let dir = cfg.root.join("evidence");
  let _ = fs::create_dir_all(&dir);
  let path = dir.join(format!("{}.json", prop.id));
  if let Err(e) = fs::write(&path, serde_json::to_string_pretty(&ev).unwrap()) {
    eprintln!("HARNESS-ERROR: cannot write evidence {}: {e}", path.display());
    return 2;
  }
  let _ = shared;
  eprintln!(
    "{} {}: {} cases, {} distinct non-trivial, {} discarded, {:.1}s, exit {}",
    prop.id,
    cfg.tier,
    total.evaluations,
    total.distinct_nontrivial.len() as u64 + exhaustive_nontrivial,
    total.discards,
    t0.elapsed().as_secs_f64(),
    code
  );
  code
}

//! /verif/known_findings.txt — committed list of recorded / fixed genuine
//! defects. Never written at run time.
//!
//! Line formats (everything else / lines starting with '#' are comments):
//!   known: property=<id> sig=<clause>|<key> excl=<exclusion-switch> replay=<path-relative-to-/verif> what=<free text to end of line>
//!   fixed: property=<id> <commit> <what failed>
//! A `fixed` entry suppresses nothing.

use std::{fs, path::Path};

#[derive(Debug, Clone)]
pub struct Known {
  pub property: String,
  pub sig: String,
  pub excl: Option<String>,
  pub replay: Option<String>,
  pub what: String,
}

pub fn load(root: &Path, property: &str) -> Vec<Known> {
  let path = root.join("known_findings.txt");
  let Ok(text) = fs::read_to_string(&path) else {
    return Vec::new();
  };
  let mut out = Vec::new();
  for line in text.lines() {
    let line = line.trim();
    let Some(rest) = line.strip_prefix("known:") else {
      continue;
    };
    let (fields, what) = match rest.find(" what=") {
      Some(i) => (&rest[..i], rest[i + 6..].trim().to_string()),
      None => (rest, String::new()),
    };
    let mut k = Known {
      property: String::new(),
      sig: String::new(),
      excl: None,
      replay: None,
      what,
    };
    for tok in fields.split_whitespace() {
      if let Some(v) = tok.strip_prefix("property=") {
        k.property = v.to_string();
      } else if let Some(v) = tok.strip_prefix("sig=") {
        k.sig = v.to_string();
      } else if let Some(v) = tok.strip_prefix("excl=") {
        k.excl = Some(v.to_string());
      } else if let Some(v) = tok.strip_prefix("replay=") {
        k.replay = Some(v.to_string());
      }
    }
    if k.property == property && !k.sig.is_empty() {
      out.push(k);
    }
  }
  out
}

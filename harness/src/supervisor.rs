//! Parent process: runs the campaign in a child and turns process-killing inputs
//! into ordinary violations (clause `<id>.abort`).

use std::{
  env, fs,
  path::{Path, PathBuf},
  process::{Command, Stdio},
  time::Instant,
};

use rustdds::verif::{hex, Property};
use serde_json::json;

use crate::{engine, findings, inflight, shrink, Args};

struct RawResult {
  died: bool,
  key: String,
  stderr_tail: String,
}

fn classify(stderr: &str, status: &std::process::ExitStatus) -> String {
  if let Some(pos) = stderr.find("VERIF-OVERSIZE-ALLOC") {
    // first rustdds frame (not rustdds::verif) of the backtrace that follows
    for line in stderr[pos..].lines() {
      let l = line.trim();
      if let Some(p) = l.find(": ") {
        let name = &l[p + 2..];
        if (name.starts_with("rustdds::") || name.starts_with("<rustdds::"))
          && !name.contains("rustdds::verif::")
        {
          let name = match name.rfind("::h") {
            Some(i) if name.len() - i == 19 => &name[..i],
            _ => name,
          };
          return format!("oversize-alloc:{}", name.replace(' ', "_"));
        }
      }
    }
    return "oversize-alloc:unknown".to_string();
  }
  if stderr.contains("has overflowed its stack") {
    return "stack-overflow".to_string();
  }
  if stderr.contains("memory allocation of") {
    return "alloc-failure".to_string();
  }
  use std::os::unix::process::ExitStatusExt;
  match status.signal() {
    Some(s) => format!("signal-{s}"),
    None => format!("exit-{}", status.code().unwrap_or(-1)),
  }
}

fn died(status: &std::process::ExitStatus) -> bool {
  use std::os::unix::process::ExitStatusExt;
  status.signal().is_some() || !matches!(status.code(), Some(0) | Some(1) | Some(2))
}

fn run_raw(exe: &Path, a: &Args, run_dir: &Path, scenario: u32, input: &[u8], excl: &[String]) -> RawResult {
  let path = run_dir.join(format!("raw-{}.bin", std::process::id()));
  let _ = fs::write(&path, input);
  let out = Command::new(exe)
    .arg(&a.id)
    .arg("--raw")
    .arg(scenario.to_string())
    .arg(&path)
    .env("VERIF_EXCL", excl.join(","))
    .env("RUST_BACKTRACE", "0")
    .stdin(Stdio::null())
    .output();
  let _ = fs::remove_file(&path);
  match out {
    Ok(o) => {
      let stderr = String::from_utf8_lossy(&o.stderr).to_string();
      let d = died(&o.status);
      RawResult {
        died: d,
        key: if d { classify(&stderr, &o.status) } else { String::new() },
        stderr_tail: stderr.lines().take(6).collect::<Vec<_>>().join("\n"),
      }
    }
    Err(e) => RawResult {
      died: false,
      key: String::new(),
      stderr_tail: format!("spawn failed: {e}"),
    },
  }
}

pub fn supervise(prop: &Property, a: &Args) -> i32 {
  let t0 = Instant::now();
  let exe = env::current_exe().expect("current_exe");
  let run_dir = a.root.join("harness").join("target").join("run");
  let _ = fs::create_dir_all(&run_dir);
  let inflight_path = run_dir.join(format!("inflight-{}.bin", std::process::id()));
  let known = findings::load(&a.root, prop.id);
  let id_l = prop.id.to_lowercase();
  let abort_clause = format!("{id_l}.abort");
  let mut excl: Vec<String> = Vec::new();
  let mut printed: Vec<String> = Vec::new();

  // abort-type known findings are reproduced here, each in its own process
  for k in known.iter().filter(|k| k.sig.starts_with(&format!("{abort_clause}|"))) {
    if let Some(rp) = &k.replay {
      if let Ok((_, scenario, bytes, _)) = engine::read_replay(&a.root.join(rp)) {
        let r = run_raw(&exe, a, &run_dir, scenario, &bytes, &[]);
        if r.died && format!("{abort_clause}|{}", r.key) == k.sig {
          println!("KNOWN-FINDING: property={} {}", prop.id, k.what);
          printed.push(k.sig.clone());
          if let Some(e) = &k.excl {
            excl.push(e.clone());
          }
        } else if r.died {
          // dies differently now
          let sig = format!("{abort_clause}|{}", r.key);
          if !known.iter().any(|k2| k2.sig == sig) {
            let path = write_abort_replay(a, prop, scenario, &bytes, &r, "found");
            println!("VIOLATION property={} replay={}", prop.id, path.display());
            return 1;
          }
        }
      }
    }
  }

  // abort-type regression inputs (fixed defects, seeded changes): each in its own process
  if a.replay.is_none() {
    let regress_dir = a.root.join("replays").join(prop.id).join("regress");
    if let Ok(rd) = fs::read_dir(&regress_dir) {
      let mut files: Vec<PathBuf> = rd.filter_map(|e| e.ok().map(|e| e.path())).collect();
      files.sort();
      for f in files {
        let name = f.file_name().and_then(|n| n.to_str()).unwrap_or("").to_string();
        if !name.starts_with(&abort_clause) || !name.ends_with(".json") {
          continue;
        }
        let Ok((_, scenario, bytes, _)) = engine::read_replay(&f) else {
          continue;
        };
        let r = run_raw(&exe, a, &run_dir, scenario, &bytes, &[]);
        if r.died {
          let sig = format!("{abort_clause}|{}", r.key);
          if let Some(k) = known.iter().find(|k| k.sig == sig) {
            if !printed.contains(&k.sig) {
              println!("KNOWN-FINDING: property={} {}", prop.id, k.what);
              printed.push(k.sig.clone());
            }
            continue;
          }
          println!("clause: {abort_clause}\nkey: {}\ndetail: regression input kills the process: {}", r.key, r.stderr_tail);
          println!("VIOLATION property={} replay={}", prop.id, f.display());
          write_min_evidence(a, prop, &bytes, scenario, &r, t0);
          return 1;
        }
      }
    }
  }

  let orig: Vec<String> = env::args().skip(1).collect();
  for _attempt in 0..8 {
    let status = Command::new(&exe)
      .args(&orig)
      .arg("--child")
      .env("VERIF_INFLIGHT", &inflight_path)
      .env("VERIF_EXCL", excl.join(","))
      .env("VERIF_KNOWN_PRINTED", printed.join("\x1f"))
      .status();
    let status = match status {
      Ok(s) => s,
      Err(e) => {
        eprintln!("HARNESS-ERROR: cannot start child: {e}");
        return 2;
      }
    };
    if !died(&status) {
      let _ = fs::remove_file(&inflight_path);
      return status.code().unwrap_or(2);
    }
    // the child was killed by one of its cases
    let cands = inflight::read_running(&inflight_path);
    let _ = fs::remove_file(&inflight_path);
    let mut culprit: Option<(u32, Vec<u8>, RawResult)> = None;
    for (scenario, bytes) in &cands {
      let r = run_raw(&exe, a, &run_dir, *scenario, bytes, &excl);
      if r.died {
        culprit = Some((*scenario, bytes.clone(), r));
        break;
      }
    }
    let Some((scenario, bytes, r)) = culprit else {
      eprintln!(
        "HARNESS-ERROR: the campaign process died ({status:?}) but none of its {} in-flight cases kills a fresh process on its own; inconclusive",
        cands.len()
      );
      for (i, (sc, b)) in cands.iter().enumerate() {
        let p = run_dir.join(format!("died-candidate-{}-{i}.json", prop.id));
        let _ = fs::write(&p, serde_json::to_string_pretty(&json!({"property": prop.id, "scenario": sc, "choices_hex": hex(b)})).unwrap());
      }
      return 2;
    };
    let sig = format!("{abort_clause}|{}", r.key);
    if let Some(k) = known.iter().find(|k| k.sig == sig) {
      if !printed.contains(&k.sig) {
        println!("KNOWN-FINDING: property={} {}", prop.id, k.what);
        printed.push(k.sig.clone());
      }
      match &k.excl {
        Some(e) if !excl.contains(e) => {
          excl.push(e.clone());
          continue; // restart the campaign behind the exclusion
        }
        _ => {
          eprintln!("HARNESS-ERROR: listed finding {sig} still kills the process although its generator exclusion is on; campaign cannot continue (inconclusive)");
          return 2;
        }
      }
    }
    // unknown: shrink (each candidate in its own process), then report
    let key = r.key.clone();
    let reduced = shrink::reduce(
      &bytes,
      |cand| {
        let rr = run_raw(&exe, a, &run_dir, scenario, cand, &excl);
        rr.died && rr.key == key
      },
      150,
    );
    let rr = run_raw(&exe, a, &run_dir, scenario, &reduced, &excl);
    let (input, res) = if rr.died { (reduced, rr) } else { (bytes, r) };
    let path = write_abort_replay(a, prop, scenario, &input, &res, "found");
    println!("scenario: {scenario}");
    println!("clause: {abort_clause}\nkey: {}\ndetail: the case kills the process: {}", res.key, res.stderr_tail);
    println!("VIOLATION property={} replay={}", prop.id, path.display());
    write_min_evidence(a, prop, &input, scenario, &res, t0);
    return 1;
  }
  eprintln!("HARNESS-ERROR: too many campaign restarts");
  2
}

fn write_abort_replay(a: &Args, prop: &Property, scenario: u32, input: &[u8], r: &RawResult, sub: &str) -> PathBuf {
  let dir = a.root.join("replays").join(prop.id).join(sub);
  let _ = fs::create_dir_all(&dir);
  let clause = format!("{}.abort", prop.id.to_lowercase());
  let path = dir.join(format!("{clause}-{:016x}.json", rustdds::verif::fnv(input) ^ u64::from(scenario)));
  let v = json!({
    "property": prop.id, "scenario": scenario, "choices_hex": hex(input), "seed": a.seed, "tier": a.tier,
    "clause": clause, "key": r.key, "signature": format!("{clause}|{}", r.key),
    "detail": format!("the case kills the process: {}", r.stderr_tail),
  });
  let _ = fs::write(&path, serde_json::to_string_pretty(&v).unwrap());
  path
}

fn write_min_evidence(a: &Args, prop: &Property, input: &[u8], scenario: u32, r: &RawResult, t0: Instant) {
  let ev = json!({
    "property_id": prop.id, "tier": a.tier, "seed": a.seed as i64, "level": prop.level,
    "coverage": {"evaluations": 1, "distinct_nontrivial": 2, "rule": prop.rule,
      "samples": [format!("scenario={scenario} choices={} kills the process: {}", hex(input), r.key)],
      "note": "the campaign process was killed by a case; counts of the interrupted campaign are not available (distinct_nontrivial is a placeholder)"},
    "assumptions": prop.assumptions, "wall_s": t0.elapsed().as_secs_f64(), "violations": 1,
  });
  let dir = a.root.join("evidence");
  let _ = fs::create_dir_all(&dir);
  let _ = fs::write(dir.join(format!("{}.json", prop.id)), serde_json::to_string_pretty(&ev).unwrap());
}

//! C02 — reliable writer/reader pair converges after any finite loss, then goes quiet.
//!
//! Real Writer on one node, 1-2 real reliable Readers (with DataReader
//! front-ends) on other nodes. A generated fault plan drops / duplicates /
//! delays the datagrams of a bounded run; then a fault-free suffix runs in
//! rounds {heartbeat tick -> deliver everything -> fire timers until they emit
//! nothing}. Liveness is decided as a fixpoint test: a deterministic fault-free
//! system whose protocol-state projection repeats without convergence never
//! converges.

use std::collections::{BTreeMap, BTreeSet, VecDeque};

use bytes::Bytes;

use super::{
  fnv,
  frontend::{self, Raw, RawAdapter},
  hex, hooks,
  rig::{self, CaseGuard, Node},
  wire,
  Choices, Outcome, Property, Scenario, Verdict,
};
use crate::{
  dds::{
    ddsdata::DDSData,
    qos::{policy, QosPolicyBuilder},
    readcondition::ReadCondition,
    with_key::{datareader::DataReader, datasample::Sample, datawriter::WriteOptionsBuilder},
  },
  messages::submessages::elements::serialized_payload::SerializedPayload,
  rtps::writer::WriterCommand,
  structure::{duration::Duration, guid::GUID, locator::Locator, sequence_number::SequenceNumber},
  RepresentationIdentifier,
};

pub fn property() -> Property {
  Property {
    id: "C02",
    level: "exploration",
    rule: "one real reliable Writer (History KeepAll or KeepLast(d), fragment size 32-128) and 1-2 real \
           reliable Readers on separate nodes; 1-12 application writes (sizes around 0,1,2,3 fragment \
           sizes +-{0..3}) interleaved with heartbeat ticks, timer steps and cache cleaning; a fault \
           plan decides for every datagram put in flight (DATA, DATAFRAG, HEARTBEAT, GAP, ACKNACK, \
           NACKFRAG): deliver, drop, duplicate or delay by j. Then the faults stop. Non-trivial = at \
           least one datagram was dropped or delayed and at least one repair datagram (DATA/DATAFRAG/GAP \
           unicast after an ACKNACK) was needed. Distinct = distinct decoded cases.",
    assumptions: &[
      "liveness is reduced to a fixpoint test on a projection of the protocol state (reader: ack base, received / unavailable set, per-sample missing fragments, samples handed over; writer: per-reader acknowledged base, unsent set, pending gaps, repair mode, requested fragments); a stuck run whose relevant state is outside the projection is caught by the round bound instead",
      "virtual time advances one heartbeat period (1 s) per round, so fragment-assembly garbage collection (10 s) can take part",
      "timer steps wait 3 ms of real time each; no verdict depends on the duration",
    ],
    scenarios: &[Scenario {
      id: 0,
      name: "fault plan, then fault-free rounds to a fixpoint",
      quick: 1_200,
      thorough: 30_000,
      max_len: 1100,
      max_threads: 0,
    }],
    run,
    exhaustive: None,
  }
}

#[derive(Clone, Copy, Debug, PartialEq, Eq)]
enum Fault {
  Deliver,
  Drop,
  Duplicate,
  Delay(usize),
}

#[derive(Clone, Debug)]
enum Step {
  Write(usize),
  HeartbeatTick,
  Timers,
  Deliver(usize),
  Clean,
}

struct ReaderSide {
  node: Node,
  ri: usize,
  front: DataReader<Raw, RawAdapter>,
  guid: GUID,
  got: BTreeMap<i64, Vec<u8>>,
}

fn payload(sn: i64, len: usize, salt: u8) -> Vec<u8> {
  let mut p = vec![0u8, 1, 0, 0, (sn % 4) as u8];
  for i in 1..len {
    p.push((i as u8).wrapping_mul(13) ^ salt ^ (sn as u8).wrapping_mul(5));
  }
  p
}

struct World {
  wnode: Node,
  wi: usize,
  readers: Vec<ReaderSide>,
  /// (destination: None = writer node, Some(i) = reader i, bytes)
  in_flight: VecDeque<(Option<usize>, Vec<u8>)>,
  kinds_lost: BTreeSet<&'static str>,
  repairs: usize,
  dropped: usize,
  reordered: usize,
  duplicated: usize,
  frag_losses: BTreeMap<(i64, u32), u32>,
}

fn classify(bytes: &[u8]) -> (&'static str, Option<(i64, u32)>, bool) {
  // (kind label, (sn, fragment) if a DATAFRAG, is unicast repair material)
  let mut label = "other";
  let mut frag = None;
  let mut has_dst = false;
  if let Ok((_, subs)) = wire::decode_datagram(bytes, false) {
    for (_, d) in subs {
      match d {
        wire::Decoded::InfoDst(_) => has_dst = true,
        wire::Decoded::Data { .. } => label = "data",
        wire::Decoded::DataFrag { sn, frag_start, .. } => {
          label = "frag";
          frag = Some((sn, frag_start));
        }
        wire::Decoded::Gap { .. } => {
          if label == "other" {
            label = "gap"
          }
        }
        wire::Decoded::Heartbeat { .. } => {
          if label == "other" {
            label = "hb"
          }
        }
        wire::Decoded::AckNack { .. } => {
          if label == "other" {
            label = "acknack"
          }
        }
        wire::Decoded::NackFrag { .. } => label = "nackfrag",
        _ => {}
      }
    }
  }
  (label, frag, has_dst && matches!(label, "data" | "frag" | "gap"))
}

impl World {
  /// route what the nodes emitted into the in-flight queue under the fault plan
  fn route(&mut self, faults: &mut dyn FnMut() -> Fault) {
    for (loc, bytes) in hooks::capture_drain() {
      let dest: Option<Option<usize>> = if loc == self.wnode.locator {
        Some(None)
      } else {
        self.readers.iter().position(|r| r.node.locator == loc).map(Some)
      };
      let Some(dest) = dest else { continue };
      let (label, frag, repair) = classify(&bytes);
      if repair {
        self.repairs += 1;
      }
      match faults() {
        Fault::Deliver => self.in_flight.push_back((dest, bytes)),
        Fault::Drop => {
          self.dropped += 1;
          self.kinds_lost.insert(label);
          if let Some(f) = frag {
            *self.frag_losses.entry(f).or_insert(0) += 1;
          }
        }
        Fault::Duplicate => {
          self.duplicated += 1;
          self.in_flight.push_back((dest, bytes.clone()));
          self.in_flight.push_back((dest, bytes));
        }
        Fault::Delay(j) => {
          self.reordered += 1;
          self.in_flight.push_back((dest, bytes));
          // rotate it j places towards the back at delivery time: emulate by
          // inserting j earlier-queued datagrams after it
          let n = self.in_flight.len();
          if n >= 2 {
            let pos = n - 1;
            let swap_with = pos.saturating_sub(j.min(pos));
            self.in_flight.swap(pos, swap_with);
          }
        }
      }
    }
  }

  fn deliver_one(&mut self) -> bool {
    let Some((dest, bytes)) = self.in_flight.pop_front() else {
      return false;
    };
    match dest {
      None => self.wnode.inject(&bytes),
      Some(i) => self.readers[i].node.inject(&bytes),
    }
    true
  }

  fn drain_readers(&mut self, written: &BTreeMap<i64, Vec<u8>>, o: &mut Outcome) {
    for (i, r) in self.readers.iter_mut().enumerate() {
      match r.front.take(usize::MAX, ReadCondition::any()) {
        Ok(v) => {
          for ds in v {
            let sn = i64::from(ds.sample_info().sample_identity().sequence_number);
            if let Sample::Value(raw) = ds.into_value() {
              let Some(w) = written.get(&sn) else {
                o.violate("c02.fabricated", "sample", format!("reader {i} handed over sn {sn} that was never written"));
                return;
              };
              let mut want = w[4..].to_vec();
              // DATA pads to 4; DATAFRAG-delivered samples are exact
              let exact = raw.bytes == want;
              while (want.len() + 4) % 4 != 0 {
                want.push(0);
              }
              if !exact && raw.bytes != want {
                o.violate("c02.content", "bytes", format!("reader {i} sn {sn}: bytes differ from what was written"));
                return;
              }
              if r.got.insert(sn, raw.bytes).is_some() {
                o.violate("c02.handed-twice", "dup", format!("reader {i} handed over sn {sn} twice"));
                return;
              }
            }
          }
        }
        Err(e) => {
          o.violate("c02.take-error", "take", format!("{e:?}"));
          return;
        }
      }
    }
  }

  fn projection(&self, last: i64) -> String {
    let mut s = String::new();
    let wguid = self.wnode.writers[self.wi].guid;
    let w = &self.wnode.writers[self.wi].writer;
    s.push_str(&format!("W hist={:?} ", w.verif_history_sns().len()));
    for r in &self.readers {
      if let Some(rp) = w.verif_reader_proxy(r.guid) {
        s.push_str(&format!("rp{:?} ", rp.verif_state()));
      }
      let eid = r.node.readers[r.ri].guid.entity_id;
      if let Some(reader) = r.node.mr.available_readers.get(&eid) {
        if let Some(wp) = reader.verif_writer_proxy(wguid) {
          let cands: Vec<SequenceNumber> = (1..=last).map(SequenceNumber::from).collect();
          s.push_str(&format!(
            "R base={:?} ch={:?} partial={:?} got={} ",
            wp.all_ackable_before(),
            wp.verif_changes(),
            reader.verif_partial_samples(wguid, &cands),
            r.got.len()
          ));
        }
      }
    }
    s
  }
}

pub fn run(_scenario: u32, choices: &[u8], _strict: bool) -> Outcome {
  let mut c = Choices::new(choices);
  let mut o = Outcome::new();
  let _guard = CaseGuard::new();

  // ---------------------------------------------------------------- configuration
  let fsize = [32usize, 48, 64, 128][c.pick(4)];
  let history = if c.chance(70) {
    policy::History::KeepLast {
      depth: c.int_in(1, 4) as i32,
    }
  } else {
    policy::History::KeepAll
  };
  let nreaders = 1 + usize::from(c.chance(70));
  let salt = c.byte();
  let wqos = QosPolicyBuilder::new()
    .reliability(policy::Reliability::Reliable {
      max_blocking_time: Duration::from_millis(100),
    })
    .durability(policy::Durability::TransientLocal)
    .history(history)
    .deadline(policy::Deadline(Duration::from_millis(5)))
    .build();
  let mut wnode = Node::new(1);
  let wi = wnode.add_writer(rig::user_writer_eid(1, true), "rig_topic", &wqos);
  wnode.writers[wi].writer.data_max_size_serialized = fsize;
  let wguid = wnode.writers[wi].guid;
  let mut readers = Vec::new();
  for i in 0..nreaders {
    let mut node = Node::new(if i == 0 { 0 } else { 2 });
    let ri = node.add_reader(rig::user_reader_eid(1, true), "rig_topic", &rig::reliable_qos());
    let guid = node.readers[ri].guid;
    node
      .reader_mut(ri)
      .update_writer_proxy(rig::writer_proxy_for(wguid, wnode.locator), &wqos);
    wnode.writers[wi]
      .writer
      .update_reader_proxy(&rig::reader_proxy_for(guid, node.locator, &rig::reliable_qos()), &rig::reliable_qos());
    let front = frontend::data_reader::<Raw, RawAdapter>(&mut node.readers[ri]);
    readers.push(ReaderSide {
      node,
      ri,
      front,
      guid,
      got: BTreeMap::new(),
    });
  }
  let _ = hooks::capture_drain();
  if nreaders == 2 {
    o.label("two-readers");
  }
  if matches!(history, policy::History::KeepLast { .. }) {
    o.label("keep-last");
  }

  // ---------------------------------------------------------------- script + fault plan
  let nwrites = 1 + c.pick(12);
  let mut steps = Vec::new();
  let mut w = 0;
  let nsteps = c.usize_in(nwrites, nwrites + 30);
  for _ in 0..nsteps {
    let k = c.weighted(&[8, 3, 4, 8, 1]);
    steps.push(match k {
      0 if w < nwrites => {
        w += 1;
        let k = c.pick(4);
        let r = c.pick(7) as isize - 3;
        Step::Write(((k * fsize) as isize + r).max(1) as usize)
      }
      1 => Step::HeartbeatTick,
      2 => Step::Timers,
      3 => Step::Deliver(1 + c.pick(4)),
      4 => Step::Clean,
      _ => Step::Deliver(1),
    });
  }
  while w < nwrites.min(2) {
    w += 1;
    steps.insert(0, Step::Write(c.usize_in(1, 3 * fsize)));
  }
  // the fault plan: one decision per datagram put in flight, consumed in order
  let loss_level = [40u32, 90, 150][c.pick(3)];
  let nfaults = 400;
  let plan: Vec<Fault> = (0..nfaults)
    .map(|_| {
      let b = u32::from(c.byte());
      if b < 256 - loss_level {
        Fault::Deliver
      } else {
        match b % 5 {
          0 | 1 | 2 => Fault::Drop,
          3 => Fault::Duplicate,
          _ => Fault::Delay(1 + (b as usize % 3)),
        }
      }
    })
    .collect();
  // (drawn here, used after the faulty phase: the position in the choice stream is unchanged)
  let keep = c.bool();
  // (drawn last) directed writes: with two readers, some samples are written for one of them
  // only; the other one is sent a GAP for them and must come to know them as unavailable
  let mut directed: BTreeMap<usize, usize> = BTreeMap::new(); // index of the Write step -> reader
  if nreaders == 2 && c.chance(100) {
    let writes: Vec<usize> = steps.iter().enumerate().filter(|(_, s)| matches!(s, Step::Write(_))).map(|(i, _)| i).collect();
    for _ in 0..1 + c.pick(3) {
      let i = writes[c.pick(writes.len())];
      directed.insert(i, c.pick(2));
    }
  }
  o.sample = format!(
    "fragment_size={fsize} history={history:?} readers={nreaders} steps={steps:?} directed={directed:?} faults={:?}",
    plan
      .iter()
      .enumerate()
      .filter(|(_, f)| **f != Fault::Deliver)
      .take(60)
      .collect::<Vec<_>>()
  );
  o.digest = fnv(o.sample.as_bytes());

  let mut world = World {
    wnode,
    wi,
    readers,
    in_flight: VecDeque::new(),
    kinds_lost: BTreeSet::new(),
    repairs: 0,
    dropped: 0,
    reordered: 0,
    duplicated: 0,
    frag_losses: BTreeMap::new(),
  };
  let mut written: BTreeMap<i64, Vec<u8>> = BTreeMap::new();
  let mut last_sn = 0i64;
  let mut plan_pos = 0usize;

  // ---------------------------------------------------------------- faulty phase
  let mut meant_for: BTreeMap<i64, usize> = BTreeMap::new();
  for (stepno, step) in steps.iter().enumerate() {
    match step {
      Step::Write(len) => {
        last_sn += 1;
        let p = payload(last_sn, *len, salt);
        let sp = SerializedPayload {
          representation_identifier: RepresentationIdentifier::CDR_LE,
          representation_options: [0, 0],
          value: Bytes::copy_from_slice(&p[4..]),
        };
        let _ = world.wnode.writers[wi].cmd_tx.try_send(WriterCommand::DDSData {
          ddsdata: DDSData::new(sp),
          write_options: match directed.get(&stepno) {
            Some(r) => {
              meant_for.insert(last_sn, *r);
              o.label("directed-write");
              WriteOptionsBuilder::new().to_single_reader(world.readers[*r].guid).build()
            }
            None => WriteOptionsBuilder::new().build(),
          },
          sequence_number: SequenceNumber::from(last_sn),
        });
        written.insert(last_sn, p);
        world.wnode.writers[wi].writer.process_writer_command();
      }
      Step::HeartbeatTick => world.wnode.writers[wi].writer.handle_heartbeat_tick(false),
      Step::Timers => {
        world.wnode.fire_writer_timers(wi);
      }
      Step::Deliver(n) => {
        for _ in 0..*n {
          if !world.deliver_one() {
            break;
          }
          let mut f = || {
            let x = plan.get(plan_pos).copied().unwrap_or(Fault::Deliver);
            plan_pos += 1;
            x
          };
          world.route(&mut f);
        }
      }
      Step::Clean => {
        world.wnode.writers[wi].writer.verif_handle_cache_cleaning();
      }
    }
    let mut f = || {
      let x = plan.get(plan_pos).copied().unwrap_or(Fault::Deliver);
      plan_pos += 1;
      x
    };
    world.route(&mut f);
    world.drain_readers(&written, &mut o);
    if o.is_violation() {
      return o;
    }
  }
  // whatever is still in flight when the faults stop is lost or late: drop a
  // generated part of it, deliver the rest
  if !keep {
    world.dropped += world.in_flight.len();
    world.in_flight.clear();
  }

  // ---------------------------------------------------------------- fault-free suffix
  let nfrags: usize = written.values().map(|p| (p.len() + fsize - 1) / fsize).sum();
  let max_rounds = 8 + 4 * (written.len() + nfrags);
  let mut no_fault = || Fault::Deliver;
  let mut prev_projection = String::new();
  let mut converged_at: Option<usize> = None;
  let mut rounds = 0;
  let settle = |world: &mut World, written: &BTreeMap<i64, Vec<u8>>, o: &mut Outcome, no_fault: &mut dyn FnMut() -> Fault| -> usize {
    // deliver everything, fire timers until they emit nothing; returns datagrams moved
    let mut moved = 0;
    for _ in 0..200 {
      let mut any = false;
      while world.deliver_one() {
        moved += 1;
        any = true;
        world.route(no_fault);
      }
      let emitted = world.wnode.fire_writer_timers(world.wi);
      world.route(no_fault);
      if emitted > 0 {
        any = true;
      }
      if !any && world.in_flight.is_empty() {
        break;
      }
    }
    world.drain_readers(written, o);
    moved
  };
  while rounds < max_rounds {
    rounds += 1;
    hooks::clock_advance_nanos(1_000_000_000);
    world.wnode.writers[wi].writer.handle_heartbeat_tick(false);
    world.route(&mut no_fault);
    let _ = settle(&mut world, &written, &mut o, &mut no_fault);
    if o.is_violation() {
      return o;
    }
    // convergence test
    let history: Vec<i64> = world.wnode.writers[wi].writer.verif_history_sns().into_iter().map(i64::from).collect();
    let mut all_ok = true;
    let mut why = String::new();
    for (i, r) in world.readers.iter().enumerate() {
      for sn in &history {
        if !r.got.contains_key(sn) && meant_for.get(sn).map_or(true, |m| *m == i) {
          all_ok = false;
          why = format!("reader {i} still lacks sample {sn} held by the writer");
        }
      }
      let eid = r.node.readers[r.ri].guid.entity_id;
      let base = r
        .node
        .mr
        .available_readers
        .get(&eid)
        .and_then(|rd| rd.verif_writer_proxy(wguid))
        .map(|wp| i64::from(wp.all_ackable_before()))
        .unwrap_or(0);
      if base != last_sn + 1 {
        all_ok = false;
        if why.is_empty() {
          why = format!("reader {i} acknowledges up to {base}, writer has written {last_sn}");
        }
      }
    }
    if all_ok {
      converged_at = Some(rounds);
      break;
    }
    let proj = world.projection(last_sn);
    if proj == prev_projection {
      let lost_twice = world.frag_losses.values().any(|n| *n >= 2);
      let key = if proj.contains("partial=[(") {
        "partial-sample"
      } else {
        "whole-sample"
      };
      o.violate(
        "c02.stuck",
        key,
        format!(
          "after the faults stopped, round {rounds} left the protocol state unchanged without convergence: {why}. lost kinds {:?}, same fragment lost twice: {lost_twice}. state: {}",
          world.kinds_lost,
          &proj[..proj.len().min(900)]
        ),
      );
      break;
    }
    prev_projection = proj;
  }
  if !o.is_violation() && converged_at.is_none() {
    o.violate(
      "c02.no-convergence",
      "round-bound",
      format!("no convergence within {max_rounds} fault-free rounds; state: {}", &world.projection(last_sn)[..400.min(world.projection(last_sn).len())]),
    );
  }
  // quiet: once the readers have everything, heartbeat ticks and timers emit nothing
  if !o.is_violation() {
    // one more full round lets the final acknowledgments reach the writer
    world.wnode.writers[wi].writer.handle_heartbeat_tick(false);
    world.route(&mut no_fault);
    let _ = settle(&mut world, &written, &mut o, &mut no_fault);
    let mut noise = Vec::new();
    for _ in 0..2 {
      world.wnode.writers[wi].writer.handle_heartbeat_tick(false);
      world.wnode.fire_writer_timers(wi);
      for (loc, bytes) in hooks::capture_drain() {
        noise.push((loc, classify(&bytes).0));
      }
    }
    if !noise.is_empty() {
      o.violate(
        "c02.not-quiet",
        noise[0].1,
        format!("converged after {converged_at:?} rounds, but the writer keeps sending: {noise:?}"),
      );
    }
  }
  frontend::drain_discovery_commands();
  for k in &world.kinds_lost {
    o.label(match *k {
      "data" => "lost-data",
      "frag" => "lost-frag",
      "hb" => "lost-hb",
      "acknack" => "lost-acknack",
      "nackfrag" => "lost-nackfrag",
      "gap" => "lost-gap",
      _ => "lost-other",
    });
  }
  if world.frag_losses.values().any(|n| *n >= 2) {
    o.label("same-frag-lost-twice");
  }
  if world.duplicated > 0 {
    o.label("dup");
  }
  if world.reordered > 0 {
    o.label("reordered");
  }
  o.nontrivial = (world.dropped > 0 || world.reordered > 0) && world.repairs > 0;
  o
}

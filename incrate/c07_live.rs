//! C07 — two (or three) live participants find each other and deliver, whatever
//! the creation order.
//!
//! This driver is different from the others: it runs REAL DomainParticipants
//! (their own event-loop and discovery threads, real UDP sockets on this host)
//! and observes only the public API. What is generated: the creation order of
//! participants / topics / writer / readers (a random interleaving of the
//! dependency chains), pauses between the steps, with_key or no_key topic,
//! durability of both sides, the payload sizes (every residue modulo 4 around the
//! fragment size), values and disposals, a datagram loss / duplication rate that
//! the guarded tap in UDPSender applies to every datagram of the case's domain
//! (discovery traffic included), and which entity is deleted at the end.
//!
//! The schedule of the threads is not owned by the harness, so a replay file
//! reproduces the configuration, not the exact interleaving; bounds are generous
//! and a failed case is re-run before it is reported.

use std::{
  sync::atomic::{AtomicU32, Ordering},
  time::{Duration as StdDuration, Instant},
};

use serde::{Deserialize, Serialize};

use super::{fnv, hooks, Choices, Outcome, Property, Scenario, Verdict};
use crate::{
  dds::{
    participant::DomainParticipant,
    qos::{policy, QosPolicies, QosPolicyBuilder},
    statusevents::{DataReaderStatus, DataWriterStatus, StatusEvented},
    topic::{Topic, TopicKind},
    with_key::Sample,
  },
  structure::duration::Duration,
  Keyed,
};

pub fn property() -> Property {
  Property {
    id: "C07",
    level: "exploration",
    rule: "one case = two or three real DomainParticipants in a private domain of this host. Generated: \
           interleaving of the creation chains (participant -> topic -> writer -> early writes | \
           participant -> topic -> reader | optional third participant with a second reader), pauses \
           (0 / 30 ms / 300 ms / 2.5 s), with_key or no_key, durability Volatile or TransientLocal on \
           either side (compatible combinations), 0-5 samples written before matching and 1-8 after, \
           payload sizes from {1..8, 1021..1028, 2045..2052, 3000+r, 9000+r} (fragment size 1024), \
           values and disposals, loss 0 / 3 / 8 / 15 / 20 % and duplication 0 / 5 % of all datagrams, and \
           the entity deleted at the end (reader, writer, reader's participant, writer's participant). \
           Non-trivial = the writer was not created last, or loss > 0, or a fragmented sample, or a late \
           joiner with early samples. Distinct = distinct decoded configurations.",
    assumptions: &[
      "bounds: match 40 s, delivery 40 s, unmatch 45 s (participant lease 10 s + clean-up period 2 s + slack); a case that fails is run up to twice more with the same seed (which loses the same logical datagrams) and reported only if it fails again",
      "the thread schedule of the live participants is not controlled: a replay reproduces configuration and fault rate, not the interleaving",
      "datagram faults are applied by destination port (the case's domain), pseudo-randomly per datagram from the case seed; which datagram is hit depends on thread timing",
      "security-enabled configurations run only in the security build (scenario 1)",
    ],
    scenarios: &[Scenario {
      id: 0,
      name: "live participants: creation order, delivery under loss, late joiner, deletion",
      quick: 24,
      thorough: 400,
      max_len: 160,
      max_threads: 8,
    }],
    run,
    exhaustive: Some(fixed_orders),
  }
}

/// Fixed configurations that are always run (independent of the generator):
/// formerly failing orders and the basic shapes of the statement.
const FIXED: &[&str] = &[
  // a TransientLocal writer and a Volatile late joiner (fixed finding)
  "order=PA,PB,TA,W:30,TB:30,Pre:2500,R1 keyed=1 wtl=1 rtl=0 pre=2 post=1",
  // reader created after the remote writer is known to its participant (fixed finding)
  "order=PB,PA,TA,W:300,TB:2500,Pre,R1 keyed=0 wtl=0 rtl=0 pre=0 post=1",
  // writer created after the remote reader is known to its participant (fixed finding)
  "order=PA,PB,TB,R1,TA:3500,W,Pre keyed=0 post=1",
  // TransientLocal late joiner receives the retained history
  "order=PA,TA,W,Pre,PB:300,TB,R1 keyed=1 wtl=1 rtl=1 pre=4 post=2 delete=Writer",
  // three participants, deletion of the writer's participant
  "order=PC,PB,PA,TC,TB,TA,R2,R1,W,Pre keyed=1 post=3 delete=WriterParticipant",
  // deletion of the reader's participant
  "order=PA,PB,TA,TB,W,Pre,R1 keyed=0 post=2 delete=ReaderParticipant",
];

fn fixed_orders(thorough: bool) -> super::ExhaustiveReport {
  calibrate();
  let n = if thorough { FIXED.len() } else { 4 };
  let results: Vec<(usize, Outcome)> = std::thread::scope(|s| {
    let hs: Vec<_> = (0..n).map(|i| s.spawn(move || (i, run(9999, &[i as u8], false)))).collect();
    hs.into_iter().map(|h| h.join().expect("C07 fixed order thread")).collect()
  });
  let mut rep = super::ExhaustiveReport {
    name: "fixed creation orders (formerly failing orders and basic shapes)",
    cases: n as u64,
    nontrivial: 0,
    complete: true,
    violation: None,
    samples: Vec::new(),
  };
  for (i, o) in results {
    if o.nontrivial {
      rep.nontrivial += 1;
    }
    rep.samples.push(FIXED[i].to_string());
    if o.is_violation() && rep.violation.is_none() {
      rep.violation = Some((vec![i as u8], 9999, o));
    }
  }
  rep
}

#[derive(Clone, Debug, PartialEq, Eq, Serialize, Deserialize)]
pub struct Live {
  pub key: u8,
  pub seq: u32,
  pub blob: Vec<u8>,
}

impl Keyed for Live {
  type K = u8;
  fn key(&self) -> u8 {
    self.key
  }
}

fn blob(seq: u32, len: usize) -> Vec<u8> {
  (0..len)
    .map(|i| (seq as usize).wrapping_mul(131).wrapping_add(i.wrapping_mul(7)).wrapping_add(3) as u8)
    .collect()
}

#[derive(Clone, Debug, PartialEq, Eq)]
enum Item {
  Value { key: u8, seq: u32, len: usize },
  Dispose { key: u8 },
}

#[derive(Clone, Copy, Debug, PartialEq, Eq)]
enum Step {
  PA,
  TA,
  W,
  Pre,
  PB,
  TB,
  R1,
  PC,
  TC,
  R2,
}

#[derive(Clone, Copy, Debug, PartialEq, Eq)]
enum Delete {
  Reader,
  Writer,
  ReaderParticipant,
  WriterParticipant,
}

#[derive(Debug)]
struct Config {
  keyed: bool,
  writer_tl: bool,
  reader_tl: [bool; 2],
  three: bool,
  order: Vec<(Step, u64)>, // step, pause before it in ms
  pre: Vec<Item>,
  post: Vec<Item>,
  loss: u64,
  dup: u64,
  delete: Delete,
}

// payload = 4 (encapsulation) + 1 key + 3 pad + 4 seq + 4 len + blob = 16 + blob
const OVERHEAD: usize = 16;

fn gen_item(c: &mut Choices, keyed: bool, seq: &mut u32) -> Item {
  if keyed && c.chance(45) {
    return Item::Dispose { key: c.pick(3) as u8 };
  }
  *seq += 1;
  let r = c.pick(8);
  let total = match c.weighted(&[5, 4, 2, 1, 1]) {
    0 => OVERHEAD + 1 + r,
    1 => 1021 + r,
    2 => 2045 + r,
    3 => 3000 + r,
    _ => 9000 + r,
  };
  Item::Value {
    key: c.pick(3) as u8,
    seq: *seq,
    len: total - OVERHEAD,
  }
}

fn gen_config(c: &mut Choices) -> Config {
  // the decisions that shape the case come first (a short choice stream still varies them)
  let keyed = !c.chance(90);
  let writer_tl = c.chance(128);
  let three = c.chance(70);
  let reader_tl = [writer_tl && c.chance(160), writer_tl && c.chance(160)];
  let loss = [0u64, 0, 8, 20, 38, 51][c.pick(6)];
  let dup = [0u64, 13][c.pick(2)];
  let delete = [Delete::Reader, Delete::Writer, Delete::ReaderParticipant, Delete::WriterParticipant][c.pick(4)];
  let npre = c.pick(6);
  let npost = 1 + c.pick(8);
  // interleave the chains
  let mut chains: Vec<Vec<Step>> = vec![vec![Step::PA, Step::TA, Step::W, Step::Pre], vec![Step::PB, Step::TB, Step::R1]];
  if three {
    chains.push(vec![Step::PC, Step::TC, Step::R2]);
  }
  let mut order = Vec::new();
  while !chains.is_empty() {
    let i = c.pick(chains.len());
    let s = chains[i].remove(0);
    if chains[i].is_empty() {
      chains.remove(i);
    }
    let pause = [0u64, 0, 0, 30, 300, 2500][c.weighted(&[8, 4, 4, 4, 2, 1])];
    order.push((s, pause));
  }
  let mut seq = 0u32;
  let pre = (0..npre).map(|_| gen_item(c, keyed, &mut seq)).collect();
  let post = (0..npost).map(|_| gen_item(c, keyed, &mut seq)).collect();
  Config {
    keyed,
    writer_tl,
    reader_tl,
    three,
    order,
    pre,
    post,
    loss,
    dup,
    delete,
  }
}

fn qos(tl: bool) -> QosPolicies {
  QosPolicyBuilder::new()
    .reliability(policy::Reliability::Reliable {
      max_blocking_time: Duration::from_secs(5),
    })
    .history(policy::History::KeepAll)
    .durability(if tl {
      policy::Durability::TransientLocal
    } else {
      policy::Durability::Volatile
    })
    .build()
}

enum AnyWriter {
  Keyed(crate::dds::with_key::DataWriter<Live>),
  NoKey(crate::dds::no_key::DataWriter<Live>),
}

enum AnyReader {
  Keyed(crate::dds::with_key::DataReader<Live>),
  NoKey(crate::dds::no_key::DataReader<Live>),
}

impl AnyWriter {
  fn write(&self, it: &Item) -> Result<(), String> {
    match (self, it) {
      (AnyWriter::Keyed(w), Item::Value { key, seq, len }) => w
        .write(
          Live {
            key: *key,
            seq: *seq,
            blob: blob(*seq, *len),
          },
          None,
        )
        .map_err(|e| format!("write: {e:?}").chars().take(200).collect()),
      (AnyWriter::NoKey(w), Item::Value { key, seq, len }) => w
        .write(
          Live {
            key: *key,
            seq: *seq,
            blob: blob(*seq, *len),
          },
          None,
        )
        .map_err(|e| format!("write: {e:?}").chars().take(200).collect()),
      (AnyWriter::Keyed(w), Item::Dispose { key }) => w.dispose(key, None).map_err(|e| format!("dispose: {e:?}")),
      (AnyWriter::NoKey(_), Item::Dispose { .. }) => Ok(()),
    }
  }
  /// (current matched count, saw a negative change)
  fn poll_status(&self, current: &mut i32, unmatched: &mut u32) {
    loop {
      let st = match self {
        AnyWriter::Keyed(w) => w.try_recv_status(),
        AnyWriter::NoKey(w) => w.try_recv_status(),
      };
      match st {
        Some(DataWriterStatus::PublicationMatched { current: cur, .. }) => {
          *current = cur.count();
          if cur.count_change() < 0 {
            *unmatched += 1;
          }
        }
        Some(_) => {}
        None => break,
      }
    }
  }
}

impl AnyReader {
  fn poll_status(&self, current: &mut i32, unmatched: &mut u32) {
    loop {
      let st = match self {
        AnyReader::Keyed(r) => r.try_recv_status(),
        AnyReader::NoKey(r) => r.try_recv_status(),
      };
      match st {
        Some(DataReaderStatus::SubscriptionMatched { current: cur, .. }) => {
          *current = cur.count();
          if cur.count_change() < 0 {
            *unmatched += 1;
          }
        }
        Some(_) => {}
        None => break,
      }
    }
  }
  fn take_into(&mut self, got: &mut Vec<Result<Item, String>>) {
    use crate::dds::readcondition::ReadCondition;
    match self {
      AnyReader::Keyed(r) => {
        if let Ok(v) = r.take(1000, ReadCondition::any()) {
          for ds in v {
            got.push(match ds.into_value() {
              Sample::Value(l) => check_value(l),
              Sample::Dispose(k) => Ok(Item::Dispose { key: k }),
            });
          }
        }
      }
      AnyReader::NoKey(r) => {
        if let Ok(v) = r.take(1000, ReadCondition::any()) {
          for ds in v {
            got.push(check_value(ds.into_value()));
          }
        }
      }
    }
  }
}

fn check_value(l: Live) -> Result<Item, String> {
  if l.blob == blob(l.seq, l.blob.len()) {
    Ok(Item::Value {
      key: l.key,
      seq: l.seq,
      len: l.blob.len(),
    })
  } else {
    Err(format!("sample seq={} key={} arrived with an altered blob (len {})", l.seq, l.key, l.blob.len()))
  }
}

static CASE_NO: AtomicU32 = AtomicU32::new(0);

const MATCH_BOUND: StdDuration = StdDuration::from_secs(40);
const DELIVERY_BOUND: StdDuration = StdDuration::from_secs(40);
const UNMATCH_BOUND: StdDuration = StdDuration::from_secs(45);

struct DomainGuard(u16);
impl Drop for DomainGuard {
  fn drop(&mut self) {
    hooks::domain_fault_policy(self.0, 0, 0, 0);
  }
}

/// Calibration pair: before anything is judged, one fault-free pair of participants
/// in the simplest order must match and deliver. If not, this host cannot run live
/// participants (no usable interface / multicast) and the check is inconclusive
/// (harness error, exit 2), never a violation.
fn calibrate() {
  hooks::init_logging_from_env();
  static ONCE: std::sync::Once = std::sync::Once::new();
  ONCE.call_once(|| {
    let cfg = Config {
      keyed: true,
      writer_tl: false,
      reader_tl: [false, false],
      three: false,
      order: vec![(Step::PA, 0), (Step::PB, 0), (Step::TA, 0), (Step::TB, 0), (Step::R1, 0), (Step::W, 0), (Step::Pre, 0)],
      pre: vec![],
      post: vec![Item::Value { key: 1, seq: 1, len: 8 }],
      loss: 0,
      dup: 0,
      delete: Delete::Reader,
    };
    let mut o = Outcome::new();
    if let Err((clause, _, detail)) = attempt(&cfg, &[], &mut o) {
      // Only "cannot create participants / they never find each other" says something about the
      // host. Any other failure of this simplest pair is a failure of the code under test and
      // is left to the cases proper, which report it as a violation.
      if matches!(clause.as_str(), "c07.environment" | "c07.no-match" | "c07.api-error") {
        panic!("C07 environment: the fault-free calibration pair failed ({clause}: {detail}); live participants cannot be judged on this host");
      }
    }
  });
}

/// debugging aid: VERIF_C07_CFG="order=PB,PA,TA,W:300,TB:2500,Pre,R1 keyed=0 wtl=0 rtl=0 pre=0 post=1 loss=0 delete=Reader"
fn manual_config(spec: &str) -> Config {
  let mut cfg = Config {
    keyed: true,
    writer_tl: false,
    reader_tl: [false, false],
    three: false,
    order: vec![],
    pre: vec![],
    post: vec![],
    loss: 0,
    dup: 0,
    delete: Delete::Reader,
  };
  let mut npre = 0;
  let mut npost = 1;
  for kv in spec.split_whitespace() {
    let (k, v) = kv.split_once('=').unwrap_or((kv, ""));
    match k {
      "order" => {
        for st in v.split(',') {
          let (name, pause) = st.split_once(':').unwrap_or((st, "0"));
          let step = match name {
            "PA" => Step::PA,
            "TA" => Step::TA,
            "W" => Step::W,
            "Pre" => Step::Pre,
            "PB" => Step::PB,
            "TB" => Step::TB,
            "R1" => Step::R1,
            "PC" => Step::PC,
            "TC" => Step::TC,
            "R2" => Step::R2,
            other => panic!("C07 manual config: unknown step {other}"),
          };
          cfg.order.push((step, pause.parse().unwrap_or(0)));
        }
      }
      "keyed" => cfg.keyed = v == "1",
      "wtl" => cfg.writer_tl = v == "1",
      "rtl" => cfg.reader_tl = [v == "1", v == "1"],
      "pre" => npre = v.parse().unwrap_or(0),
      "post" => npost = v.parse().unwrap_or(1),
      "loss" => cfg.loss = v.parse().unwrap_or(0),
      "dup" => cfg.dup = v.parse().unwrap_or(0),
      "delete" => {
        cfg.delete = match v {
          "Writer" => Delete::Writer,
          "ReaderParticipant" => Delete::ReaderParticipant,
          "WriterParticipant" => Delete::WriterParticipant,
          _ => Delete::Reader,
        }
      }
      _ => {}
    }
  }
  cfg.three = cfg.order.iter().any(|(s, _)| *s == Step::R2);
  let mut seq = 0;
  for i in 0..npre + npost {
    seq += 1;
    let it = Item::Value { key: (i % 3) as u8, seq, len: 8 + i };
    if i < npre {
      cfg.pre.push(it);
    } else {
      cfg.post.push(it);
    }
  }
  cfg
}

pub fn run(_scenario: u32, choices: &[u8], strict: bool) -> Outcome {
  calibrate();
  let mut c = Choices::new(choices);
  let mut o = Outcome::new();
  let cfg = match std::env::var("VERIF_C07_CFG") {
    Ok(spec) if strict => manual_config(&spec),
    _ if _scenario == 9999 => manual_config(FIXED[usize::from(choices.first().copied().unwrap_or(0)) % FIXED.len()]),
    _ => gen_config(&mut c),
  };
  o.sample = format!("{cfg:?}");
  o.digest = fnv(o.sample.as_bytes());
  let first = attempt(&cfg, choices, &mut o);
  match first {
    Ok(()) => {}
    Err((clause, key, detail)) => {
      if clause == "c07.environment" {
        panic!("C07 environment: {detail}");
      }
      // run it again (the same seed loses the same logical datagrams): only a failure that
      // repeats in one of two further attempts is reported
      o.label("first-attempt-failed");
      let mut repeated: Option<Fail> = None;
      for _ in 0..2 {
        let mut o2 = Outcome::new();
        if let Err(e) = attempt(&cfg, choices, &mut o2) {
          repeated = Some(e);
          break;
        }
      }
      match repeated {
        None if !strict => {
          o.label("unconfirmed-failure");
          o.sample.push_str(&format!(" | unconfirmed: {clause} {detail}"));
        }
        None => o.violate(&clause, &key, format!("(first of three attempts; the others passed) {detail}")),
        Some((c2, k2, d2)) => o.violate(&c2, &k2, format!("{d2} | first attempt: {clause}: {detail}")),
      }
    }
  }
  o
}

type Fail = (String, String, String);

fn fail(clause: &str, key: &str, detail: String) -> Fail {
  (clause.to_string(), key.to_string(), detail)
}

fn attempt(cfg: &Config, choices: &[u8], o: &mut Outcome) -> Result<(), Fail> {
  let case_no = CASE_NO.fetch_add(1, Ordering::SeqCst);
  // a private domain per running case: 16 slots per process, spread by pid
  let domain = (20 + (std::process::id() % 9) as u16 * 20 + (case_no % 20) as u16) % 200;
  let topic_name = format!("c07_{}_{}", std::process::id(), case_no);
  let _dg = DomainGuard(domain);
  hooks::domain_fault_policy(domain, cfg.loss, cfg.dup, fnv(choices) | 1);

  let mut pa: Option<DomainParticipant> = None;
  let mut pb: Option<DomainParticipant> = None;
  let mut pc: Option<DomainParticipant> = None;
  let mut ta: Option<Topic> = None;
  let mut tb: Option<Topic> = None;
  let mut tc: Option<Topic> = None;
  let mut w: Option<AnyWriter> = None;
  let mut readers: [Option<AnyReader>; 2] = [None, None];
  let mut pre_before_reader: [usize; 2] = [0, 0]; // how many early items were written before reader i existed
  let kind = if cfg.keyed { TopicKind::WithKey } else { TopicKind::NoKey };
  let mk_topic = |dp: &DomainParticipant| -> Result<Topic, Fail> {
    dp.create_topic(topic_name.clone(), "Live".to_string(), &QosPolicies::qos_none(), kind)
      .map_err(|e| fail("c07.api-error", "create_topic", format!("{e:?}")))
  };
  let new_dp = || -> Result<DomainParticipant, Fail> {
    DomainParticipant::new(domain).map_err(|e| fail("c07.environment", "participant", format!("DomainParticipant::new({domain}): {e:?}")))
  };
  let mut pre_written = false;
  let mut reader_created = [false, false];
  for (step, pause) in &cfg.order {
    if *pause > 0 {
      std::thread::sleep(StdDuration::from_millis(*pause));
    }
    match step {
      Step::PA => pa = Some(new_dp()?),
      Step::PB => pb = Some(new_dp()?),
      Step::PC => pc = Some(new_dp()?),
      Step::TA => ta = Some(mk_topic(pa.as_ref().unwrap())?),
      Step::TB => tb = Some(mk_topic(pb.as_ref().unwrap())?),
      Step::TC => tc = Some(mk_topic(pc.as_ref().unwrap())?),
      Step::W => {
        let publisher = pa
          .as_ref()
          .unwrap()
          .create_publisher(&QosPolicies::qos_none())
          .map_err(|e| fail("c07.api-error", "create_publisher", format!("{e:?}")))?;
        let q = qos(cfg.writer_tl);
        w = Some(if cfg.keyed {
          AnyWriter::Keyed(
            publisher
              .create_datawriter_cdr::<Live>(ta.as_ref().unwrap(), Some(q))
              .map_err(|e| fail("c07.api-error", "create_datawriter", format!("{e:?}")))?,
          )
        } else {
          AnyWriter::NoKey(
            publisher
              .create_datawriter_no_key_cdr::<Live>(ta.as_ref().unwrap(), Some(q))
              .map_err(|e| fail("c07.api-error", "create_datawriter", format!("{e:?}")))?,
          )
        });
      }
      Step::Pre => {
        for it in &cfg.pre {
          w.as_ref().unwrap().write(it).map_err(|e| fail("c07.api-error", "write", e))?;
        }
        pre_written = true;
      }
      Step::R1 | Step::R2 => {
        let i = usize::from(*step == Step::R2);
        let (dp, t) = if i == 0 { (pb.as_ref().unwrap(), tb.as_ref().unwrap()) } else { (pc.as_ref().unwrap(), tc.as_ref().unwrap()) };
        let subscriber = dp
          .create_subscriber(&QosPolicies::qos_none())
          .map_err(|e| fail("c07.api-error", "create_subscriber", format!("{e:?}")))?;
        let q = qos(cfg.reader_tl[i]);
        readers[i] = Some(if cfg.keyed {
          AnyReader::Keyed(
            subscriber
              .create_datareader_cdr::<Live>(t, Some(q))
              .map_err(|e| fail("c07.api-error", "create_datareader", format!("{e:?}")))?,
          )
        } else {
          AnyReader::NoKey(
            subscriber
              .create_datareader_no_key_cdr::<Live>(t, Some(q))
              .map_err(|e| fail("c07.api-error", "create_datareader", format!("{e:?}")))?,
          )
        });
        reader_created[i] = true;
        if pre_written {
          pre_before_reader[i] = cfg.pre.len();
        }
      }
    }
  }
  let nreaders = if cfg.three { 2 } else { 1 };
  let w = w.unwrap();

  // ---- 1. everybody matches within the bound
  let t0 = Instant::now();
  let mut wcur = 0i32;
  let mut wun = 0u32;
  let mut rcur = [0i32; 2];
  let mut run_ = [0u32; 2];
  loop {
    w.poll_status(&mut wcur, &mut wun);
    for i in 0..nreaders {
      readers[i].as_ref().unwrap().poll_status(&mut rcur[i], &mut run_[i]);
    }
    if wcur == nreaders as i32 && (0..nreaders).all(|i| rcur[i] == 1) {
      break;
    }
    if t0.elapsed() > MATCH_BOUND {
      return Err(fail(
        "c07.no-match",
        if cfg.loss > 0 { "under-loss" } else { "no-loss" },
        format!("after {MATCH_BOUND:?}: writer sees {wcur} of {nreaders} readers, readers see {:?} writers (order {:?})", &rcur[..nreaders], cfg.order),
      ));
    }
    std::thread::sleep(StdDuration::from_millis(5));
  }
  let match_ms = t0.elapsed().as_millis();
  o.label(match match_ms {
    0..=99 => "match<100ms",
    100..=999 => "match<1s",
    1000..=4999 => "match<5s",
    _ => "match>=5s",
  });

  // ---- 2. later traffic
  for it in &cfg.post {
    w.write(it).map_err(|e| fail("c07.api-error", "write", e))?;
  }
  let post: Vec<Item> = cfg.post.iter().filter(|it| cfg.keyed || matches!(it, Item::Value { .. })).cloned().collect();
  let pre: Vec<Item> = cfg.pre.iter().filter(|it| cfg.keyed || matches!(it, Item::Value { .. })).cloned().collect();
  let t1 = Instant::now();
  let mut got: [Vec<Result<Item, String>>; 2] = [Vec::new(), Vec::new()];
  let mut settled_since: Option<Instant> = None;
  loop {
    for i in 0..nreaders {
      readers[i].as_mut().unwrap().take_into(&mut got[i]);
      if let Some(Err(e)) = got[i].iter().find(|g| g.is_err()) {
        return Err(fail("c07.altered", "blob", format!("reader {i}: {e}")));
      }
    }
    let all_have_tail = (0..nreaders).all(|i| {
      let g: Vec<&Item> = got[i].iter().filter_map(|x| x.as_ref().ok()).collect();
      g.len() >= post.len() && g[g.len() - post.len()..].iter().zip(&post).all(|(a, b)| *a == b) && (!cfg.reader_tl[i] || g.len() >= pre.len() + post.len())
    });
    if all_have_tail {
      // let stragglers (duplicates, forbidden early samples) show up
      let s = *settled_since.get_or_insert_with(Instant::now);
      if s.elapsed() > StdDuration::from_millis(150) {
        break;
      }
    } else {
      settled_since = None;
    }
    if t1.elapsed() > DELIVERY_BOUND {
      break;
    }
    std::thread::sleep(StdDuration::from_millis(5));
  }
  for i in 0..nreaders {
    let g: Vec<Item> = got[i].iter().filter_map(|x| x.clone().ok()).collect();
    let early_seen = pre_before_reader[i];
    // items of the early batch that this reader is allowed / required to get
    let expect_all: Vec<Item> = pre.iter().chain(post.iter()).cloned().collect();
    if cfg.reader_tl[i] {
      if g != expect_all {
        return Err(fail(
          if g.len() < expect_all.len() { "c07.incomplete" } else { "c07.wrong-sequence" },
          "transient-local",
          format!("TransientLocal reader {i} took {} samples {:?}, expected the retained history and the later samples {:?}", g.len(), brief(&g), brief(&expect_all)),
        ));
      }
    } else {
      // Volatile: a suffix of the early batch (only items written after the reader
      // existed) followed by all later samples
      if g.len() < post.len() || g[g.len() - post.len()..] != post[..] {
        return Err(fail(
          if g.len() < post.len() { "c07.incomplete" } else { "c07.wrong-sequence" },
          "volatile",
          format!("Volatile reader {i} took {:?}, expected (some early samples and then) {:?}", brief(&g), brief(&post)),
        ));
      }
      let head = &g[..g.len() - post.len()];
      let allowed_from = if early_seen > 0 { pre.len() } else { 0 }; // early batch entirely before the reader existed -> nothing allowed
      let allowed = &pre[allowed_from.min(pre.len())..];
      if head.len() > allowed.len() || allowed[allowed.len() - head.len()..] != head[..] {
        return Err(fail(
          "c07.volatile-got-history",
          if early_seen > 0 { "written-before-reader-existed" } else { "not-a-suffix" },
          format!("Volatile reader {i} took {:?} before the later samples; early batch {:?} (written before the reader existed: {})", brief(head), brief(&pre), early_seen > 0),
        ));
      }
    }
  }
  if !pre.is_empty() {
    o.label(if cfg.writer_tl { "late-joiner-transient-local" } else { "late-joiner-volatile" });
  }

  // ---- 3. deletion is observed as an unmatch
  let mut readers = readers;
  let t2 = Instant::now();
  enum Watch {
    Writer,
    Readers,
  }
  let watch = match cfg.delete {
    Delete::Reader => {
      readers[0] = None;
      Watch::Writer
    }
    Delete::ReaderParticipant => {
      readers[0] = None;
      tb = None;
      pb = None;
      Watch::Writer
    }
    Delete::Writer => Watch::Readers,
    Delete::WriterParticipant => Watch::Readers,
  };
  let mut w = Some(w);
  if matches!(watch, Watch::Readers) {
    w = None;
    if cfg.delete == Delete::WriterParticipant {
      ta = None;
      pa = None;
    }
  }
  loop {
    let done = match watch {
      Watch::Writer => {
        w.as_ref().unwrap().poll_status(&mut wcur, &mut wun);
        wun >= 1 && wcur == nreaders as i32 - 1
      }
      Watch::Readers => {
        for i in 0..nreaders {
          readers[i].as_ref().unwrap().poll_status(&mut rcur[i], &mut run_[i]);
        }
        (0..nreaders).all(|i| run_[i] >= 1 && rcur[i] == 0)
      }
    };
    if done {
      break;
    }
    if t2.elapsed() > UNMATCH_BOUND {
      return Err(fail(
        "c07.no-unmatch",
        &format!("{:?}", cfg.delete),
        format!("{UNMATCH_BOUND:?} after deleting {:?}: writer current={wcur} (unmatch events {wun}), readers current={:?} (unmatch events {:?})", cfg.delete, &rcur[..nreaders], &run_[..nreaders]),
      ));
    }
    std::thread::sleep(StdDuration::from_millis(5));
  }
  o.label(match t2.elapsed().as_millis() {
    0..=999 => "unmatch<1s",
    1000..=4999 => "unmatch<5s",
    _ => "unmatch>=5s(lease)",
  });
  // ---- 4. what is created after the deletion matches what still exists, not what was deleted
  // (the deleted endpoint's participant is still there; only its own record must be gone)
  const HOLD: StdDuration = StdDuration::from_millis(1500);
  match cfg.delete {
    Delete::Reader => {
      let publisher = pa
        .as_ref()
        .unwrap()
        .create_publisher(&QosPolicies::qos_none())
        .map_err(|e| fail("c07.api-error", "create_publisher", format!("{e:?}")))?;
      let q = qos(cfg.writer_tl);
      let w2 = if cfg.keyed {
        AnyWriter::Keyed(
          publisher
            .create_datawriter_cdr::<Live>(ta.as_ref().unwrap(), Some(q))
            .map_err(|e| fail("c07.api-error", "create_datawriter", format!("{e:?}")))?,
        )
      } else {
        AnyWriter::NoKey(
          publisher
            .create_datawriter_no_key_cdr::<Live>(ta.as_ref().unwrap(), Some(q))
            .map_err(|e| fail("c07.api-error", "create_datawriter", format!("{e:?}")))?,
        )
      };
      let still = nreaders as i32 - 1;
      let (mut cur, mut un, mut max_seen) = (0i32, 0u32, 0i32);
      let t3 = Instant::now();
      while t3.elapsed() < HOLD {
        w2.poll_status(&mut cur, &mut un);
        max_seen = max_seen.max(cur);
        std::thread::sleep(StdDuration::from_millis(5));
      }
      if max_seen > still {
        return Err(fail(
          "c07.matched-deleted",
          "writer-created-after-reader-was-deleted",
          format!("a writer created after reader 0 had been deleted (and the deletion observed) reports {max_seen} matched readers within {HOLD:?}; only {still} reader(s) still exist"),
        ));
      }
      o.label("late-writer-after-reader-deletion");
      drop(w2);
    }
    Delete::Writer if reader_created[0] => {
      let subscriber = pb
        .as_ref()
        .unwrap()
        .create_subscriber(&QosPolicies::qos_none())
        .map_err(|e| fail("c07.api-error", "create_subscriber", format!("{e:?}")))?;
      let q = qos(cfg.reader_tl[0]);
      let r3 = if cfg.keyed {
        AnyReader::Keyed(
          subscriber
            .create_datareader_cdr::<Live>(tb.as_ref().unwrap(), Some(q))
            .map_err(|e| fail("c07.api-error", "create_datareader", format!("{e:?}")))?,
        )
      } else {
        AnyReader::NoKey(
          subscriber
            .create_datareader_no_key_cdr::<Live>(tb.as_ref().unwrap(), Some(q))
            .map_err(|e| fail("c07.api-error", "create_datareader", format!("{e:?}")))?,
        )
      };
      let (mut cur, mut un, mut max_seen) = (0i32, 0u32, 0i32);
      let t3 = Instant::now();
      while t3.elapsed() < HOLD {
        r3.poll_status(&mut cur, &mut un);
        max_seen = max_seen.max(cur);
        std::thread::sleep(StdDuration::from_millis(5));
      }
      if max_seen > 0 {
        return Err(fail(
          "c07.matched-deleted",
          "reader-created-after-writer-was-deleted",
          format!("a reader created after the writer had been deleted (and the deletion observed) reports {max_seen} matched writers within {HOLD:?}; no writer exists"),
        ));
      }
      o.label("late-reader-after-writer-deletion");
      drop(r3);
    }
    _ => {}
  }
  drop(readers);
  drop(w);
  drop((ta, tb, tc));
  drop((pa, pb, pc));

  // ---- labels
  o.label(if cfg.keyed { "with_key" } else { "no_key" });
  o.label(if cfg.three { "three-participants" } else { "two-participants" });
  if cfg.loss > 0 {
    o.label("loss");
  }
  if cfg.dup > 0 {
    o.label("duplication");
  }
  let frag = cfg.pre.iter().chain(cfg.post.iter()).any(|it| matches!(it, Item::Value { len, .. } if len + OVERHEAD > 1024));
  if frag {
    o.label("fragmented");
  }
  let writer_pos = cfg.order.iter().position(|(s, _)| *s == Step::W).unwrap();
  let writer_last = cfg.order.iter().skip(writer_pos + 1).all(|(s, _)| *s == Step::Pre);
  o.label(if writer_last { "writer-created-last" } else { "reader-created-after-writer" });
  o.label(match cfg.delete {
    Delete::Reader => "delete-reader",
    Delete::Writer => "delete-writer",
    Delete::ReaderParticipant => "delete-reader-participant",
    Delete::WriterParticipant => "delete-writer-participant",
  });
  if cfg.post.iter().chain(cfg.pre.iter()).any(|i| matches!(i, Item::Dispose { .. })) && cfg.keyed {
    o.label("dispose");
  }
  o.nontrivial = !writer_last || cfg.loss > 0 || frag || !pre.is_empty();
  Ok(())
}

fn brief(v: &[Item]) -> Vec<String> {
  v.iter()
    .map(|i| match i {
      Item::Value { key, seq, len } => format!("v{seq}k{key}/{len}"),
      Item::Dispose { key } => format!("d{key}"),
    })
    .collect()
}

//! Helpers shared by C11, C12 and C15: constructors for discovery data.

use chrono::Utc;

use super::rig;
use crate::{
  dds::qos::QosPolicies,
  discovery::{
    builtin_endpoint::BuiltinEndpointSet,
    sedp_messages::{
      DiscoveredReaderData, DiscoveredWriterData, PublicationBuiltinTopicData, ReaderProxy,
      SubscriptionBuiltinTopicData, WriterProxy,
    },
    spdp_participant_data::SpdpDiscoveredParticipantData,
  },
  messages::{protocol_version::ProtocolVersion, vendor_id::VendorId},
  structure::{
    duration::Duration,
    guid::{EntityId, GuidPrefix, GUID},
    locator::Locator,
  },
};

pub fn participant_data(prefix: GuidPrefix, node: u8, lease: Option<Duration>) -> SpdpDiscoveredParticipantData {
  SpdpDiscoveredParticipantData {
    updated_time: Utc::now(),
    protocol_version: ProtocolVersion::PROTOCOLVERSION_2_3,
    vendor_id: VendorId::THIS_IMPLEMENTATION,
    expects_inline_qos: false,
    participant_guid: GUID::new(prefix, EntityId::PARTICIPANT),
    metatraffic_unicast_locators: vec![rig::node_locator(node)],
    metatraffic_multicast_locators: vec![],
    default_unicast_locators: vec![rig::node_locator(node)],
    default_multicast_locators: vec![],
    available_builtin_endpoints: BuiltinEndpointSet::from_u32(0x0000_0c3f),
    lease_duration: lease,
    manual_liveliness_count: 0,
    builtin_endpoint_qos: None,
    entity_name: None,
    #[cfg(feature = "security")]
    identity_token: None,
    #[cfg(feature = "security")]
    permissions_token: None,
    #[cfg(feature = "security")]
    property: None,
    #[cfg(feature = "security")]
    security_info: None,
  }
}

pub fn reader_data(guid: GUID, topic: &str, qos: &QosPolicies, locators: Vec<Locator>) -> DiscoveredReaderData {
  DiscoveredReaderData {
    reader_proxy: ReaderProxy::new(guid, false, locators, vec![]),
    subscription_topic_data: SubscriptionBuiltinTopicData::new(
      guid,
      Some(GUID::new(guid.prefix, EntityId::PARTICIPANT)),
      topic.to_string(),
      "RigType".to_string(),
      qos,
      None,
    ),
    content_filter: None,
  }
}

pub fn writer_data(guid: GUID, topic: &str, qos: &QosPolicies, locators: Vec<Locator>) -> DiscoveredWriterData {
  let mut wp = WriterProxy::new(guid, vec![], locators);
  wp.data_max_size_serialized = None;
  DiscoveredWriterData {
    last_updated: std::time::Instant::now(),
    writer_proxy: wp,
    publication_topic_data: PublicationBuiltinTopicData::new_with_qos(
      guid,
      Some(GUID::new(guid.prefix, EntityId::PARTICIPANT)),
      topic.to_string(),
      "RigType".to_string(),
      qos,
      None,
    ),
  }
}

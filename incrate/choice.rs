//! Choice stream: every random decision of a generator is decoded from bytes.
//!
//! Conventions: all-zero bytes decode to the simplest case; an exhausted stream
//! yields zeros; indices are mapped monotonically (lowering a byte never makes
//! the decoded value larger), so byte-level shrinking shrinks the case.

pub struct Choices<'a> {
  data: &'a [u8],
  pos: usize,
}

impl<'a> Choices<'a> {
  pub fn new(data: &'a [u8]) -> Self {
    Choices { data, pos: 0 }
  }

  pub fn exhausted(&self) -> bool {
    self.pos >= self.data.len()
  }

  pub fn consumed(&self) -> usize {
    self.pos
  }

  pub fn byte(&mut self) -> u8 {
    let b = self.data.get(self.pos).copied().unwrap_or(0);
    self.pos += 1;
    b
  }

  pub fn u16(&mut self) -> u16 {
    (u16::from(self.byte()) << 8) | u16::from(self.byte())
  }

  pub fn u32(&mut self) -> u32 {
    (u32::from(self.u16()) << 16) | u32::from(self.u16())
  }

  pub fn u64(&mut self) -> u64 {
    (u64::from(self.u32()) << 32) | u64::from(self.u32())
  }

  /// uniform-ish index in 0..n (n >= 1), monotone in the byte(s) consumed
  pub fn pick(&mut self, n: usize) -> usize {
    debug_assert!(n >= 1);
    if n <= 1 {
      return 0;
    }
    if n <= 256 {
      (usize::from(self.byte()) * n) >> 8
    } else {
      ((self.u16() as usize) * n) >> 16
    }
  }

  /// integer in lo..=hi
  pub fn int_in(&mut self, lo: i64, hi: i64) -> i64 {
    debug_assert!(lo <= hi);
    let span = (hi - lo) as u64 + 1;
    if span <= 256 {
      lo + ((u64::from(self.byte()) * span) >> 8) as i64
    } else if span <= 65536 {
      lo + ((u64::from(self.u16()) * span) >> 16) as i64
    } else {
      let r = self.u64();
      lo + ((u128::from(r) * u128::from(span)) >> 64) as i64
    }
  }

  pub fn usize_in(&mut self, lo: usize, hi: usize) -> usize {
    self.int_in(lo as i64, hi as i64) as usize
  }

  /// true with probability num/256; zero byte => false
  pub fn chance(&mut self, num: u32) -> bool {
    let b = u32::from(self.byte());
    b >= 256 - num.min(256)
  }

  pub fn bool(&mut self) -> bool {
    self.byte() >= 128
  }

  /// weighted pick; first alternative is the "simplest"
  pub fn weighted(&mut self, weights: &[u32]) -> usize {
    let total: u32 = weights.iter().sum();
    let x = (u32::from(self.byte()) * total) >> 8;
    let mut acc = 0;
    for (i, w) in weights.iter().enumerate() {
      acc += *w;
      if x < acc {
        return i;
      }
    }
    weights.len() - 1
  }

  pub fn from_pool<T: Clone>(&mut self, pool: &[T]) -> T {
    pool[self.pick(pool.len())].clone()
  }

  pub fn bytes(&mut self, n: usize) -> Vec<u8> {
    (0..n).map(|_| self.byte()).collect()
  }

  /// A permutation of 0..n (Fisher-Yates driven by the stream; zeros = identity)
  pub fn permutation(&mut self, n: usize) -> Vec<usize> {
    let mut v: Vec<usize> = (0..n).collect();
    for i in 0..n {
      let j = i + self.pick(n - i);
      v.swap(i, j);
    }
    v
  }
}

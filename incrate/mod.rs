//! In-crate verification drivers for RustDDS.
//!
//! This module tree lives in /verif/incrate and is compiled *into* the rustdds
//! crate through one guarded line in /repo/src/lib.rs
//! (`#[cfg(rustdds_verif)] #[path = "/verif/incrate/mod.rs"] pub mod verif;`),
//! so that the drivers can reach `pub(crate)` items.  Nothing here is compiled
//! when the guard is off.
//!
//! Every driver has the shape `fn(scenario, choices, strict) -> Outcome`; the
//! engine crate (/verif/harness) and the fuzz targets (/verif/fuzz) feed byte
//! "choice streams" to it.
#![allow(dead_code)]
#![allow(clippy::all)]
#![allow(unused_imports)]

pub mod choice;
pub mod hooks;

pub mod wire;
pub mod rig;
pub mod frontend;
pub mod rscript;
pub mod wscript;
pub mod discovery_rig;
pub mod sched;

pub mod c01_reader;
pub mod c02_converge;
pub mod c03_acknack;
pub mod c04_writer;
pub mod c05_frag;
pub mod c06_hostile;
pub mod c07_live;
pub mod c08_nokey;
pub mod c08_readtake;
pub mod c09_badchange;
pub mod c10_qos;
pub mod c11_matching;
pub mod c12_lease;
pub mod c13_wakeup;
pub mod c14_msg;
pub mod c15_discovery_wire;
#[cfg(feature = "security")]
pub mod c16_crypto;
#[cfg(feature = "security")]
pub mod sec_stubs;
#[cfg(feature = "security")]
pub mod c17_gate;
#[cfg(feature = "security")]
pub mod c18_access;
#[cfg(feature = "security")]
pub mod c19_auth;
pub mod c20_waitack;

use std::fmt::Write as _;

pub use choice::Choices;

#[derive(Debug, Clone, PartialEq, Eq)]
pub enum Verdict {
  Pass,
  /// `clause` is a stable id of the violated oracle clause, `key` is a
  /// clause-specific discriminator computed from the case (used for
  /// known-finding signatures), `detail` is for humans.
  Violation {
    clause: String,
    key: String,
    detail: String,
  },
  Discard(String),
}

#[derive(Debug, Clone)]
pub struct Outcome {
  pub verdict: Verdict,
  pub labels: Vec<&'static str>,
  pub nontrivial: bool,
  pub digest: u64,
  pub sample: String,
  /// how many generator decisions were redirected by a known-finding exclusion
  pub excluded: u32,
}

impl Outcome {
  pub fn new() -> Self {
    Outcome {
      verdict: Verdict::Pass,
      labels: Vec::new(),
      nontrivial: false,
      digest: 0,
      sample: String::new(),
      excluded: 0,
    }
  }
  pub fn label(&mut self, l: &'static str) {
    if !self.labels.contains(&l) {
      self.labels.push(l);
    }
  }
  pub fn violate(&mut self, clause: &str, key: &str, detail: String) {
    if self.verdict == Verdict::Pass {
      self.verdict = Verdict::Violation {
        clause: clause.to_string(),
        key: key.to_string(),
        detail,
      };
    }
  }
  pub fn is_violation(&self) -> bool {
    matches!(self.verdict, Verdict::Violation { .. })
  }
}

/// FNV-1a, used for case digests (no HashMap iteration, no RandomState).
pub fn fnv(data: &[u8]) -> u64 {
  let mut h: u64 = 0xcbf29ce484222325;
  for b in data {
    h ^= u64::from(*b);
    h = h.wrapping_mul(0x100000001b3);
  }
  h
}

pub fn hex(b: &[u8]) -> String {
  let mut s = String::with_capacity(b.len() * 2);
  for x in b {
    let _ = write!(s, "{x:02x}");
  }
  s
}

#[derive(Clone, Copy)]
pub struct Scenario {
  pub id: u32,
  pub name: &'static str,
  /// fixed work per tier (number of generated cases)
  pub quick: u32,
  pub thorough: u32,
  /// maximum choice stream length
  pub max_len: usize,
  /// run cases of this scenario on that many threads at most (0 = all cores)
  pub max_threads: usize,
}

pub struct Property {
  pub id: &'static str,
  pub level: &'static str,
  pub rule: &'static str,
  pub assumptions: &'static [&'static str],
  pub scenarios: &'static [Scenario],
  pub run: fn(u32, &[u8], bool) -> Outcome,
  /// optional deterministic enumeration run in the thorough tier (and a small
  /// slice of it in quick): returns (cases, nontrivial, first violation)
  pub exhaustive: Option<fn(bool) -> ExhaustiveReport>,
}

pub struct ExhaustiveReport {
  pub name: &'static str,
  pub cases: u64,
  pub nontrivial: u64,
  pub complete: bool,
  pub violation: Option<(Vec<u8>, u32, Outcome)>,
  pub samples: Vec<String>,
}

pub fn registry() -> Vec<Property> {
  let mut v = Vec::new();
  v.push(c01_reader::property());
  v.push(c02_converge::property());
  v.push(c03_acknack::property());
  v.push(c04_writer::property());
  v.push(c05_frag::property());
  v.push(c06_hostile::property());
  v.push(c07_live::property());
  v.push(c08_readtake::property());
  v.push(c09_badchange::property());
  v.push(c10_qos::property());
  v.push(c11_matching::property());
  v.push(c12_lease::property());
  v.push(c13_wakeup::property());
  v.push(c14_msg::property());
  v.push(c15_discovery_wire::property());
  #[cfg(feature = "security")]
  v.push(c16_crypto::property());
  #[cfg(feature = "security")]
  v.push(c17_gate::property());
  #[cfg(feature = "security")]
  v.push(c18_access::property());
  #[cfg(feature = "security")]
  v.push(c19_auth::property());
  v.push(c20_waitack::property());
  v
}

//! C08 — read/take honour DDS sample, view and instance semantics and History depth.
//!
//! A real with_key DataReader (built on a rig reader's topic cache) receives a
//! generated history of values / disposes on several instances from several
//! writers, interleaved with every access call of the public API. A reference
//! model written from DDS 1.4 section 2.2.2.5.1 predicts every result.

use std::collections::{BTreeMap, BTreeSet};

use bytes::Bytes;

use super::{
  fnv,
  frontend::{self, Raw, RawAdapter},
  hooks,
  rig::{self, CaseGuard, Node},
  Choices, Outcome, Property, Scenario, Verdict,
};
use crate::{
  dds::{
    ddsdata::DDSData,
    key::Key,
    qos::{policy, QosPolicyBuilder},
    readcondition::ReadCondition,
    sampleinfo::{InstanceState, SampleInfo, SampleState, ViewState},
    with_key::{
      datareader::{DataReader, SelectByKey},
      datasample::Sample,
      datawriter::WriteOptions,
    },
  },
  messages::submessages::elements::serialized_payload::SerializedPayload,
  structure::{
    cache_change::{CacheChange, ChangeKind},
    duration::Duration,
    guid::GUID,
    sequence_number::SequenceNumber,
    time::Timestamp,
  },
  RepresentationIdentifier,
};

pub fn property() -> Property {
  Property {
    id: "C08",
    level: "exploration",
    rule: "histories of 5-60 operations on a real with_key DataReader: arrival of a value / \
           dispose-by-key / dispose-by-key-hash on one of 1-4 instances from one of 1-3 writers \
           (placed in the topic cache as the RTPS Reader does), and read / take (max 0,1,2,all; \
           condition any or not_read), read_next_sample / take_next_sample, read_instance / \
           take_instance with This / Next and present, absent or unknown keys, the four iterators; \
           History none / KeepLast(1..4) / KeepAll (+- max_samples_per_instance); reliable or \
           best-effort. Non-trivial = (>= 2 instances or a dispose/rebirth) and >= 2 access calls \
           with an arrival in between. Distinct = distinct decoded histories. Scenario 1: the \
           no_key DataReader (read / take / *_next_sample / the four iterators) and a with_key \
           DataReader receive the same values of 1-3 writers on one instance and must answer every \
           call alike (values, identities, states, counts); non-trivial = >= 2 access calls with \
           an arrival in between and a non-empty result.",
    assumptions: &[
      "sample_rank / generation_rank / absolute_generation_rank are not part of the property and are not asserted",
      "view state is asserted on the most recent sample of each instance in a result, and only where the two defensible readings of the DDS text agree (per-instance flag cleared by any access and set by rebirth, vs generation of the last accessed sample); disagreements are counted under label view-ambiguous",
      "with several writers on a reliable reader a read(0) (public no-op access) forces ingestion after each arrival, because DDS promises no cross-writer order",
      "KeepLast(depth) (or max_samples_per_instance under KeepAll): available = not yet taken and among the depth most recent changes of the instance, where changes already taken still count as recent - the statement's wording and what the implementation does",
      "'most recent' is by reception time (the caches are keyed by receive timestamp), also when a sequence number was overtaken by its successor on the network",
      "which samples a truncated (max_samples) call returns is not prescribed: the model follows the identities actually returned, but checks their number and that each matches the condition",
    ],
    scenarios: &[Scenario {
      id: 0,
      name: "access calls vs reference model",
      quick: 6_000,
      thorough: 8_000_000,
      max_len: 400,
      max_threads: 0,
    }, Scenario {
      id: 1,
      name: "no_key DataReader vs the with_key DataReader on the same single-instance history (differential)",
      quick: 3_000,
      thorough: 2_000_000,
      max_len: 300,
      max_threads: 0,
    }],
    run,
    exhaustive: None,
  }
}

#[derive(Clone, Debug)]
struct MSample {
  writer: usize,
  sn: i64,
  /// None = dispose
  value: Option<Vec<u8>>,
  gen: i32,
  read: bool,
  order: u64,
  /// taken samples stay in the per-instance list of recent changes (History
  /// KeepLast keeps the `depth` most recent changes of the instance, whether the
  /// application has taken them or not; what was taken is simply gone)
  taken: bool,
}

#[derive(Default)]
struct MInstance {
  alive: bool,
  dgc: i32,
  samples: Vec<MSample>,
  /// reading A: instance-level NEW flag
  view_new: bool,
  /// reading B: generation of the last accessed sample (-1 = never)
  b_last: i32,
  ever: bool,
}

#[derive(Clone, Debug)]
enum Op {
  Value { w: usize, key: u8 },
  DisposeKey { w: usize, key: u8 },
  DisposeHash { w: usize, key: u8 },
  Read { max: usize, not_read: bool },
  Take { max: usize, not_read: bool },
  ReadNext,
  TakeNext,
  ReadInstance { max: usize, not_read: bool, key: Option<u8>, next: bool },
  TakeInstance { max: usize, not_read: bool, key: Option<u8>, next: bool },
  Iter { take: bool, conditional_any: Option<bool> },
}

struct Returned {
  key: u8,
  value: Option<Vec<u8>>,
  info: Option<SampleInfo>,
}

fn value_bytes(key: u8, w: usize, sn: i64) -> Vec<u8> {
  vec![key, w as u8, sn as u8, (sn >> 8) as u8, 0xEE, key ^ 0x5a]
}

pub fn run(scenario: u32, choices: &[u8], _strict: bool) -> Outcome {
  if scenario == 1 {
    let r = super::c08_nokey::run(choices);
    // (every reader created and dropped leaves commands in the rig's private discovery channel;
    // undrained, it fills up after about a million cases and the next send blocks for ever -
    // seen as a watchdog exit 2 in a thorough run)
    frontend::drain_discovery_commands();
    return r;
  }
  let mut c = Choices::new(choices);
  let mut o = Outcome::new();
  let _guard = CaseGuard::new();

  // ---------------------------------------------------------------- configuration
  let reliable = c.bool();
  let (history, depth): (Option<policy::History>, Option<usize>) = match c.pick(4) {
    0 => (None, Some(1)),
    1 => (Some(policy::History::KeepAll), None),
    _ => {
      let d = c.int_in(1, 4) as i32;
      (Some(policy::History::KeepLast { depth: d }), Some(d as usize))
    }
  };
  let msi: Option<usize> = if matches!(history, Some(policy::History::KeepAll)) && c.chance(80) {
    Some(c.usize_in(1, 3))
  } else if !matches!(history, Some(policy::History::KeepAll)) && c.chance(60) {
    // KeepLast(depth) (or the default) together with a ROOMIER max_samples_per_instance: the
    // depth still bounds what remains available
    Some(depth.unwrap_or(1) + c.usize_in(1, 4))
  } else {
    None
  };
  let keep: Option<usize> = depth.or(msi);
  let nwriters = 1 + c.weighted(&[5, 3, 2]);
  let ninst = 1 + c.pick(4);
  let mut qb = QosPolicyBuilder::new();
  qb = if reliable {
    qb.reliability(policy::Reliability::Reliable {
      max_blocking_time: Duration::from_millis(100),
    })
  } else {
    qb.reliability(policy::Reliability::BestEffort)
  };
  if let Some(h) = history {
    qb = qb.history(h);
  }
  if let Some(m) = msi {
    qb = qb.resource_limits(policy::ResourceLimits {
      max_samples: 10_000,
      max_instances: 10_000,
      max_samples_per_instance: m as i32,
    });
  }
  let qos = qb.build();
  let mut node = Node::new(0);
  let ri = node.add_reader(rig::user_reader_eid(1, true), "rig_topic", &qos);
  let tc = node.readers[ri].topic_cache.clone();
  let mut dr: DataReader<Raw, RawAdapter> = frontend::data_reader::<Raw, RawAdapter>(&mut node.readers[ri]);
  let wguids: Vec<GUID> = (0..nwriters)
    .map(|i| GUID::new(rig::node_prefix(40 + i as u8), rig::user_writer_eid(1, true)))
    .collect();
  o.label(if reliable { "reliable" } else { "best-effort" });

  // ---------------------------------------------------------------- history
  let nops = c.usize_in(5, 60);
  let mut ops = Vec::new();
  let gen_max = |c: &mut Choices| [0usize, 1, 2, usize::MAX, usize::MAX][c.pick(5)];
  for _ in 0..nops {
    let w = c.pick(nwriters);
    let key = c.pick(ninst) as u8;
    let key_sel = |c: &mut Choices| match c.pick(5) {
      0 => None,
      1 => Some(9u8), // never used as instance key
      _ => Some(c.pick(ninst + 1) as u8),
    };
    ops.push(match c.weighted(&[14, 4, 2, 4, 5, 2, 2, 3, 3, 3]) {
      0 => Op::Value { w, key },
      1 => Op::DisposeKey { w, key },
      2 => Op::DisposeHash { w, key },
      3 => Op::Read { max: gen_max(&mut c), not_read: c.bool() },
      4 => Op::Take { max: gen_max(&mut c), not_read: c.bool() },
      5 => Op::ReadNext,
      6 => Op::TakeNext,
      7 => Op::ReadInstance { max: gen_max(&mut c), not_read: c.bool(), key: key_sel(&mut c), next: c.bool() },
      8 => Op::TakeInstance { max: gen_max(&mut c), not_read: c.bool(), key: key_sel(&mut c), next: c.bool() },
      _ => Op::Iter {
        take: c.bool(),
        conditional_any: match c.pick(3) {
          0 => None,
          1 => Some(true),
          _ => Some(false),
        },
      },
    });
  }
  o.sample = format!("reliable={reliable} history={history:?} max_samples_per_instance={msi:?} writers={nwriters} instances={ninst} ops={ops:?}");
  o.digest = fnv(o.sample.as_bytes());

  // ---------------------------------------------------------------- model state
  let mut inst: BTreeMap<u8, MInstance> = BTreeMap::new();
  // arrivals not yet ingested by the DataReader (lazy ingestion at access)
  let mut pending: Vec<(usize, i64, u8, Option<Vec<u8>>, bool, u64)> = Vec::new(); // (writer, sn, key, value, by_hash, arrival order)
  let mut known_hash_keys: BTreeSet<u8> = BTreeSet::new();
  let mut next_sn = vec![1i64; nwriters];
  let mut overtaken: Vec<Option<i64>> = vec![None; nwriters];
  let mut arrived: Vec<BTreeSet<i64>> = vec![BTreeSet::new(); nwriters];
  let mut frontier = vec![1i64; nwriters];
  let reorder_plan: Vec<bool> = (0..16).map(|_| c.chance(40)).collect();
  let mut order = 0u64;
  let mut taken: BTreeSet<(usize, i64)> = BTreeSet::new();
  let mut accesses_after_arrival = 0;
  let mut arrival_since_access = false;
  let mut saw_dispose = false;
  let mut saw_rebirth = false;

  macro_rules! fail {
    ($clause:expr, $key:expr, $($arg:tt)*) => {{
      o.violate($clause, $key, format!($($arg)*));
      return o;
    }};
  }

  let ingest = |inst: &mut BTreeMap<u8, MInstance>,
                pending: &mut Vec<(usize, i64, u8, Option<Vec<u8>>, bool, u64)>,
                known_hash_keys: &mut BTreeSet<u8>,
                order: &mut u64,
                saw_rebirth: &mut bool,
                reliable: bool,
                frontier: &[i64],
                labels: &mut Vec<&'static str>| {
    // reliable: per writer (GUID order), then sn; best-effort: arrival order
    let all: Vec<(usize, i64, u8, Option<Vec<u8>>, bool, u64)> = std::mem::take(pending);
    let mut batch = Vec::new();
    for it in all {
      // a reliable reader hands over a sample only when all lower sequence
      // numbers of that writer have arrived
      if reliable && it.1 >= frontier[it.0] {
        pending.push(it);
      } else {
        batch.push(it);
      }
    }
    if reliable {
      batch.sort_by_key(|(w, sn, ..)| (*w, *sn));
    }
    for (w, sn, key, value, by_hash, arrival) in batch {
      if by_hash && !known_hash_keys.contains(&key) {
        continue; // dispose naming a key hash never seen: not a sample
      }
      known_hash_keys.insert(key);
      let e = inst.entry(key).or_insert_with(|| MInstance {
        alive: value.is_some(),
        dgc: 0,
        samples: Vec::new(),
        view_new: true,
        b_last: -1,
        ever: false,
      });
      if e.ever {
        match (e.alive, value.is_some()) {
          (false, true) => {
            e.dgc += 1;
            e.view_new = true;
            *saw_rebirth = true;
          }
          _ => {}
        }
      }
      e.ever = true;
      e.alive = value.is_some();
      let _ = &order;
      e.samples.push(MSample {
        writer: w,
        sn,
        value,
        gen: e.dgc,
        read: false,
        order: arrival,
        taken: false,
      });
      if let Some(k) = keep {
        // "most recent" is by reception time (the cache is keyed by receive timestamp)
        while e.samples.len() > k {
          let oldest = e
            .samples
            .iter()
            .enumerate()
            .min_by_key(|(_, s)| s.order)
            .map(|(i, _)| i)
            .unwrap();
          e.samples.remove(oldest);
          if !labels.contains(&"keep-last-evict") {
            labels.push("keep-last-evict");
          }
        }
      }
    }
  };

  for (opno, op) in ops.iter().enumerate() {
    match op {
      Op::Value { w, key } | Op::DisposeKey { w, key } | Op::DisposeHash { w, key } => {
        // sequence numbers usually arrive in order; now and then one is overtaken
        // by its successor (reordering on the network)
        let sn = if let Some(late) = overtaken[*w].take() {
          late
        } else if reorder_plan[opno % reorder_plan.len()] {
          overtaken[*w] = Some(next_sn[*w]);
          next_sn[*w] += 2;
          o.label("arrival-out-of-sn-order");
          next_sn[*w] - 1
        } else {
          next_sn[*w] += 1;
          next_sn[*w] - 1
        };
        arrived[*w].insert(sn);
        while arrived[*w].contains(&frontier[*w]) {
          frontier[*w] += 1;
        }
        let (data, value, by_hash) = match op {
          Op::Value { .. } => {
            let v = value_bytes(*key, *w, sn);
            (
              DDSData::new(SerializedPayload {
                representation_identifier: RepresentationIdentifier::CDR_LE,
                representation_options: [0, 0],
                value: Bytes::from(v.clone()),
              }),
              Some(v),
              false,
            )
          }
          Op::DisposeKey { .. } => {
            saw_dispose = true;
            (
              DDSData::new_disposed_by_key(
                ChangeKind::NotAliveDisposed,
                SerializedPayload {
                  representation_identifier: RepresentationIdentifier::CDR_LE,
                  representation_options: [0, 0],
                  value: Bytes::from(vec![*key]),
                },
              ),
              None,
              false,
            )
          }
          _ => {
            saw_dispose = true;
            (DDSData::new_disposed_by_key_hash(ChangeKind::NotAliveDisposed, key.hash_key(false)), None, true)
          }
        };
        {
          let mut tcg = tc.lock().unwrap();
          let ts = Timestamp::now();
          tcg.add_change(
            &ts,
            CacheChange::new(wguids[*w], SequenceNumber::from(sn), WriteOptions::default(), data),
          );
          tcg.mark_reliably_received_before(wguids[*w], SequenceNumber::from(frontier[*w]));
        }
        order += 1;
        pending.push((*w, sn, *key, value, by_hash, order));
        arrival_since_access = true;
        if reliable && nwriters > 1 {
          // public no-op access: forces ingestion in arrival order
          if let Err(e) = dr.read(0, ReadCondition::any()) {
            fail!("c08.read-error", "read0", "op {opno}: read(0) failed: {e:?}");
          }
          ingest(&mut inst, &mut pending, &mut known_hash_keys, &mut order, &mut saw_rebirth, reliable, &frontier, &mut o.labels);
        }
        continue;
      }
      _ => {}
    }
    // ---- an access call
    ingest(&mut inst, &mut pending, &mut known_hash_keys, &mut order, &mut saw_rebirth, reliable, &frontier, &mut o.labels);
    if arrival_since_access {
      accesses_after_arrival += 1;
      arrival_since_access = false;
    }
    let cond = |not_read: bool| if not_read { ReadCondition::not_read() } else { ReadCondition::any() };
    // (is_take, max, not_read, instance restriction: None = all / Some(Some(k)) = instance k / Some(None) = no instance -> empty)
    let (is_take, max, not_read, restrict, with_info): (bool, usize, bool, Option<Option<u8>>, bool);
    let returned: Vec<Returned>;
    let infer = |inst: &BTreeMap<u8, MInstance>, key: &Option<u8>, next: bool| -> Option<u8> {
      match key {
        Some(k) => {
          if next {
            inst.range((std::ops::Bound::Excluded(*k), std::ops::Bound::Unbounded)).next().map(|(k, _)| *k)
          } else {
            Some(*k)
          }
        }
        None => inst.keys().next().copied(),
      }
    };
    let conv_ref = |v: Vec<crate::dds::with_key::datasample::DataSample<&Raw>>| -> Vec<Returned> {
      v.into_iter()
        .map(|ds| Returned {
          key: ds.key(),
          value: match ds.value() {
            Sample::Value(r) => Some(r.bytes.clone()),
            Sample::Dispose(_) => None,
          },
          info: Some(ds.sample_info().clone()),
        })
        .collect()
    };
    let conv_own = |v: Vec<crate::dds::with_key::datasample::DataSample<Raw>>| -> Vec<Returned> {
      v.into_iter()
        .map(|ds| Returned {
          key: ds.key(),
          info: Some(ds.sample_info().clone()),
          value: match ds.into_value() {
            Sample::Value(r) => Some(r.bytes),
            Sample::Dispose(_) => None,
          },
        })
        .collect()
    };
    hooks::tick_reset(1_000_000);
    match op {
      Op::Read { max: m, not_read: nr } => {
        (is_take, max, not_read, restrict, with_info) = (false, *m, *nr, None, true);
        returned = match dr.read(*m, cond(*nr)) {
          Ok(v) => conv_ref(v),
          Err(e) => fail!("c08.read-error", "read", "op {opno}: {e:?}"),
        };
      }
      Op::Take { max: m, not_read: nr } => {
        (is_take, max, not_read, restrict, with_info) = (true, *m, *nr, None, true);
        returned = match dr.take(*m, cond(*nr)) {
          Ok(v) => conv_own(v),
          Err(e) => fail!("c08.read-error", "take", "op {opno}: {e:?}"),
        };
      }
      Op::ReadNext => {
        (is_take, max, not_read, restrict, with_info) = (false, 1, true, None, true);
        returned = match dr.read_next_sample() {
          Ok(v) => conv_ref(v.into_iter().collect()),
          Err(e) => fail!("c08.read-error", "read_next_sample", "op {opno}: {e:?}"),
        };
      }
      Op::TakeNext => {
        (is_take, max, not_read, restrict, with_info) = (true, 1, true, None, true);
        returned = match dr.take_next_sample() {
          Ok(v) => conv_own(v.into_iter().collect()),
          Err(e) => fail!("c08.read-error", "take_next_sample", "op {opno}: {e:?}"),
        };
      }
      Op::ReadInstance { max: m, not_read: nr, key, next } => {
        (is_take, max, not_read, with_info) = (false, *m, *nr, true);
        restrict = Some(infer(&inst, key, *next));
        o.label(if *next { "instance-next" } else { "instance-this" });
        returned = match dr.read_instance(*m, cond(*nr), *key, if *next { SelectByKey::Next } else { SelectByKey::This }) {
          Ok(v) => conv_ref(v),
          Err(e) => fail!("c08.read-error", "read_instance", "op {opno}: {e:?}"),
        };
      }
      Op::TakeInstance { max: m, not_read: nr, key, next } => {
        (is_take, max, not_read, with_info) = (true, *m, *nr, true);
        restrict = Some(infer(&inst, key, *next));
        o.label(if *next { "instance-next" } else { "instance-this" });
        returned = match dr.take_instance(*m, cond(*nr), *key, if *next { SelectByKey::Next } else { SelectByKey::This }) {
          Ok(v) => conv_own(v),
          Err(e) => fail!("c08.read-error", "take_instance", "op {opno}: {e:?}"),
        };
      }
      Op::Iter { take, conditional_any } => {
        let nr = match conditional_any {
          None => true, // plain iterators use not_read
          Some(any) => !*any,
        };
        (is_take, max, not_read, restrict, with_info) = (*take, usize::MAX, nr, None, false);
        o.label("iterator");
        let conv_bare_ref = |v: Vec<Sample<&Raw, u8>>| -> Vec<Returned> {
          v.into_iter()
            .map(|s| match s {
              Sample::Value(r) => Returned { key: r.bytes[0], value: Some(r.bytes.clone()), info: None },
              Sample::Dispose(k) => Returned { key: k, value: None, info: None },
            })
            .collect()
        };
        let conv_bare_own = |v: Vec<Sample<Raw, u8>>| -> Vec<Returned> {
          v.into_iter()
            .map(|s| match s {
              Sample::Value(r) => Returned { key: r.bytes[0], value: Some(r.bytes), info: None },
              Sample::Dispose(k) => Returned { key: k, value: None, info: None },
            })
            .collect()
        };
        returned = match (take, conditional_any) {
          (false, None) => match dr.iterator() {
            Ok(it) => conv_bare_ref(it.collect()),
            Err(e) => fail!("c08.read-error", "iterator", "op {opno}: {e:?}"),
          },
          (false, Some(any)) => match dr.conditional_iterator(cond(!*any)) {
            Ok(it) => conv_bare_ref(it.collect()),
            Err(e) => fail!("c08.read-error", "conditional_iterator", "op {opno}: {e:?}"),
          },
          (true, None) => match dr.into_iterator() {
            Ok(it) => conv_bare_own(it.collect()),
            Err(e) => fail!("c08.read-error", "into_iterator", "op {opno}: {e:?}"),
          },
          (true, Some(any)) => match dr.into_conditional_iterator(cond(!*any)) {
            Ok(it) => conv_bare_own(it.collect()),
            Err(e) => fail!("c08.read-error", "into_conditional_iterator", "op {opno}: {e:?}"),
          },
        };
      }
      _ => unreachable!(),
    }
    hooks::tick_disarm();

    // ---- the model's matching set
    let mut matching: Vec<(u8, usize)> = Vec::new(); // (instance key, index in samples)
    for (k, e) in &inst {
      if let Some(r) = &restrict {
        if *r != Some(*k) {
          continue;
        }
      }
      for (i, s) in e.samples.iter().enumerate() {
        if !s.taken && (!not_read || !s.read) {
          matching.push((*k, i));
        }
      }
    }
    if restrict == Some(None) {
      matching.clear();
    }
    let expect_n = matching.len().min(max);
    if returned.len() != expect_n {
      fail!(
        if returned.len() > expect_n { "c08.too-many" } else { "c08.too-few" },
        if is_take { "take" } else { "read" },
        "op {opno} {op:?}: returned {} samples, the model has {} matching (max {})",
        returned.len(),
        matching.len(),
        if max == usize::MAX { "none".to_string() } else { max.to_string() }
      );
    }
    if returned.len() < matching.len() {
      o.label("max-truncated");
    }
    // ---- identify each returned sample in the model
    let mut used: BTreeSet<(u8, usize)> = BTreeSet::new();
    let mut last_sn_of_writer: BTreeMap<usize, i64> = BTreeMap::new();
    let mut per_instance_count: BTreeMap<u8, usize> = BTreeMap::new();
    let mut ids: Vec<(u8, usize)> = Vec::new();
    for (ri_, r) in returned.iter().enumerate() {
      let cand = matching.iter().copied().find(|(k, i)| {
        if used.contains(&(*k, *i)) || *k != r.key {
          return false;
        }
        let s = &inst[k].samples[*i];
        if s.value != r.value {
          return false;
        }
        match &r.info {
          Some(info) => {
            let si = info.sample_identity();
            si.writer_guid == wguids[s.writer] && i64::from(si.sequence_number) == s.sn
          }
          None => true,
        }
      });
      let Some((k, i)) = cand else {
        fail!(
          "c08.not-matching",
          if is_take { "take" } else { "read" },
          "op {opno} {op:?}: returned sample #{ri_} (instance {}, {}, identity {:?}) is not among the samples the model selects (already taken, already read under not_read, evicted by History, of another instance, or never received)",
          r.key,
          if r.value.is_some() { "value" } else { "dispose" },
          r.info.as_ref().map(|i| i.sample_identity())
        );
      };
      used.insert((k, i));
      ids.push((k, i));
      let s = inst[&k].samples[i].clone();
      if taken.contains(&(s.writer, s.sn)) {
        fail!("c08.taken-twice", "take", "op {opno}: sample writer {} sn {} returned after it had been taken", s.writer, s.sn);
      }
      // one writer's samples in sequence-number order within a result
      *per_instance_count.entry(k).or_insert(0) += 1;
      // (a dispose returned without SampleInfo cannot be told from another dispose
      // of the same instance: no order check on those)
      let identifiable = r.info.is_some() || r.value.is_some();
      if !identifiable {
        continue;
      }
      if let Some(prev) = last_sn_of_writer.get(&s.writer) {
        if s.sn <= *prev {
          fail!("c08.writer-order", "order", "op {opno}: writer {} sn {} after sn {prev} within one result", s.writer, s.sn);
        }
      }
      last_sn_of_writer.insert(s.writer, s.sn);
      if let Some(info) = &r.info {
        let want_ss = if s.read { SampleState::Read } else { SampleState::NotRead };
        if info.sample_state() != want_ss {
          fail!("c08.sample-state", "sample_state", "op {opno}: writer {} sn {} sample_state {:?}, expected {want_ss:?}", s.writer, s.sn, info.sample_state());
        }
        let want_is = if inst[&k].alive { InstanceState::Alive } else { InstanceState::NotAliveDisposed };
        if info.instance_state() != want_is {
          fail!("c08.instance-state", "instance_state", "op {opno}: instance {k} reported {:?}, expected {want_is:?}", info.instance_state());
        }
        if info.disposed_generation_count() != s.gen || info.no_writers_generation_count() != 0 {
          fail!(
            "c08.generation-count",
            "generation",
            "op {opno}: writer {} sn {} generation counts ({}, {}), expected ({}, 0)",
            s.writer,
            s.sn,
            info.disposed_generation_count(),
            info.no_writers_generation_count(),
            s.gen
          );
        }
      }
    }
    if let Some(k) = keep {
      if let Some((ik, n)) = per_instance_count.iter().find(|(_, n)| **n > k) {
        fail!("c08.depth-exceeded", "depth", "op {opno}: {n} samples of instance {ik} in one result, History keeps {k}");
      }
    }
    // ---- view state on the most recent sample of each instance in the result
    if with_info {
      let mut most_recent: BTreeMap<u8, (u64, usize)> = BTreeMap::new(); // key -> (order, position in returned)
      for (pos, (k, i)) in ids.iter().enumerate() {
        let ord = inst[k].samples[*i].order;
        if most_recent.get(k).map_or(true, |(o2, _)| ord > *o2) {
          most_recent.insert(*k, (ord, pos));
        }
      }
      for (k, (_, pos)) in &most_recent {
        let e = &inst[k];
        let s = &e.samples[ids[*pos].1];
        let a_new = e.view_new;
        let b_new = s.gen > e.b_last;
        if a_new != b_new {
          o.label("view-ambiguous");
          continue;
        }
        let got = returned[*pos].info.as_ref().unwrap().view_state();
        let want = if a_new { ViewState::New } else { ViewState::NotNew };
        if got != want {
          fail!("c08.view-state", "view_state", "op {opno}: instance {k}: most recent sample (writer {} sn {}) reports {got:?}, expected {want:?}", s.writer, s.sn);
        }
      }
    }
    // ---- model post-state
    let mut max_gen: BTreeMap<u8, i32> = BTreeMap::new();
    for (k, i) in &ids {
      let g = inst[k].samples[*i].gen;
      let e = max_gen.entry(*k).or_insert(g);
      *e = (*e).max(g);
    }
    for (k, g) in &max_gen {
      let e = inst.get_mut(k).unwrap();
      e.view_new = false;
      e.b_last = *g;
    }
    if is_take {
      for (k, i) in &ids {
        let s = &mut inst.get_mut(k).unwrap().samples[*i];
        s.taken = true;
        taken.insert((s.writer, s.sn));
      }
      if o.labels.contains(&"read-before") {
        o.label("read-then-take");
      }
    } else {
      for (k, i) in &ids {
        inst.get_mut(k).unwrap().samples[*i].read = true;
      }
      if !ids.is_empty() {
        o.label("read-before");
      }
    }
  }
  frontend::drain_discovery_commands();
  if saw_rebirth {
    o.label("rebirth");
  }
  if nwriters > 1 {
    o.label("multi-writer");
  }
  o.nontrivial = (inst.len() >= 2 || saw_dispose) && accesses_after_arrival >= 2;
  o
}

//! Deterministic single-thread RTPS rig: real MessageReceiver / Reader / Writer
//! objects wired as DPEventLoop wires them, with the datagram tap and the
//! virtual clock installed. Nothing touches a socket.

use std::{
  cell::RefCell,
  collections::BTreeMap,
  net::{Ipv4Addr, SocketAddrV4},
  rc::Rc,
  sync::{Arc, Mutex},
  task::Waker,
  time::{Duration as StdDuration, Instant},
};

use bytes::Bytes;
use mio_extras::{channel as mio_channel, timer::Timer};

use super::hooks;
use crate::{
  dds::{
    qos::{policy, QosPolicies, QosPolicyBuilder},
    statusevents::{
      sync_status_channel, DataReaderStatus, DataWriterStatus, DomainParticipantStatusEvent,
      StatusChannelReceiver, StatusChannelSender,
    },
    typedesc::TypeDesc,
    with_key::simpledatareader::ReaderCommand,
  },
  messages::submessages::submessage::AckSubmessage,
  mio_source::{self, PollEventSource},
  network::udp_sender::UDPSender,
  rtps::{
    message_receiver::MessageReceiver,
    reader::{Reader, ReaderIngredients},
    rtps_reader_proxy::RtpsReaderProxy,
    rtps_writer_proxy::RtpsWriterProxy,
    writer::{Writer, WriterCommand, WriterIngredients},
  },
  structure::{
    dds_cache::TopicCache,
    duration::Duration,
    guid::{EntityId, EntityKind, GuidPrefix, GUID},
    locator::Locator,
  },
};

thread_local! {
  static UDP: RefCell<Option<Rc<UDPSender>>> = const { RefCell::new(None) };
}

/// one UDPSender per engine thread (never used for sending: the tap swallows
/// every datagram while a capture is installed)
pub fn udp_sender() -> Rc<UDPSender> {
  UDP.with(|u| {
    let mut u = u.borrow_mut();
    if u.is_none() {
      *u = Some(Rc::new(
        UDPSender::new(0).expect("rig: cannot create UDPSender"),
      ));
    }
    u.as_ref().unwrap().clone()
  })
}

/// Start a rig case: virtual clock + capture on. Returns a guard that switches
/// them off again (also on unwind).
pub struct CaseGuard;
impl CaseGuard {
  pub fn new() -> Self {
    hooks::clock_start();
    hooks::capture_start();
    CaseGuard
  }
}
impl Drop for CaseGuard {
  fn drop(&mut self) {
    hooks::capture_stop();
    hooks::clock_stop();
    hooks::tick_disarm();
  }
}

pub fn node_prefix(index: u8) -> GuidPrefix {
  GuidPrefix::new(&[0x01, 0x12, 0xAA, index, 0, 0, 0, 0, 0, 0, 0, index + 1])
}

/// routable (non-loopback) unicast locator of a node; never really used
pub fn node_locator(index: u8) -> Locator {
  Locator::UdpV4(SocketAddrV4::new(
    Ipv4Addr::new(10, 77, 0, index + 1),
    7410 + u16::from(index),
  ))
}

pub fn user_reader_eid(n: u8, with_key: bool) -> EntityId {
  EntityId::new(
    [0, 0x10, n],
    if with_key {
      EntityKind::READER_WITH_KEY_USER_DEFINED
    } else {
      EntityKind::READER_NO_KEY_USER_DEFINED
    },
  )
}

pub fn user_writer_eid(n: u8, with_key: bool) -> EntityId {
  EntityId::new(
    [0, 0x20, n],
    if with_key {
      EntityKind::WRITER_WITH_KEY_USER_DEFINED
    } else {
      EntityKind::WRITER_NO_KEY_USER_DEFINED
    },
  )
}

/// Entity ids as a real peer numbers them: keys count up from 000000 (RustDDS itself does
/// this), so the first ones lie below ENTITYID_PARTICIPANT (000001|c1) in GUID order.
pub fn peer_eid(n: u8, is_reader: bool) -> EntityId {
  EntityId::new(
    [0, 0, n],
    if is_reader {
      EntityKind::READER_WITH_KEY_USER_DEFINED
    } else {
      EntityKind::WRITER_WITH_KEY_USER_DEFINED
    },
  )
}

pub fn eid_bytes(e: EntityId) -> [u8; 4] {
  [
    e.entity_key[0],
    e.entity_key[1],
    e.entity_key[2],
    u8::from(e.entity_kind),
  ]
}

/// QoS for rig topic caches: keep everything, so that no cache trimming can
/// hide a sample behind the model's back.
pub fn roomy(qos: &QosPolicies) -> QosPolicies {
  let mut q = qos.clone();
  q.history = Some(policy::History::KeepAll);
  q.resource_limits = Some(policy::ResourceLimits {
    max_samples: 1_000_000,
    max_instances: 1_000_000,
    max_samples_per_instance: 1_000_000,
  });
  q
}

pub fn reliable_qos() -> QosPolicies {
  QosPolicyBuilder::new()
    .reliability(policy::Reliability::Reliable {
      max_blocking_time: Duration::from_millis(100),
    })
    .history(policy::History::KeepAll)
    .build()
}

pub fn best_effort_qos() -> QosPolicies {
  QosPolicyBuilder::new()
    .reliability(policy::Reliability::BestEffort)
    .history(policy::History::KeepAll)
    .build()
}

/// Application-side ends of a rig Reader (what pubsub.rs hands to SimpleDataReader::new)
pub struct ReaderEnds {
  pub notification_rx: mio_channel::Receiver<()>,
  pub status_rx: StatusChannelReceiver<DataReaderStatus>,
  pub reader_command_tx: mio_channel::SyncSender<ReaderCommand>,
  pub waker: Arc<Mutex<Option<Waker>>>,
  pub poll_event_source: PollEventSource,
}

pub struct RigReader {
  pub guid: GUID,
  pub topic_name: String,
  pub qos: QosPolicies,
  pub topic_cache: Arc<Mutex<TopicCache>>,
  pub ends: Option<ReaderEnds>,
}

pub struct RigWriter {
  pub guid: GUID,
  pub writer: Writer,
  pub cmd_tx: mio_channel::SyncSender<WriterCommand>,
  pub status_rx: StatusChannelReceiver<DataWriterStatus>,
  pub waker: Arc<Mutex<Option<Waker>>>,
  pub qos: QosPolicies,
}

pub struct Node {
  pub index: u8,
  pub prefix: GuidPrefix,
  pub locator: Locator,
  pub mr: MessageReceiver,
  pub acknack_rx: mio_channel::Receiver<(GuidPrefix, AckSubmessage)>,
  pub spdp_rx: mio_channel::Receiver<GuidPrefix>,
  pub readers: Vec<RigReader>,
  pub writers: Vec<RigWriter>,
  pub participant_status_tx: StatusChannelSender<DomainParticipantStatusEvent>,
  pub participant_status_rx: StatusChannelReceiver<DomainParticipantStatusEvent>,
  /// number of ACKNACK/NACKFRAG submessages forwarded to writers
  pub acks_forwarded: u64,
}

fn timer<T>() -> Timer<T> {
  mio_extras::timer::Builder::default()
    .tick_duration(StdDuration::from_millis(1))
    .build()
}

impl Node {
  pub fn new(index: u8) -> Node {
    let prefix = node_prefix(index);
    let (acknack_tx, acknack_rx) = mio_channel::sync_channel(1024);
    let (spdp_tx, spdp_rx) = mio_channel::sync_channel(1024);
    let (ptx, prx) = sync_status_channel(4096).expect("rig: status channel");
    Node {
      index,
      prefix,
      locator: node_locator(index),
      mr: MessageReceiver::new(prefix, acknack_tx, spdp_tx, None),
      acknack_rx,
      spdp_rx,
      readers: Vec::new(),
      writers: Vec::new(),
      participant_status_tx: ptx,
      participant_status_rx: prx,
      acks_forwarded: 0,
    }
  }

  /// the same node, its MessageReceiver carrying security plugins (C17)
  #[cfg(feature = "security")]
  pub fn new_with_plugins(index: u8, plugins: Option<crate::security::security_plugins::SecurityPluginsHandle>) -> Node {
    let prefix = node_prefix(index);
    let (acknack_tx, acknack_rx) = mio_channel::sync_channel(1024);
    let (spdp_tx, spdp_rx) = mio_channel::sync_channel(1024);
    let (ptx, prx) = sync_status_channel(4096).expect("rig: status channel");
    Node {
      index,
      prefix,
      locator: node_locator(index),
      mr: MessageReceiver::new(prefix, acknack_tx, spdp_tx, plugins),
      acknack_rx,
      spdp_rx,
      readers: Vec::new(),
      writers: Vec::new(),
      participant_status_tx: ptx,
      participant_status_rx: prx,
      acks_forwarded: 0,
    }
  }

  pub fn add_reader(&mut self, eid: EntityId, topic: &str, qos: &QosPolicies) -> usize {
    self.add_reader_with(eid, topic, qos, false, 256)
  }

  pub fn add_reader_with(
    &mut self,
    eid: EntityId,
    topic: &str,
    qos: &QosPolicies,
    like_stateless: bool,
    status_capacity: usize,
  ) -> usize {
    let guid = GUID::new(self.prefix, eid);
    let (ing, rr) = reader_ingredients(guid, topic, qos, like_stateless, status_capacity);
    let reader = Reader::new(
      ing,
      udp_sender(),
      timer(),
      self.participant_status_tx.clone(),
    );
    self.mr.add_reader(reader);
    self.readers.push(rr);
    self.readers.len() - 1
  }

  /// a second reader on the topic of reader `other`, sharing its topic cache
  pub fn add_reader_sharing(&mut self, eid: EntityId, qos: &QosPolicies, other: usize) -> usize {
    let guid = GUID::new(self.prefix, eid);
    let topic = self.readers[other].topic_name.clone();
    let cache = self.readers[other].topic_cache.clone();
    let (ing, rr) = reader_ingredients_sharing(guid, &topic, qos, false, 256, Some(cache));
    let reader = Reader::new(ing, udp_sender(), timer(), self.participant_status_tx.clone());
    self.mr.add_reader(reader);
    self.readers.push(rr);
    self.readers.len() - 1
  }

  pub fn add_writer(&mut self, eid: EntityId, topic: &str, qos: &QosPolicies) -> usize {
    self.add_writer_with(eid, topic, qos, 256, 256)
  }

  pub fn add_writer_with(
    &mut self,
    eid: EntityId,
    topic: &str,
    qos: &QosPolicies,
    cmd_capacity: usize,
    status_capacity: usize,
  ) -> usize {
    let guid = GUID::new(self.prefix, eid);
    let (ing, ends) = writer_ingredients(guid, topic, qos, cmd_capacity, status_capacity);
    let mut writer = Writer::new(
      ing,
      udp_sender(),
      timer(),
      self.participant_status_tx.clone(),
    );
    // no artificial delays: the rig fires timers as soon as they are armed
    writer.nack_response_delay = StdDuration::from_millis(0);
    writer.nackfrag_response_delay = StdDuration::from_millis(0);
    writer.repairfrags_continue_delay = StdDuration::from_millis(0);
    self.writers.push(RigWriter {
      guid,
      writer,
      cmd_tx: ends.cmd_tx,
      status_rx: ends.status_rx,
      waker: ends.waker,
      qos: qos.clone(),
    });
    self.writers.len() - 1
  }

  pub fn reader_mut(&mut self, i: usize) -> &mut Reader {
    let eid = self.readers[i].guid.entity_id;
    self.mr.reader_mut(eid).expect("rig: reader vanished")
  }

  /// production entry point for a received datagram, then ACKNACKs are handed to
  /// the writers as DPEventLoop::handle_writer_acknack_action does
  pub fn inject(&mut self, bytes: &[u8]) {
    self.mr.handle_received_packet(&Bytes::copy_from_slice(bytes));
    self.pump_acknacks();
  }

  pub fn pump_acknacks(&mut self) {
    while let Ok((sender_prefix, ack)) = self.acknack_rx.try_recv() {
      let wid = ack.writer_id();
      if let Some(w) = self.writers.iter_mut().find(|w| w.guid.entity_id == wid) {
        if w.writer.is_reliable() {
          self.acks_forwarded += 1;
          w.writer.handle_ack_nack(sender_prefix, &ack);
        }
      }
    }
  }

  /// Let every armed zero-delay writer timer become due, then run the real
  /// dispatcher. mio_extras timers are wall-clock based with (here) 1 ms ticks: a
  /// timeout armed with a delay <= 1 ms is due after 3 ms of real time whatever
  /// the machine load, so the outcome does not depend on scheduling. Returns the
  /// number of datagrams emitted by the dispatcher.
  pub fn fire_writer_timers(&mut self, wi: usize) -> usize {
    std::thread::sleep(StdDuration::from_millis(3));
    let before = hooks::capture_len();
    self.writers[wi].writer.handle_timed_event();
    hooks::capture_len() - before
  }
}

/// What pubsub.rs prepares for a new reader: ingredients for the RTPS Reader and
/// the application-side ends.
pub fn reader_ingredients(
  guid: GUID,
  topic: &str,
  qos: &QosPolicies,
  like_stateless: bool,
  status_capacity: usize,
) -> (ReaderIngredients, RigReader) {
  reader_ingredients_sharing(guid, topic, qos, like_stateless, status_capacity, None)
}

/// `shared`: the topic cache of another reader on the same topic (one participant has one
/// cache per topic, shared by all its readers on that topic)
pub fn reader_ingredients_sharing(
  guid: GUID,
  topic: &str,
  qos: &QosPolicies,
  like_stateless: bool,
  status_capacity: usize,
  shared: Option<Arc<Mutex<TopicCache>>>,
) -> (ReaderIngredients, RigReader) {
  let topic_cache = shared.unwrap_or_else(|| {
    Arc::new(Mutex::new(TopicCache::new(
      topic.to_string(),
      TypeDesc::new("RigType".to_string()),
      &roomy(qos),
    )))
  });
  let (notification_tx, notification_rx) = mio_channel::sync_channel::<()>(4);
  let (status_tx, status_rx) =
    sync_status_channel::<DataReaderStatus>(status_capacity).expect("rig: status channel");
  let (reader_command_tx, reader_command_rx) = mio_channel::sync_channel::<ReaderCommand>(0);
  let waker = Arc::new(Mutex::new(None));
  let (poll_event_source, poll_event_sender) =
    mio_source::make_poll_channel().expect("rig: poll channel");
  let ing = ReaderIngredients {
    guid,
    notification_sender: notification_tx,
    status_sender: status_tx,
    topic_name: topic.to_string(),
    topic_cache_handle: topic_cache.clone(),
    like_stateless,
    qos_policy: qos.clone(),
    data_reader_command_receiver: reader_command_rx,
    data_reader_waker: waker.clone(),
    poll_event_sender,
    security_plugins: None,
  };
  (
    ing,
    RigReader {
      guid,
      topic_name: topic.to_string(),
      qos: qos.clone(),
      topic_cache,
      ends: Some(ReaderEnds {
        notification_rx,
        status_rx,
        reader_command_tx,
        waker,
        poll_event_source,
      }),
    },
  )
}

pub struct WriterEnds {
  pub cmd_tx: mio_channel::SyncSender<WriterCommand>,
  pub status_rx: StatusChannelReceiver<DataWriterStatus>,
  pub waker: Arc<Mutex<Option<Waker>>>,
}

pub fn writer_ingredients(
  guid: GUID,
  topic: &str,
  qos: &QosPolicies,
  cmd_capacity: usize,
  status_capacity: usize,
) -> (WriterIngredients, WriterEnds) {
  let (cmd_tx, cmd_rx) = mio_channel::sync_channel::<WriterCommand>(cmd_capacity);
  let (status_tx, status_rx) =
    sync_status_channel::<DataWriterStatus>(status_capacity).expect("rig: status channel");
  let waker = Arc::new(Mutex::new(None));
  let ing = WriterIngredients {
    guid,
    writer_command_receiver: cmd_rx,
    writer_command_receiver_waker: waker.clone(),
    topic_name: topic.to_string(),
    like_stateless: false,
    qos_policies: qos.clone(),
    status_sender: status_tx,
    security_plugins: None,
  };
  (
    ing,
    WriterEnds {
      cmd_tx,
      status_rx,
      waker,
    },
  )
}

/// Match a remote writer (living on node `wnode`) with reader `ri` of node `rnode`
pub fn writer_proxy_for(writer_guid: GUID, locator: Locator) -> RtpsWriterProxy {
  RtpsWriterProxy::new(writer_guid, vec![locator], vec![], EntityId::UNKNOWN)
}

pub fn reader_proxy_for(reader_guid: GUID, locator: Locator, qos: &QosPolicies) -> RtpsReaderProxy {
  let mut p = RtpsReaderProxy::new(reader_guid, qos.clone(), false);
  p.unicast_locator_list = vec![locator];
  p
}

//! C10 — endpoints match exactly when their QoS is request/offered compatible.
//!
//! Domain: pairs (offered, requested) of QosPolicies, every RxO policy absent or
//! any value from boundary pools, non-RxO policies as noise.
//! Oracle: independent reference of the DDS 1.4 §2.2.3 table.

use std::collections::BTreeMap;

use speedy::Endianness;

use super::{fnv, Choices, ExhaustiveReport, Outcome, Property, Scenario, Verdict};
use crate::{
  dds::qos::{policy::*, QosPolicies, QosPolicyId},
  messages::submessages::elements::parameter::Parameter,
  structure::{duration::Duration, parameter_id::ParameterId},
};

pub fn property() -> Property {
  Property {
    id: "C10",
    level: "exploration",
    rule: "pairs (offered, requested) of QosPolicies decoded from a choice stream: each of the 8 \
           RxO policies absent or drawn from boundary pools (durations 0, 1 tick, 1 s, 1 s+1 tick, \
           i32::MAX s, INFINITE; all kinds; ownership strengths), non-RxO policies as noise. \
           Non-trivial = both sides specify >=1 common RxO policy and either exactly one policy is \
           incompatible in the reference model (the verdict hinges on it) or all are compatible \
           with >=1 common policy sitting exactly on its boundary (equal values). Distinct = \
           distinct decoded pairs (digest of the Debug rendering).",
    assumptions: &[
      "reference table written from DDS 1.4 section 2.2.3 (RxO column) and the property statement",
      "a policy that one side leaves unspecified is not compared (as the statement says)",
    ],
    scenarios: &[
      Scenario {
        id: 0,
        name: "compliance_failure_wrt vs reference table",
        quick: 20_000,
        thorough: 10_000_000,
        max_len: 96,
        max_threads: 0,
      },
      Scenario {
        id: 1,
        name: "same verdict after the wire (to/from parameter list, both byte orders)",
        quick: 10_000,
        thorough: 5_000_000,
        max_len: 96,
        max_threads: 0,
      },
    ],
    run,
    exhaustive: Some(exhaustive),
  }
}

fn dur_pool() -> [Duration; 7] {
  [
    Duration::ZERO,
    Duration::from_ticks(1),
    Duration::from_secs(1),
    Duration::from_ticks((1i64 << 32) + 1),
    Duration::from_millis(250),
    Duration::from_secs(i32::MAX),
    Duration::INFINITE,
  ]
}

fn gen_dur(c: &mut Choices) -> Duration {
  let pool = dur_pool();
  pool[c.pick(pool.len())]
}

pub(crate) fn gen_qos(c: &mut Choices, noise: bool) -> QosPolicies {
  let mut q = QosPolicies::qos_none();
  // presence mask: 8 RxO policies
  let mask = c.byte();
  if mask & 1 != 0 {
    q.durability = Some(
      [
        Durability::Volatile,
        Durability::TransientLocal,
        Durability::Transient,
        Durability::Persistent,
      ][c.pick(4)],
    );
  }
  if mask & 2 != 0 {
    q.presentation = Some(Presentation {
      access_scope: [
        PresentationAccessScope::Instance,
        PresentationAccessScope::Topic,
        PresentationAccessScope::Group,
      ][c.pick(3)],
      coherent_access: c.bool(),
      ordered_access: c.bool(),
    });
  }
  if mask & 4 != 0 {
    q.deadline = Some(Deadline(gen_dur(c)));
  }
  if mask & 8 != 0 {
    q.latency_budget = Some(LatencyBudget {
      duration: gen_dur(c),
    });
  }
  if mask & 16 != 0 {
    q.ownership = Some(match c.pick(4) {
      0 => Ownership::Shared,
      1 => Ownership::Exclusive { strength: 0 },
      2 => Ownership::Exclusive { strength: 5 },
      _ => Ownership::Exclusive {
        strength: c.int_in(i64::from(i32::MIN), i64::from(i32::MAX)) as i32,
      },
    });
  }
  if mask & 32 != 0 {
    let lease_duration = gen_dur(c);
    q.liveliness = Some(match c.pick(3) {
      0 => Liveliness::Automatic { lease_duration },
      1 => Liveliness::ManualByParticipant { lease_duration },
      _ => Liveliness::ManualByTopic { lease_duration },
    });
  }
  if mask & 64 != 0 {
    q.reliability = Some(if c.bool() {
      Reliability::Reliable {
        max_blocking_time: gen_dur(c),
      }
    } else {
      Reliability::BestEffort
    });
  }
  if mask & 128 != 0 {
    q.destination_order = Some(
      [
        DestinationOrder::ByReceptionTimestamp,
        DestinationOrder::BySourceTimeStamp,
      ][c.pick(2)],
    );
  }
  if noise {
    let nm = c.byte();
    if nm & 1 != 0 {
      q.history = Some(if c.bool() {
        History::KeepAll
      } else {
        History::KeepLast {
          depth: c.int_in(1, 9) as i32,
        }
      });
    }
    if nm & 2 != 0 {
      q.resource_limits = Some(ResourceLimits {
        max_samples: c.int_in(-1, 100) as i32,
        max_instances: c.int_in(-1, 100) as i32,
        max_samples_per_instance: c.int_in(-1, 100) as i32,
      });
    }
    if nm & 4 != 0 {
      q.lifespan = Some(Lifespan {
        duration: gen_dur(c),
      });
    }
    if nm & 8 != 0 {
      q.time_based_filter = Some(TimeBasedFilter {
        minimum_separation: gen_dur(c),
      });
    }
  }
  q
}

fn live_kind(l: &Liveliness) -> u8 {
  match l {
    Liveliness::Automatic { .. } => 0,
    Liveliness::ManualByParticipant { .. } => 1,
    Liveliness::ManualByTopic { .. } => 2,
  }
}
fn live_lease(l: &Liveliness) -> Duration {
  match l {
    Liveliness::Automatic { lease_duration }
    | Liveliness::ManualByParticipant { lease_duration }
    | Liveliness::ManualByTopic { lease_duration } => *lease_duration,
  }
}
fn dur_kind(d: &Durability) -> u8 {
  match d {
    Durability::Volatile => 0,
    Durability::TransientLocal => 1,
    Durability::Transient => 2,
    Durability::Persistent => 3,
  }
}
fn scope_kind(s: &PresentationAccessScope) -> u8 {
  match s {
    PresentationAccessScope::Instance => 0,
    PresentationAccessScope::Topic => 1,
    PresentationAccessScope::Group => 2,
  }
}
fn dur_ticks(d: Duration) -> i64 {
  d.to_ticks()
}

/// Reference model. Returns (incompatible policies, number of common RxO policies,
/// number of common policies exactly on the boundary)
pub(crate) fn model(off: &QosPolicies, req: &QosPolicies) -> (Vec<QosPolicyId>, u32, u32) {
  let mut bad = Vec::new();
  let mut common = 0;
  let mut boundary = 0;
  if let (Some(o), Some(r)) = (off.durability, req.durability) {
    common += 1;
    if dur_kind(&o) < dur_kind(&r) {
      bad.push(QosPolicyId::Durability);
    } else if dur_kind(&o) == dur_kind(&r) {
      boundary += 1;
    }
  }
  if let (Some(o), Some(r)) = (off.presentation, req.presentation) {
    common += 1;
    let ok = (!r.coherent_access || o.coherent_access)
      && (!r.ordered_access || o.ordered_access)
      && scope_kind(&o.access_scope) >= scope_kind(&r.access_scope);
    if !ok {
      bad.push(QosPolicyId::Presentation);
    } else if o == r {
      boundary += 1;
    }
  }
  if let (Some(o), Some(r)) = (off.deadline, req.deadline) {
    common += 1;
    if dur_ticks(o.0) > dur_ticks(r.0) {
      bad.push(QosPolicyId::Deadline);
    } else if o.0 == r.0 {
      boundary += 1;
    }
  }
  if let (Some(o), Some(r)) = (off.latency_budget, req.latency_budget) {
    common += 1;
    if dur_ticks(o.duration) > dur_ticks(r.duration) {
      bad.push(QosPolicyId::LatencyBudget);
    } else if o.duration == r.duration {
      boundary += 1;
    }
  }
  if let (Some(o), Some(r)) = (off.ownership, req.ownership) {
    common += 1;
    let ok = matches!(
      (o, r),
      (Ownership::Shared, Ownership::Shared)
        | (Ownership::Exclusive { .. }, Ownership::Exclusive { .. })
    );
    if !ok {
      bad.push(QosPolicyId::Ownership);
    } else {
      boundary += 1;
    }
  }
  if let (Some(o), Some(r)) = (off.liveliness, req.liveliness) {
    common += 1;
    let ok =
      live_kind(&o) >= live_kind(&r) && dur_ticks(live_lease(&o)) <= dur_ticks(live_lease(&r));
    if !ok {
      bad.push(QosPolicyId::Liveliness);
    } else if live_kind(&o) == live_kind(&r) || live_lease(&o) == live_lease(&r) {
      boundary += 1;
    }
  }
  if let (Some(o), Some(r)) = (off.reliability, req.reliability) {
    common += 1;
    let ok = !(matches!(o, Reliability::BestEffort) && matches!(r, Reliability::Reliable { .. }));
    if !ok {
      bad.push(QosPolicyId::Reliability);
    } else if matches!(
      (o, r),
      (Reliability::BestEffort, Reliability::BestEffort)
        | (Reliability::Reliable { .. }, Reliability::Reliable { .. })
    ) {
      boundary += 1;
    }
  }
  if let (Some(o), Some(r)) = (off.destination_order, req.destination_order) {
    common += 1;
    let rank = |d: DestinationOrder| match d {
      DestinationOrder::ByReceptionTimestamp => 0,
      DestinationOrder::BySourceTimeStamp => 1,
    };
    if rank(o) < rank(r) {
      bad.push(QosPolicyId::DestinationOrder);
    } else if rank(o) == rank(r) {
      boundary += 1;
    }
  }
  (bad, common, boundary)
}

/// clause-specific key for known-finding signatures: which policy and direction
fn key_for(
  off: &QosPolicies,
  req: &QosPolicies,
  got: Option<QosPolicyId>,
  bad: &[QosPolicyId],
) -> String {
  match got {
    None => {
      // matched although incompatible: name the first model-incompatible policy
      let p = bad[0];
      if p == QosPolicyId::Liveliness {
        let (o, r) = (off.liveliness.unwrap(), req.liveliness.unwrap());
        if live_kind(&o) < live_kind(&r) {
          return "accepts:liveliness:offered-kind-weaker".into();
        }
        return "accepts:liveliness:offered-lease-longer".into();
      }
      format!("accepts:{p:?}")
    }
    Some(p) => {
      if p == QosPolicyId::Ownership {
        if let (Some(Ownership::Exclusive { .. }), Some(Ownership::Exclusive { .. })) =
          (off.ownership, req.ownership)
        {
          return "rejects:ownership:exclusive-strength-differs".into();
        }
      }
      format!("rejects:{p:?}")
    }
  }
}

fn check_pair(off: &QosPolicies, req: &QosPolicies, o: &mut Outcome, clause_prefix: &str) {
  let (bad, common, boundary) = model(off, req);
  let got = off.compliance_failure_wrt(req);
  if common >= 1 && (bad.len() == 1 || (bad.is_empty() && boundary >= 1)) {
    o.nontrivial = true;
  }
  for p in &bad {
    o.label(match p {
      QosPolicyId::Durability => "incompat-durability",
      QosPolicyId::Presentation => "incompat-presentation",
      QosPolicyId::Deadline => "incompat-deadline",
      QosPolicyId::LatencyBudget => "incompat-latency",
      QosPolicyId::Ownership => "incompat-ownership",
      QosPolicyId::Liveliness => "incompat-liveliness",
      QosPolicyId::Reliability => "incompat-reliability",
      QosPolicyId::DestinationOrder => "incompat-destorder",
      _ => "incompat-other",
    });
  }
  if bad.is_empty() {
    o.label(if common == 0 {
      "compatible-nothing-common"
    } else {
      "compatible"
    });
  }
  match got {
    None => {
      if !bad.is_empty() {
        let key = key_for(off, req, got, &bad);
        o.violate(
          &format!("{clause_prefix}.matched-but-incompatible"),
          &key,
          format!("compliance_failure_wrt returned None but reference finds {bad:?} incompatible; offered={off:?} requested={req:?}"),
        );
      }
    }
    Some(p) => {
      if bad.is_empty() {
        let key = key_for(off, req, got, &bad);
        o.violate(
          &format!("{clause_prefix}.rejected-but-compatible"),
          &key,
          format!("compliance_failure_wrt returned Some({p:?}) but reference finds the pair compatible; offered={off:?} requested={req:?}"),
        );
      } else if !bad.contains(&p) {
        let key = key_for(off, req, got, &bad);
        o.violate(
          &format!("{clause_prefix}.wrong-cause"),
          &key,
          format!("reported cause {p:?} is compatible; really incompatible: {bad:?}; offered={off:?} requested={req:?}"),
        );
      }
    }
  }
}

fn wire(q: &QosPolicies, e: Endianness) -> Result<QosPolicies, String> {
  let pl: Vec<Parameter> = q.to_parameter_list(e).map_err(|e| format!("{e:?}"))?;
  let mut map: BTreeMap<ParameterId, Vec<&Parameter>> = BTreeMap::new();
  for p in &pl {
    map.entry(p.parameter_id).or_default().push(p);
  }
  QosPolicies::from_parameter_list(e, &map).map_err(|e| format!("{e:?}"))
}

/// What the peer sees: QoS after PL-CDR. The verdict computed on the received form must equal
/// the verdict on the local form, on both sides.
fn check_wire_pair(off: &QosPolicies, req: &QosPolicies, e: Endianness, o: &mut Outcome) {
  match (wire(off, e), wire(req, e)) {
    (Ok(off_w), Ok(req_w)) => {
      // writer side sees (own offered, wire requested); reader side sees
      // (wire offered, own requested)
      check_pair(off, &req_w, o, "c10.wire-writer-side");
      check_pair(&off_w, req, o, "c10.wire-reader-side");
      let (bad, _, _) = model(off, req);
      let w = off.compliance_failure_wrt(&req_w).is_none();
      let r = off_w.compliance_failure_wrt(req).is_none();
      if w != r {
        o.violate(
          "c10.sides-disagree",
          "wire",
          format!("writer side matched={w}, reader side matched={r}; model incompatible={bad:?}"),
        );
      }
    }
    (a, b) => {
      o.violate(
        "c10.wire-roundtrip-error",
        "wire",
        format!("QoS failed to cross the wire: {:?} {:?}", a.err(), b.err()),
      );
    }
  }
}

pub fn run(scenario: u32, choices: &[u8], _strict: bool) -> Outcome {
  let mut c = Choices::new(choices);
  let mut o = Outcome::new();
  let noise = scenario != 0 || c.bool();
  let off = gen_qos(&mut c, noise);
  let req = gen_qos(&mut c, noise);
  o.sample = format!("offered={off:?} requested={req:?}");
  o.digest = fnv(o.sample.as_bytes()) ^ u64::from(scenario);
  match scenario {
    0 => check_pair(&off, &req, &mut o, "c10"),
    1 => {
      // What the peer sees: QoS after PL-CDR; both byte orders. The verdict
      // computed on the received form must equal the verdict on the local form.
      let e = if c.bool() {
        Endianness::BigEndian
      } else {
        Endianness::LittleEndian
      };
      o.label(if e == Endianness::BigEndian { "BE" } else { "LE" });
      check_wire_pair(&off, &req, e, &mut o);
    }
    9999 => {
      // replay of one case of the exhaustive enumeration: choices = index (u64 BE)
      let singles = singles();
      let mut c = Choices::new(choices);
      let idx = c.u64() as usize;
      let (i, j) = (idx / singles.len(), idx % singles.len());
      if i < singles.len() {
        o = Outcome::new();
        check_pair(&singles[i], &singles[j], &mut o, "c10");
        if !o.is_violation() {
          check_wire_pair(&singles[i], &singles[j], if (i + j) % 2 == 0 { Endianness::LittleEndian } else { Endianness::BigEndian }, &mut o);
        }
        o.sample = format!("offered={:?} requested={:?}", singles[i], singles[j]);
      }
    }
    _ => o.verdict = Verdict::Discard("unknown scenario".into()),
  }
  o
}

/// Exhaustive enumeration: every per-policy pair from the value pools, the other
/// policies absent (quick and thorough: the space is ~1000 pairs).
fn singles() -> Vec<QosPolicies> {
  let durs = dur_pool();
  let mut singles: Vec<QosPolicies> = Vec::new();
  let none = QosPolicies::qos_none;
  for d in [
    Durability::Volatile,
    Durability::TransientLocal,
    Durability::Transient,
    Durability::Persistent,
  ] {
    let mut q = none();
    q.durability = Some(d);
    singles.push(q);
  }
  for s in [
    PresentationAccessScope::Instance,
    PresentationAccessScope::Topic,
    PresentationAccessScope::Group,
  ] {
    for coh in [false, true] {
      for ord in [false, true] {
        let mut q = none();
        q.presentation = Some(Presentation {
          access_scope: s,
          coherent_access: coh,
          ordered_access: ord,
        });
        singles.push(q);
      }
    }
  }
  for d in durs {
    let mut q = none();
    q.deadline = Some(Deadline(d));
    singles.push(q);
    let mut q = none();
    q.latency_budget = Some(LatencyBudget { duration: d });
    singles.push(q);
    for k in 0..3 {
      let mut q = none();
      q.liveliness = Some(match k {
        0 => Liveliness::Automatic { lease_duration: d },
        1 => Liveliness::ManualByParticipant { lease_duration: d },
        _ => Liveliness::ManualByTopic { lease_duration: d },
      });
      singles.push(q);
    }
  }
  for ow in [
    Ownership::Shared,
    Ownership::Exclusive { strength: 0 },
    Ownership::Exclusive { strength: 5 },
    Ownership::Exclusive { strength: -1 },
    Ownership::Exclusive { strength: i32::MAX },
  ] {
    let mut q = none();
    q.ownership = Some(ow);
    singles.push(q);
  }
  for r in [
    Reliability::BestEffort,
    Reliability::Reliable {
      max_blocking_time: Duration::ZERO,
    },
    Reliability::Reliable {
      max_blocking_time: Duration::INFINITE,
    },
  ] {
    let mut q = none();
    q.reliability = Some(r);
    singles.push(q);
  }
  for d in [
    DestinationOrder::ByReceptionTimestamp,
    DestinationOrder::BySourceTimeStamp,
  ] {
    let mut q = none();
    q.destination_order = Some(d);
    singles.push(q);
  }
  singles
}

pub fn exhaustive(_thorough: bool) -> ExhaustiveReport {
  let mut rep = ExhaustiveReport {
    name: "all per-policy (offered,requested) pairs from the value pools, other policies absent",
    cases: 0,
    nontrivial: 0,
    complete: true,
    violation: None,
    samples: Vec::new(),
  };
  let singles = singles();
  for (i, off) in singles.iter().enumerate() {
    for (j, req) in singles.iter().enumerate() {
      let mut o = Outcome::new();
      check_pair(off, req, &mut o, "c10");
      if !o.is_violation() {
        // and as the two peers see each other after discovery (alternating byte order)
        check_wire_pair(off, req, if (i + j) % 2 == 0 { Endianness::LittleEndian } else { Endianness::BigEndian }, &mut o);
      }
      rep.cases += 1;
      if o.nontrivial {
        rep.nontrivial += 1;
      }
      if (i * 7 + j * 13) % 997 == 0 && rep.samples.len() < 4 {
        rep
          .samples
          .push(format!("offered={off:?} requested={req:?}"));
      }
      if o.is_violation() && rep.violation.is_none() {
        o.sample = format!("offered={off:?} requested={req:?}");
        let idx = (i * singles.len() + j) as u64;
        rep.violation = Some((idx.to_be_bytes().to_vec(), 9999, o));
      }
    }
  }
  rep
}

//! C13 — no wake-up is lost between the receive thread and a waiting application.
//!
//! Two real OS threads under the cooperative scheduler of sched.rs: the receive
//! side (a rig Reader processing DATA / GAP / HEARTBEAT datagrams, or a rig
//! Writer popping its command queue / completing an acknowledgment wait) and the
//! application side following the documented pattern on one of the waiting
//! mechanisms. The schedule (which thread runs after each yield point) is the
//! generated input.

use std::{
  collections::BTreeSet,
  future::Future,
  pin::Pin,
  sync::{
    atomic::{AtomicBool, AtomicUsize, Ordering},
    mpsc, Arc,
  },
  task::{Context, Poll, Wake, Waker},
  thread,
  time::Duration as StdDuration,
};

use byteorder::LittleEndian;
use futures::stream::Stream;

use super::{
  c09_badchange::Msg,
  fnv,
  frontend::{self, Raw, RawAdapter},
  hooks,
  rig::{self, eid_bytes, Node, RigReader, WriterEnds},
  sched::{self, Sched, CONSUMER, PRODUCER},
  wire, Choices, ExhaustiveReport, Outcome, Property, Scenario, Verdict,
};
use crate::{
  dds::{
    qos::{policy, QosPolicies, QosPolicyBuilder},
    readcondition::ReadCondition,
  },
  serialization::CDRSerializerAdapter,
  structure::{duration::Duration, guid::GUID},
};

pub fn property() -> Property {
  Property {
    id: "C13",
    level: "exploration",
    rule: "schedules: after every yield point (guarded hooks between cache insert + reliable-marker \
           update / waker take+wake / poll-event send / channel notify on the receive side; between \
           drain notifications / each take / store waker / re-check on the application side; between \
           failed try_send / store waker and queue pop / wake for async write) a byte of the choice \
           stream decides which of the two threads runs next. 8 scenarios: mio-0.6 and mio-0.8 with \
           SimpleDataReader, mio-0.6 with DataReader, SimpleDataReaderStream, DataReaderStream, \
           BareDataReaderStream, async write on a full queue, async wait for acknowledgments; 1-3 \
           samples arriving in or out of order with GAPs. Violation = the receive side is finished, \
           the application is parked with no wake pending, and a sample is available to it (resp. \
           the queue has room / the acknowledgment condition holds). Non-trivial = the schedule \
           switched threads at >= 2 yield points. Distinct = distinct (scenario, traffic, schedule).",
    assumptions: &[
      "interleavings are explored at the granularity of the inserted yield points (all outside locks the other thread can want); races inside one step and memory-ordering effects are out of reach",
      "mio readiness is read with a zero-timeout poll: it is kernel / registration state, not timing",
      "the application follows the documented pattern: drain notifications, then take until empty, then wait; async tasks are polled only when woken (strict executor)",
    ],
    scenarios: &[
      Scenario { id: 0, name: "mio-0.6 Evented + SimpleDataReader::try_take_one", quick: 1_500, thorough: 150_000, max_len: 80, max_threads: 0 },
      Scenario { id: 1, name: "mio-0.8 Source + SimpleDataReader::try_take_one", quick: 1_500, thorough: 150_000, max_len: 80, max_threads: 0 },
      Scenario { id: 2, name: "mio-0.6 Evented + DataReader::take_next_sample", quick: 1_500, thorough: 150_000, max_len: 80, max_threads: 0 },
      Scenario { id: 3, name: "SimpleDataReaderStream", quick: 1_500, thorough: 150_000, max_len: 80, max_threads: 0 },
      Scenario { id: 4, name: "DataReaderStream", quick: 1_500, thorough: 150_000, max_len: 80, max_threads: 0 },
      Scenario { id: 5, name: "BareDataReaderStream", quick: 1_500, thorough: 150_000, max_len: 80, max_threads: 0 },
      Scenario { id: 6, name: "async write on a full command queue", quick: 1_500, thorough: 150_000, max_len: 80, max_threads: 0 },
      Scenario { id: 7, name: "async wait for acknowledgments", quick: 1_000, thorough: 100_000, max_len: 80, max_threads: 0 },
      Scenario { id: 8, name: "completion channel of the asynchronous waits under two free-running threads (unscheduled stress: can only find, never prove)", quick: 40, thorough: 3_000, max_len: 40, max_threads: 4 },
    ],
    run,
    exhaustive: Some(exhaustive),
  }
}

/// Exhaustive enumeration of all schedules (every switch / no-switch decision at
/// every yield point that occurs) for small traffic scripts.
pub fn exhaustive(thorough: bool) -> ExhaustiveReport {
  let mut rep = ExhaustiveReport {
    name: "all schedules (every switch/no-switch decision at every yield point reached) of the reader scenarios for traffic scripts of 1-2 datagrams (quick: scenarios 0 and 3, one DATA)",
    cases: 0,
    nontrivial: 0,
    complete: true,
    violation: None,
    samples: Vec::new(),
  };
  let combos: Vec<(u32, usize)> = if thorough {
    let mut v = Vec::new();
    for sc in 0..6u32 {
      for script in [0usize, 2, 3] {
        v.push((sc, script));
      }
    }
    v
  } else {
    vec![(0, 0), (3, 0)]
  };
  let budget_per_combo: u64 = if thorough { 40_000 } else { 600 };
  // one thread per combination (each run itself uses two threads that take turns)
  struct ComboResult {
    cases: u64,
    nontrivial: u64,
    complete: bool,
    violation: Option<(Vec<u8>, u32, Outcome)>,
    sample: Option<String>,
  }
  let one = |sc: u32, script: usize| -> ComboResult {
    // depth-first over decision prefixes; a decision byte 255 = switch, 0 = stay
    let mut r = ComboResult {
      cases: 0,
      nontrivial: 0,
      complete: true,
      violation: None,
      sample: None,
    };
    let mut stack: Vec<Vec<u8>> = vec![vec![]];
    while let Some(prefix) = stack.pop() {
      if r.cases >= budget_per_combo {
        r.complete = false;
        break;
      }
      let mut o = Outcome::new();
      reader_case(sc, script, &prefix, &mut o);
      r.cases += 1;
      if o.nontrivial {
        r.nontrivial += 1;
      }
      // number of yield points reached in this run
      let n = o.sample.matches("\"C").count() + o.sample.matches("\"P").count();
      if r.cases == 7 {
        r.sample = Some(o.sample.clone());
      }
      if o.is_violation() {
        let mut bytes = vec![sc as u8, script as u8];
        bytes.extend_from_slice(&prefix);
        r.violation = Some((bytes, 9999, o));
        return r;
      }
      // children: keep the prefix, stay at the following positions, switch at position i
      for i in (prefix.len()..n).rev() {
        let mut child = prefix.clone();
        child.resize(i, 0);
        child.push(255);
        stack.push(child);
      }
    }
    r
  };
  let results: Vec<ComboResult> = thread::scope(|s| {
    let hs: Vec<_> = combos.iter().map(|(sc, script)| s.spawn(move || one(*sc, *script))).collect();
    hs.into_iter().map(|h| h.join().expect("C13 exhaustive thread")).collect()
  });
  for r in results {
    rep.cases += r.cases;
    rep.nontrivial += r.nontrivial;
    rep.complete &= r.complete;
    if let Some(s) = r.sample {
      if rep.samples.len() < 3 {
        rep.samples.push(s);
      }
    }
    if rep.violation.is_none() {
      rep.violation = r.violation;
    }
  }
  rep
}

struct FlagWaker {
  flag: AtomicBool,
  count: AtomicUsize,
}
impl Wake for FlagWaker {
  fn wake(self: Arc<Self>) {
    self.flag.store(true, Ordering::SeqCst);
    self.count.fetch_add(1, Ordering::SeqCst);
  }
}

fn payload(sn: i64) -> Vec<u8> {
  vec![0, 1, 0, 0, (sn % 4) as u8, sn as u8, 0x77, 0x11]
}

#[derive(Clone, Debug)]
enum Traffic {
  Data(i64),
  Gap(i64, i64),
  Heartbeat(i64, i64, i32),
  /// a DATA that cannot become a change (no payload, no key hash): the reader steps over it
  Unusable(i64),
}

/// scripts drawn directly (and enumerated); 14 and 15 are reached by a flag drawn last
const SCRIPTS: usize = 14;

fn script_is_best_effort(script: usize) -> bool {
  (7..=9).contains(&script)
}

fn script_has_two_readers(script: usize) -> bool {
  (10..=13).contains(&script)
}

fn gen_traffic(script: usize) -> (Vec<Traffic>, BTreeSet<i64>) {
  // small scripts in which the last datagram may be the one that releases samples
  let t = match script {
    0 => vec![Traffic::Data(1)],
    1 => vec![Traffic::Data(1), Traffic::Data(2)],
    2 => vec![Traffic::Data(2), Traffic::Data(1)],
    3 => vec![Traffic::Data(2), Traffic::Gap(1, 2)],
    4 => vec![Traffic::Data(3), Traffic::Data(1), Traffic::Heartbeat(3, 3, 1)],
    5 => vec![Traffic::Data(1), Traffic::Data(2), Traffic::Data(3)],
    6 => vec![Traffic::Data(2), Traffic::Data(3), Traffic::Gap(1, 2)],
    // 7-9: best-effort reader, holes in the sequence numbers
    7 => vec![Traffic::Data(1), Traffic::Data(3)],
    8 => vec![Traffic::Data(2)],
    9 => vec![Traffic::Data(1), Traffic::Data(2), Traffic::Data(4)],
    // 10-12: two reliable readers on one topic (one shared topic cache); the consumer owns the second
    10 => vec![Traffic::Data(1)],
    11 => vec![Traffic::Data(2), Traffic::Gap(1, 2)],
    12 => vec![Traffic::Data(2), Traffic::Data(1)],
    13 => vec![Traffic::Data(2), Traffic::Heartbeat(2, 2, 1)],
    // 14-15: the datagram that releases the waiting samples is a DATA that cannot become a change
    14 => vec![Traffic::Data(2), Traffic::Unusable(1)],
    _ => vec![Traffic::Data(2), Traffic::Data(3), Traffic::Unusable(1)],
  };
  if script_is_best_effort(script) {
    // a best-effort reader hands over whatever arrives with an increasing sequence number
    let mut last = 0;
    let mut d = BTreeSet::new();
    for x in &t {
      if let Traffic::Data(s) = x {
        if *s > last {
          d.insert(*s);
          last = *s;
        }
      }
    }
    return (t, d);
  }
  // deliverable at the end
  let mut rcv = BTreeSet::new();
  let mut unavailable = BTreeSet::new();
  let mut below = 1i64;
  for x in &t {
    match x {
      Traffic::Data(s) => {
        rcv.insert(*s);
      }
      Traffic::Gap(a, b) => {
        for s in *a..*b {
          unavailable.insert(s);
        }
      }
      Traffic::Heartbeat(f, _, _) => below = below.max(*f),
      Traffic::Unusable(s) => {
        unavailable.insert(*s);
      }
    }
  }
  let mut f = below;
  while rcv.contains(&f) || unavailable.contains(&f) {
    f += 1;
  }
  let deliverable: BTreeSet<i64> = rcv.into_iter().filter(|s| *s < f).collect();
  (t, deliverable)
}

fn datagram(t: &Traffic, wguid: GUID, rid: [u8; 4]) -> Vec<u8> {
  let mut dg = wire::rtps_header((2, 4), [1, 0x12], &wguid.prefix.bytes);
  let wid = eid_bytes(wguid.entity_id);
  match t {
    Traffic::Data(sn) => {
      let (f, b) = wire::data_body(
        true,
        &wire::DataSpec {
          reader_id: rid,
          writer_id: wid,
          sn: *sn,
          inline_qos: None,
          payload: Some(payload(*sn)),
          key_flag: false,
        },
      );
      wire::push_submessage(&mut dg, wire::DATA, f, &b, None);
    }
    Traffic::Unusable(sn) => {
      let (f, b) = wire::data_body(
        true,
        &wire::DataSpec {
          reader_id: rid,
          writer_id: wid,
          sn: *sn,
          inline_qos: Some(vec![(0x0056, vec![0, 0, 0, 0, 0, 0, 0, 1])]), // PID_COHERENT_SET only
          payload: None,
          key_flag: false,
        },
      );
      wire::push_submessage(&mut dg, wire::DATA, f, &b, None);
    }
    Traffic::Gap(a, b2) => {
      let (f, b) = wire::gap_body(true, rid, wid, *a, *b2, 0, &[]);
      wire::push_submessage(&mut dg, wire::GAP, f, &b, None);
    }
    Traffic::Heartbeat(first, last, count) => {
      let (f, b) = wire::heartbeat_body(true, rid, wid, *first, *last, *count, true, false);
      wire::push_submessage(&mut dg, wire::HEARTBEAT, f, &b, None);
    }
  }
  dg
}

fn reader_qos() -> QosPolicies {
  reader_qos_for(false)
}

fn reader_qos_for(best_effort: bool) -> QosPolicies {
  if best_effort {
    return QosPolicyBuilder::new()
      .reliability(policy::Reliability::BestEffort)
      .history(policy::History::KeepAll)
      .build();
  }
  QosPolicyBuilder::new()
    .reliability(policy::Reliability::Reliable {
      max_blocking_time: Duration::from_millis(100),
    })
    .history(policy::History::KeepAll)
    .build()
}

/// Scenarios 0-5. Returns Err((clause, key, detail)).
fn reader_scenario(scenario: u32, c: &mut Choices, o: &mut Outcome) {
  let script = c.pick(SCRIPTS);
  let sched_bytes: Vec<u8> = {
    let n = c.usize_in(0, 60);
    c.bytes(n)
  };
  // (drawn last) the scripts added later
  let script = match c.pick(5) {
    3 => 14,
    4 => 15,
    _ => script,
  };
  reader_case(scenario, script, &sched_bytes, o);
}

fn reader_case(scenario: u32, script: usize, sched_bytes: &[u8], o: &mut Outcome) {
  hooks::init_logging_from_env();
  // known finding: a second reader on a topic is not told about samples released by a GAP or
  // HEARTBEAT (the shared marker was already moved by the first reader)
  let mut script = script;
  if matches!(script, 11 | 13) && hooks::excluded("c13.two-readers-gap") {
    o.excluded += 1;
    script = 12;
  }
  let (traffic, deliverable) = gen_traffic(script);
  let lost_wakeup_key = if script_has_two_readers(script) && traffic.iter().any(|t| !matches!(t, Traffic::Data(_))) {
    "two-readers-one-topic:gap-or-heartbeat".to_string()
  } else if script_has_two_readers(script) {
    format!("two-readers-one-topic:scenario-{scenario}")
  } else {
    format!("scenario-{scenario}")
  };
  let sched_bytes: Vec<u8> = sched_bytes.to_vec();
  o.sample = format!("scenario={scenario} traffic={traffic:?} schedule={sched_bytes:?}");
  o.digest = fnv(o.sample.as_bytes());
  let sched = Sched::new(&sched_bytes, CONSUMER);
  let (tx, rx) = mpsc::channel::<RigReader>();
  let wguid = GUID::new(rig::node_prefix(90), rig::user_writer_eid(1, true));
  let reid = rig::user_reader_eid(1, true);
  let producer_error: Arc<std::sync::Mutex<Option<String>>> = Arc::new(std::sync::Mutex::new(None));

  let p_sched = Arc::clone(&sched);
  let p_traffic = traffic.clone();
  let p_err = Arc::clone(&producer_error);
  let (quit_tx, quit_rx) = mpsc::channel::<()>();
  let producer = thread::spawn(move || {
    let r = std::panic::catch_unwind(std::panic::AssertUnwindSafe(|| {
      hooks::clock_start();
      hooks::capture_start();
      let mut node = Node::new(0);
      let q = reader_qos_for(script_is_best_effort(script));
      let mut ri = node.add_reader(reid, "rig_topic_c13", &q);
      node
        .reader_mut(ri)
        .update_writer_proxy(rig::writer_proxy_for(wguid, rig::node_locator(90)), &q);
      let mut reader_ids = vec![eid_bytes(reid)];
      if script_has_two_readers(script) {
        // a second reader on the same topic; the application under observation owns this one
        let reid2 = rig::user_reader_eid(2, true);
        ri = node.add_reader_sharing(reid2, &q, ri);
        node
          .reader_mut(ri)
          .update_writer_proxy(rig::writer_proxy_for(wguid, rig::node_locator(90)), &q);
        reader_ids.push(eid_bytes(reid2));
      }
      let placeholder = RigReader {
        guid: node.readers[ri].guid,
        topic_name: String::new(),
        qos: q.clone(),
        topic_cache: node.readers[ri].topic_cache.clone(),
        ends: None,
      };
      let rr = std::mem::replace(&mut node.readers[ri], placeholder);
      let _ = tx.send(rr);
      sched::install(&p_sched, PRODUCER);
      p_sched.start(PRODUCER);
      for t in &p_traffic {
        // the same submessage reaches every reader on the topic, the first-created reader first
        for rid in &reader_ids {
          let dg = datagram(t, wguid, *rid);
          node.inject(&dg);
          let _ = hooks::capture_drain();
        }
        p_sched.yield_point(PRODUCER, 70);
      }
      hooks::yield_uninstall();
      p_sched.finish(PRODUCER);
      // The Reader must outlive the application's final check, as it does in a
      // participant: dropping it drops the notification sender, and mio-extras
      // then makes the channel readable once more to report the disconnection,
      // which would look like a wake-up.
      let _ = quit_rx.recv_timeout(StdDuration::from_secs(30));
      drop(node);
      hooks::capture_stop();
      hooks::clock_stop();
    }));
    if let Err(e) = r {
      let msg = e
        .downcast_ref::<String>()
        .cloned()
        .or_else(|| e.downcast_ref::<&str>().map(|s| s.to_string()))
        .unwrap_or_else(|| "panic".into());
      *p_err.lock().unwrap() = Some(msg);
      hooks::yield_uninstall();
    }
    p_sched.finish(PRODUCER);
  });

  let Ok(mut rr) = rx.recv_timeout(StdDuration::from_secs(20)) else {
    o.verdict = Verdict::Discard("producer did not start".into());
    sched.finish(CONSUMER);
    let _ = quit_tx.send(());
    let _ = producer.join();
    return;
  };
  hooks::clock_start();
  // virtual clocks are per thread: keep the application's clock ahead of the receive side's,
  // as a sample is never received after the moment the application looks for it
  hooks::clock_advance_nanos(1_000_000_000);
  sched::install(&sched, CONSUMER);
  let fw = Arc::new(FlagWaker {
    flag: AtomicBool::new(true),
    count: AtomicUsize::new(0),
  });
  let waker: Waker = fw.clone().into();
  let mut delivered: Vec<i64> = Vec::new();
  let mut violation: Option<(String, String, String)> = None;

  // run the consumer; `step` = one activation of the consumer task. Returns
  // Ok(true) if it should be activated again at once.
  macro_rules! consumer_loop {
    ($ready:expr, $activate:expr, $probe:expr) => {{
      loop {
        let ready: bool = $ready;
        if ready {
          if let Err(e) = $activate {
            violation = Some(e);
            break;
          }
          sched.yield_point(CONSUMER, 61);
          continue;
        }
        // parked
        if !sched.handoff(CONSUMER) {
          // the receive side has finished: is anything left for us although nothing woke us?
          let ready_now: bool = $ready;
          if ready_now {
            continue;
          }
          let left: Option<i64> = $probe;
          if let Some(sn) = left {
            violation = Some((
              "c13.lost-wakeup".into(),
              lost_wakeup_key.clone(),
              format!(
                "the receive side has finished, the application is parked with no readiness / wake pending, yet sample {sn} is available to it; delivered so far {delivered:?}"
              ),
            ));
          }
          break;
        }
      }
    }};
  }

  match scenario {
    0 | 1 => {
      let mut sdr = frontend::simple_reader::<Raw, RawAdapter>(&mut rr, true);
      let poll06 = mio_06::Poll::new().unwrap();
      let mut poll08 = mio_08::Poll::new().unwrap();
      if scenario == 0 {
        poll06
          .register(&sdr, mio_06::Token(1), mio_06::Ready::readable(), mio_06::PollOpt::edge())
          .unwrap();
      } else {
        poll08.registry().register(&mut sdr, mio_08::Token(1), mio_08::Interest::READABLE).unwrap();
      }
      let mut ev06 = mio_06::Events::with_capacity(8);
      let mut ev08 = mio_08::Events::with_capacity(8);
      consumer_loop!(
        {
          if scenario == 0 {
            poll06.poll(&mut ev06, Some(StdDuration::from_millis(0))).unwrap();
            ev06.iter().any(|e| e.token() == mio_06::Token(1))
          } else {
            poll08.poll(&mut ev08, Some(StdDuration::from_millis(0))).unwrap();
            ev08.iter().any(|e| e.token() == mio_08::Token(1))
          }
        },
        {
          // the documented pattern: drain notifications, then take until empty
          sdr.drain_read_notifications();
          let mut r: Result<(), (String, String, String)> = Ok(());
          loop {
            match sdr.try_take_one() {
              Ok(Some(d)) => {
                delivered.push(i64::from(d.sequence_number));
                sched.yield_point(CONSUMER, 60);
              }
              Ok(None) => break,
              Err(e) => {
                r = Err(("c13.take-error".into(), "take".into(), format!("{e:?}")));
                break;
              }
            }
          }
          r
        },
        {
          match sdr.try_take_one() {
            Ok(Some(d)) => Some(i64::from(d.sequence_number)),
            _ => None,
          }
        }
      );
    }
    2 => {
      let mut dr = frontend::data_reader::<Raw, RawAdapter>(&mut rr);
      let poll06 = mio_06::Poll::new().unwrap();
      poll06
        .register(&dr, mio_06::Token(1), mio_06::Ready::readable(), mio_06::PollOpt::edge())
        .unwrap();
      let mut ev06 = mio_06::Events::with_capacity(8);
      consumer_loop!(
        {
          poll06.poll(&mut ev06, Some(StdDuration::from_millis(0))).unwrap();
          ev06.iter().any(|e| e.token() == mio_06::Token(1))
        },
        {
          let mut r: Result<(), (String, String, String)> = Ok(());
          loop {
            match dr.take_next_sample() {
              Ok(Some(ds)) => {
                delivered.push(i64::from(ds.sample_info().sample_identity().sequence_number));
                sched.yield_point(CONSUMER, 60);
              }
              Ok(None) => break,
              Err(e) => {
                r = Err(("c13.take-error".into(), "take".into(), format!("{e:?}")));
                break;
              }
            }
          }
          r
        },
        {
          match dr.take_next_sample() {
            Ok(Some(ds)) => Some(i64::from(ds.sample_info().sample_identity().sequence_number)),
            _ => None,
          }
        }
      );
    }
    3 => {
      let sdr = frontend::simple_reader::<Raw, RawAdapter>(&mut rr, true);
      let mut stream = sdr.as_async_stream();
      consumer_loop!(
        fw.flag.swap(false, Ordering::SeqCst),
        {
          // a strict executor: poll until Pending
          let mut r: Result<(), (String, String, String)> = Ok(());
          loop {
            let mut cx = Context::from_waker(&waker);
            match Pin::new(&mut stream).poll_next(&mut cx) {
              Poll::Ready(Some(Ok(d))) => {
                delivered.push(i64::from(d.sequence_number));
                sched.yield_point(CONSUMER, 60);
              }
              Poll::Ready(Some(Err(e))) => {
                r = Err(("c13.take-error".into(), "stream".into(), format!("{e:?}")));
                break;
              }
              Poll::Ready(None) => break,
              Poll::Pending => break,
            }
          }
          r
        },
        {
          match sdr.try_take_one() {
            Ok(Some(d)) => Some(i64::from(d.sequence_number)),
            _ => None,
          }
        }
      );
    }
    4 | 5 => {
      // the probe needs its own access to the topic cache: a second SimpleDataReader
      // cannot share the read pointers, so probe through the stream itself with a
      // throw-away waker (a poll never loses data: a Ready item is recorded)
      let dr = frontend::data_reader::<Raw, RawAdapter>(&mut rr);
      let mut full = None;
      let mut bare = None;
      if scenario == 4 {
        full = Some(dr.async_sample_stream());
      } else {
        bare = Some(dr.async_bare_sample_stream());
      }
      let probe_waker: Waker = Arc::new(FlagWaker {
        flag: AtomicBool::new(false),
        count: AtomicUsize::new(0),
      })
      .into();
      let mut poll_once = |w: &Waker| -> Result<Option<i64>, (String, String, String)> {
        let mut cx = Context::from_waker(w);
        if let Some(s) = full.as_mut() {
          match Pin::new(s).poll_next(&mut cx) {
            Poll::Ready(Some(Ok(ds))) => Ok(Some(i64::from(ds.sample_info().sample_identity().sequence_number))),
            Poll::Ready(Some(Err(e))) => Err(("c13.take-error".into(), "stream".into(), format!("{e:?}"))),
            _ => Ok(None),
          }
        } else {
          match Pin::new(bare.as_mut().unwrap()).poll_next(&mut cx) {
            Poll::Ready(Some(Ok(crate::dds::with_key::datasample::Sample::Value(r)))) => Ok(Some(i64::from(r.bytes[1]))),
            Poll::Ready(Some(Ok(_))) => Ok(Some(-1)),
            Poll::Ready(Some(Err(e))) => Err(("c13.take-error".into(), "stream".into(), format!("{e:?}"))),
            _ => Ok(None),
          }
        }
      };
      consumer_loop!(
        fw.flag.swap(false, Ordering::SeqCst),
        {
          let mut r: Result<(), (String, String, String)> = Ok(());
          loop {
            match poll_once(&waker) {
              Ok(Some(sn)) => {
                delivered.push(sn);
                sched.yield_point(CONSUMER, 60);
              }
              Ok(None) => break,
              Err(e) => {
                r = Err(e);
                break;
              }
            }
          }
          r
        },
        { poll_once(&probe_waker).ok().flatten() }
      );
    }
    _ => {}
  }
  hooks::yield_uninstall();
  hooks::clock_stop();
  sched.finish(CONSUMER);
  let _ = quit_tx.send(());
  let _ = producer.join();
  frontend::drain_discovery_commands();
  if let Some(e) = producer_error.lock().unwrap().take() {
    o.violate("c13.receive-side-panic", "panic", e);
    return;
  }
  if let Some((clause, key, detail)) = violation {
    o.violate(&clause, &key, detail);
    return;
  }
  // every deliverable sample exactly once
  let got: BTreeSet<i64> = delivered.iter().copied().collect();
  if got.len() != delivered.len() {
    o.violate("c13.delivered-twice", &format!("scenario-{scenario}"), format!("delivered {delivered:?}"));
    return;
  }
  if got != deliverable {
    o.violate(
      "c13.delivery-mismatch",
      &format!("scenario-{scenario}"),
      format!("delivered {delivered:?}, deliverable {deliverable:?}"),
    );
    return;
  }
  let (switches, trace) = sched.summary();
  o.sample.push_str(&format!(
    " yield-trace={:?}",
    trace
      .iter()
      .map(|(t, id, sw)| format!("{}{}{}", if *t == CONSUMER { 'C' } else { 'P' }, id, if *sw { "!" } else { "" }))
      .collect::<Vec<_>>()
  ));
  o.nontrivial = switches >= 2;
  if switches >= 4 {
    o.label("switches>=4");
  }
  o.label(match traffic.len() {
    1 => "1-datagram",
    2 => "2-datagrams",
    _ => "3-datagrams",
  });
  if traffic.iter().any(|t| !matches!(t, Traffic::Data(_))) {
    o.label("marker-moved-by-gap-or-heartbeat");
  }
}

// ------------------------------------------------------------------ scenarios 6 and 7

fn writer_qos() -> QosPolicies {
  QosPolicyBuilder::new()
    .reliability(policy::Reliability::Reliable {
      max_blocking_time: Duration::from_secs(100_000),
    })
    .history(policy::History::KeepAll)
    .build()
}

fn writer_scenario(scenario: u32, c: &mut Choices, o: &mut Outcome) {
  // (scenario 7 writes synchronously first: its queue must never be full, a
  // blocking write would wait for a thread that is not scheduled)
  let cap = if scenario == 7 { 8 + c.pick(2) } else { 1 + c.pick(2) };
  let nwrites = if scenario == 6 { cap + 1 + c.pick(3) } else { 1 + c.pick(2) };
  let ack_early = c.bool();
  let sched_bytes: Vec<u8> = {
    let n = c.usize_in(0, 60);
    c.bytes(n)
  };
  // (drawn last) another task, with another waker, has used this DataWriter before: wake-ups
  // must go to the task that is waiting now, not to whoever registered first
  let other_task_first = scenario == 6 && c.chance(128);
  // (drawn last, scenario 7) a second matched reader that is BestEffort: it never acknowledges
  // and is not waited for
  let best_effort_bystander = scenario == 7 && c.chance(128);
  o.sample = format!("scenario={scenario} queue_capacity={cap} writes={nwrites} ack_early={ack_early} other_task_first={other_task_first} best_effort_bystander={best_effort_bystander} schedule={sched_bytes:?}");
  o.digest = fnv(o.sample.as_bytes());
  let sched = Sched::new(&sched_bytes, CONSUMER);
  let (tx, rx) = mpsc::channel::<(WriterEnds, GUID)>();
  let consumer_done = Arc::new(AtomicBool::new(false));
  let producer_idle = Arc::new(AtomicBool::new(false));
  let ack_now = Arc::new(AtomicBool::new(false));
  let acked = Arc::new(AtomicBool::new(false));
  let producer_error: Arc<std::sync::Mutex<Option<String>>> = Arc::new(std::sync::Mutex::new(None));
  let remote_reader = GUID::new(rig::node_prefix(91), rig::user_reader_eid(1, true));

  let p_sched = Arc::clone(&sched);
  let p_done = Arc::clone(&consumer_done);
  let p_idle = Arc::clone(&producer_idle);
  let p_ack_now = Arc::clone(&ack_now);
  let p_acked = Arc::clone(&acked);
  let p_err = Arc::clone(&producer_error);
  let producer = thread::spawn(move || {
    let r = std::panic::catch_unwind(std::panic::AssertUnwindSafe(|| {
      hooks::clock_start();
      hooks::capture_start();
      let mut node = Node::new(0);
      let guid = GUID::new(node.prefix, rig::user_writer_eid(1, true));
      let (ing, ends) = rig::writer_ingredients(guid, "rig_topic_c13w", &writer_qos(), cap, 64);
      let mut writer = crate::rtps::writer::Writer::new(
        ing,
        rig::udp_sender(),
        mio_extras::timer::Builder::default().build(),
        node.participant_status_tx.clone(),
      );
      if scenario == 7 {
        writer.update_reader_proxy(&rig::reader_proxy_for(remote_reader, rig::node_locator(91), &writer_qos()), &writer_qos());
        if best_effort_bystander {
          let be = GUID::new(rig::node_prefix(92), rig::user_reader_eid(2, true));
          writer.update_reader_proxy(&rig::reader_proxy_for(be, rig::node_locator(92), &rig::best_effort_qos()), &rig::best_effort_qos());
        }
      }
      let _ = tx.send((ends, guid));
      sched::install(&p_sched, PRODUCER);
      p_sched.start(PRODUCER);
      let mut written_seen = 0i64;
      loop {
        if p_done.load(Ordering::SeqCst) {
          break;
        }
        let before = writer.verif_first_last().1;
        writer.process_writer_command();
        let after = writer.verif_first_last().1;
        written_seen = i64::from(after);
        let progressed = after != before;
        if scenario == 7 && p_ack_now.load(Ordering::SeqCst) && !p_acked.load(Ordering::SeqCst) && written_seen >= 1 {
          // the remote reader acknowledges everything written so far
          let mut dg = wire::rtps_header((2, 4), [1, 0x12], &remote_reader.prefix.bytes);
          let (f, b) = wire::acknack_body(true, eid_bytes(remote_reader.entity_id), eid_bytes(guid.entity_id), written_seen + 1, 0, &[], 1, true);
          wire::push_submessage(&mut dg, wire::ACKNACK, f, &b, None);
          if let Ok(m) = crate::rtps::Message::read_from_buffer(&bytes::Bytes::from(dg)) {
            for sm in m.submessages {
              if let crate::rtps::SubmessageBody::Reader(crate::messages::submessages::submessages::ReaderSubmessage::AckNack(an, _)) = sm.body {
                writer.handle_ack_nack(remote_reader.prefix, &crate::messages::submessages::submessage::AckSubmessage::AckNack(an));
              }
            }
          }
          p_acked.store(true, Ordering::SeqCst);
          p_sched.yield_point(PRODUCER, 72);
          continue;
        }
        let _ = hooks::capture_drain();
        if progressed {
          p_idle.store(false, Ordering::SeqCst);
          p_sched.yield_point(PRODUCER, 71);
        } else {
          // nothing to do until the application acts
          p_idle.store(true, Ordering::SeqCst);
          if !p_sched.handoff(PRODUCER) {
            break;
          }
        }
      }
      let _ = node;
      hooks::yield_uninstall();
      hooks::capture_stop();
      hooks::clock_stop();
    }));
    if let Err(e) = r {
      let msg = e
        .downcast_ref::<String>()
        .cloned()
        .or_else(|| e.downcast_ref::<&str>().map(|s| s.to_string()))
        .unwrap_or_else(|| "panic".into());
      *p_err.lock().unwrap() = Some(msg);
      hooks::yield_uninstall();
    }
    p_sched.finish(PRODUCER);
  });

  let Ok((ends, guid)) = rx.recv_timeout(StdDuration::from_secs(20)) else {
    o.verdict = Verdict::Discard("producer did not start".into());
    sched.finish(CONSUMER);
    let _ = producer.join();
    return;
  };
  hooks::clock_start();
  sched::install(&sched, CONSUMER);
  let dw = frontend::data_writer::<Msg, CDRSerializerAdapter<Msg, LittleEndian>>(ends, guid, "rig_topic_c13w", &writer_qos());
  let fw = Arc::new(FlagWaker {
    flag: AtomicBool::new(true),
    count: AtomicUsize::new(0),
  });
  let waker: Waker = fw.clone().into();
  let mut violation: Option<(String, String, String)> = None;

  if other_task_first {
    // one write by another task; the queue is empty, so it completes at its first poll
    let other = Arc::new(FlagWaker {
      flag: AtomicBool::new(false),
      count: AtomicUsize::new(0),
    });
    let other_waker: Waker = other.clone().into();
    let mut cx = Context::from_waker(&other_waker);
    let mut f = Box::pin(dw.async_write(
      Msg {
        id: 1000,
        name: "other".into(),
        v: 2,
      },
      None,
    ));
    match f.as_mut().poll(&mut cx) {
      Poll::Ready(_) => o.label("another-task-wrote-first"),
      Poll::Pending => o.label("another-task-left-pending"),
    }
    drop(f);
  }

  // the application task
  let task = async {
    for i in 0..nwrites {
      if scenario == 6 {
        dw.async_write(
          Msg {
            id: i as u32,
            name: "x".into(),
            v: 1,
          },
          None,
        )
        .await
        .map_err(|e| format!("async_write: {e:?}"))?;
      } else {
        dw.write(
          Msg {
            id: i as u32,
            name: "x".into(),
            v: 1,
          },
          None,
        )
        .map_err(|e| format!("write: {e:?}"))?;
      }
    }
    if scenario == 7 {
      if ack_early {
        ack_now.store(true, Ordering::SeqCst);
      }
      let r = dw.async_wait_for_acknowledgments().await.map_err(|e| format!("wait: {e:?}"))?;
      if !r {
        return Err("async_wait_for_acknowledgments returned false".to_string());
      }
    }
    Ok::<(), String>(())
  };
  let mut task = Box::pin(task);
  let mut finished = false;
  let mut idle_rounds = 0;
  loop {
    if fw.flag.swap(false, Ordering::SeqCst) {
      idle_rounds = 0;
      let mut cx = Context::from_waker(&waker);
      match task.as_mut().poll(&mut cx) {
        Poll::Ready(Ok(())) => {
          finished = true;
          break;
        }
        Poll::Ready(Err(e)) => {
          violation = Some(("c13.task-error".into(), format!("scenario-{scenario}"), e));
          break;
        }
        Poll::Pending => {
          if scenario == 7 && !ack_early {
            ack_now.store(true, Ordering::SeqCst);
          }
          sched.yield_point(CONSUMER, 61);
        }
      }
      continue;
    }
    // parked: let the receive side run
    let more = sched.handoff(CONSUMER);
    if fw.flag.load(Ordering::SeqCst) {
      continue;
    }
    idle_rounds += 1;
    let stuck = !more || (producer_idle.load(Ordering::SeqCst) && idle_rounds >= 2 && (scenario == 6 || acked.load(Ordering::SeqCst)));
    if stuck {
      violation = Some((
        "c13.lost-wakeup".into(),
        format!("scenario-{scenario}"),
        if scenario == 6 {
          format!("the writer has emptied the command queue and is idle, but the task awaiting async_write was never woken (wakes so far: {})", fw.count.load(Ordering::SeqCst))
        } else {
          format!("the reliable reader has acknowledged every sample and the writer is idle, but the task awaiting async_wait_for_acknowledgments was never woken (wakes so far: {})", fw.count.load(Ordering::SeqCst))
        },
      ));
      break;
    }
  }
  let _ = finished;
  drop(task);
  consumer_done.store(true, Ordering::SeqCst);
  hooks::yield_uninstall();
  hooks::clock_stop();
  sched.finish(CONSUMER);
  let _ = producer.join();
  drop(dw);
  frontend::drain_discovery_commands();
  if let Some(e) = producer_error.lock().unwrap().take() {
    o.violate("c13.receive-side-panic", "panic", e);
    return;
  }
  if let Some((clause, key, detail)) = violation {
    o.violate(&clause, &key, detail);
    return;
  }
  let (switches, _) = sched.summary();
  o.nontrivial = switches >= 2;
  o.label(if scenario == 6 { "async-write" } else { "async-wait-for-acks" });
  if best_effort_bystander {
    o.label("best-effort-bystander");
  }
}

/// Scenario 8. The code between "look into the channel" and "leave the waker behind" in
/// `StatusReceiverStream::poll_next` runs under a lock that the sender takes too; a cooperative
/// yield point cannot be placed inside it (the other thread would block on the real mutex), so
/// this window is exercised with two free-running threads instead: per round, one thread polls
/// the stream once while the other sends the completion token, released together from a spin
/// barrier with a generated skew. After both have finished: if the poll returned Pending, the
/// waker was never called, and polling by hand now yields the token, a wake-up was lost. Every
/// report is a true violation; a clean run proves nothing (the schedule is not owned).
fn stress_scenario(c: &mut Choices, o: &mut Outcome) {
  use std::sync::atomic::AtomicU32;

  use crate::dds::statusevents::{sync_status_channel, StatusEvented};
  let rounds = 200 + 50 * c.pick(5);
  let skews: Vec<u32> = (0..16).map(|_| u32::from(c.byte())).collect();
  o.sample = format!("stress rounds={rounds} skews={skews:?}");
  o.digest = fnv(o.sample.as_bytes());
  let mut pending_rounds = 0u32;
  let mut woken_rounds = 0u32;
  for round in 0..rounds {
    let Ok((sender, mut receiver)) = sync_status_channel::<()>(1) else {
      o.verdict = Verdict::Discard("cannot create a status channel".into());
      return;
    };
    let fw = Arc::new(FlagWaker {
      flag: AtomicBool::new(false),
      count: AtomicUsize::new(0),
    });
    let waker: Waker = fw.clone().into();
    let gate = Arc::new(AtomicU32::new(0));
    let g2 = Arc::clone(&gate);
    let skew = skews[round % skews.len()];
    let producer = thread::spawn(move || {
      g2.fetch_add(1, Ordering::SeqCst);
      while g2.load(Ordering::SeqCst) < 2 {
        std::hint::spin_loop();
      }
      for _ in 0..skew {
        std::hint::spin_loop();
      }
      let _ = sender.try_send(());
      sender // keep the sender alive until the round has been judged
    });
    gate.fetch_add(1, Ordering::SeqCst);
    while gate.load(Ordering::SeqCst) < 2 {
      std::hint::spin_loop();
    }
    for _ in 0..(255 - skew) / 4 {
      std::hint::spin_loop();
    }
    let first = {
      let mut cx = Context::from_waker(&waker);
      let mut stream = receiver.as_async_status_stream();
      Pin::new(&mut stream).poll_next(&mut cx)
    };
    let sender = producer.join();
    if first.is_pending() {
      pending_rounds += 1;
      let woken = fw.count.load(Ordering::SeqCst) > 0;
      if woken {
        woken_rounds += 1;
      }
      let second = {
        let mut cx = Context::from_waker(&waker);
        let mut stream = receiver.as_async_status_stream();
        Pin::new(&mut stream).poll_next(&mut cx)
      };
      if !woken && matches!(second, Poll::Ready(Some(()))) {
        o.violate(
          "c13.lost-wakeup",
          "completion-channel:two-threads",
          format!("round {round}: the task polled the completion stream (Pending) while the writer side sent the token; the token is in the channel (polling by hand gives Ready), but the task's waker was never called - an awaiting task would sleep for ever (rounds that parked so far: {pending_rounds}, woken: {woken_rounds})"),
        );
        drop(sender);
        return;
      }
    }
    drop(sender);
  }
  o.nontrivial = pending_rounds > 0 && woken_rounds > 0;
  o.label("completion-channel-stress");
  if pending_rounds > 0 {
    o.label("stress:parked-then-woken");
  }
}

pub fn run(scenario: u32, choices: &[u8], _strict: bool) -> Outcome {
  let mut c = Choices::new(choices);
  let mut o = Outcome::new();
  match scenario {
    0..=5 => reader_scenario(scenario, &mut c, &mut o),
    6 | 7 => writer_scenario(scenario, &mut c, &mut o),
    8 => stress_scenario(&mut c, &mut o),
    9999 => {
      // replay of one schedule of the exhaustive enumeration: [scenario, script, decisions...]
      let sc = u32::from(choices.first().copied().unwrap_or(0));
      let script = usize::from(choices.get(1).copied().unwrap_or(0));
      reader_case(sc, script, choices.get(2..).unwrap_or(&[]), &mut o);
    }
    _ => o.verdict = Verdict::Discard("unknown scenario".into()),
  }
  o
}

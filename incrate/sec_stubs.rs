//! Stub Authentication and AccessControl plugins for rigs that exercise only the
//! cryptographic plugin and the gating code around it (C17). Nothing here is
//! consulted by the code under test except `get_shared_secret`.

use crate::{
  dds::qos::QosPolicies,
  discovery::{sedp_messages::TopicBuiltinTopicData, SpdpDiscoveredParticipantData},
  security::{
    access_control::{
      access_control_plugin::{AccessControl, LocalEntityAccessControl, ParticipantAccessControl, RemoteEntityAccessControl},
      types::*,
    },
    authentication::{authentication_plugin::Authentication, types::*},
    *,
  },
  structure::guid::{GuidPrefix, GUID},
};

pub struct StubAuth {
  /// identity handle of the local participant (handles are global numbers in the rig)
  pub local: IdentityHandle,
}

pub fn pair_secret(a: IdentityHandle, b: IdentityHandle) -> SharedSecretHandle {
  let (lo, hi) = (a.min(b) as u8, a.max(b) as u8);
  SharedSecretHandle {
    shared_secret: SharedSecret::from([lo.wrapping_mul(31).wrapping_add(hi); 32]),
    challenge1: Challenge::from([lo.wrapping_add(101); 32]),
    challenge2: Challenge::from([hi.wrapping_add(173); 32]),
  }
}

fn no<T>(what: &str) -> SecurityResult<T> {
  Err(security_error(&format!("rig stub: {what} is not available")))
}

impl Authentication for StubAuth {
  fn validate_local_identity(&mut self, _domain_id: u16, _participant_qos: &QosPolicies, _candidate_participant_guid: GUID) -> SecurityResult<(ValidationOutcome, IdentityHandle, GUID)> {
    no("validate_local_identity")
  }
  fn validate_remote_identity(
    &mut self,
    _remote_auth_request_token: Option<AuthRequestMessageToken>,
    _local_identity_handle: IdentityHandle,
    _remote_identity_token: IdentityToken,
    _remote_participant_guidp: GuidPrefix,
  ) -> SecurityResult<(ValidationOutcome, IdentityHandle, Option<AuthRequestMessageToken>)> {
    no("validate_remote_identity")
  }
  fn begin_handshake_request(&mut self, _i: IdentityHandle, _r: IdentityHandle, _d: Vec<u8>) -> SecurityResult<(ValidationOutcome, HandshakeHandle, HandshakeMessageToken)> {
    no("begin_handshake_request")
  }
  fn begin_handshake_reply(&mut self, _m: HandshakeMessageToken, _i: IdentityHandle, _r: IdentityHandle, _d: Vec<u8>) -> SecurityResult<(ValidationOutcome, HandshakeHandle, HandshakeMessageToken)> {
    no("begin_handshake_reply")
  }
  fn process_handshake(&mut self, _m: HandshakeMessageToken, _h: HandshakeHandle) -> SecurityResult<(ValidationOutcome, Option<HandshakeMessageToken>)> {
    no("process_handshake")
  }
  fn get_shared_secret(&self, handshake_handle: IdentityHandle) -> SecurityResult<SharedSecretHandle> {
    Ok(pair_secret(self.local, handshake_handle))
  }
  fn get_authenticated_peer_credential_token(&self, _h: HandshakeHandle) -> SecurityResult<AuthenticatedPeerCredentialToken> {
    no("get_authenticated_peer_credential_token")
  }
  fn get_identity_token(&self, _h: IdentityHandle) -> SecurityResult<IdentityToken> {
    no("get_identity_token")
  }
  fn get_identity_status_token(&self, _h: IdentityHandle) -> SecurityResult<IdentityStatusToken> {
    no("get_identity_status_token")
  }
  fn set_permissions_credential_and_token(&mut self, _h: IdentityHandle, _c: PermissionsCredentialToken, _t: PermissionsToken) -> SecurityResult<()> {
    no("set_permissions_credential_and_token")
  }
  fn set_listener(&self) -> SecurityResult<()> {
    no("set_listener")
  }
}

pub struct StubAccess;

impl AccessControl for StubAccess {}

impl ParticipantAccessControl for StubAccess {
  fn validate_local_permissions(&mut self, _a: &dyn Authentication, _i: IdentityHandle, _d: u16, _q: &QosPolicies) -> SecurityResult<PermissionsHandle> {
    no("validate_local_permissions")
  }
  fn validate_remote_permissions(
    &mut self,
    _a: &dyn Authentication,
    _l: IdentityHandle,
    _r: IdentityHandle,
    _t: &PermissionsToken,
    _c: &AuthenticatedPeerCredentialToken,
  ) -> SecurityResult<PermissionsHandle> {
    no("validate_remote_permissions")
  }
  fn check_create_participant(&self, _p: PermissionsHandle, _d: u16, _q: &QosPolicies) -> SecurityResult<bool> {
    no("check_create_participant")
  }
  fn check_remote_participant(&self, _p: PermissionsHandle, _d: u16, _data: Option<&SpdpDiscoveredParticipantData>) -> SecurityResult<bool> {
    no("check_remote_participant")
  }
  fn get_permissions_token(&self, _h: PermissionsHandle) -> SecurityResult<PermissionsToken> {
    no("get_permissions_token")
  }
  fn get_permissions_credential_token(&self, _h: PermissionsHandle) -> SecurityResult<PermissionsCredentialToken> {
    no("get_permissions_credential_token")
  }
  fn set_listener(&self) -> SecurityResult<()> {
    no("set_listener")
  }
  fn get_participant_sec_attributes(&self, _p: PermissionsHandle) -> SecurityResult<ParticipantSecurityAttributes> {
    no("get_participant_sec_attributes")
  }
}

impl LocalEntityAccessControl for StubAccess {
  fn check_create_datawriter(&self, _p: PermissionsHandle, _d: u16, _t: String, _q: &QosPolicies) -> SecurityResult<bool> {
    no("check_create_datawriter")
  }
  fn check_create_datareader(&self, _p: PermissionsHandle, _d: u16, _t: String, _q: &QosPolicies) -> SecurityResult<bool> {
    no("check_create_datareader")
  }
  fn check_create_topic(&self, _p: PermissionsHandle, _d: u16, _t: String, _q: &QosPolicies) -> SecurityResult<bool> {
    no("check_create_topic")
  }
  fn get_topic_sec_attributes(&self, _p: PermissionsHandle, _t: &str) -> SecurityResult<TopicSecurityAttributes> {
    no("get_topic_sec_attributes")
  }
  fn get_datawriter_sec_attributes(&self, _p: PermissionsHandle, _t: String) -> SecurityResult<EndpointSecurityAttributes> {
    no("get_datawriter_sec_attributes")
  }
  fn get_datareader_sec_attributes(&self, _p: PermissionsHandle, _t: String) -> SecurityResult<EndpointSecurityAttributes> {
    no("get_datareader_sec_attributes")
  }
}

impl RemoteEntityAccessControl for StubAccess {
  fn check_remote_datawriter(&self, _p: PermissionsHandle, _d: u16, _data: &PublicationBuiltinTopicDataSecure) -> SecurityResult<bool> {
    no("check_remote_datawriter")
  }
  fn check_remote_datareader(&self, _p: PermissionsHandle, _d: u16, _data: &SubscriptionBuiltinTopicDataSecure) -> SecurityResult<(bool, bool)> {
    no("check_remote_datareader")
  }
  fn check_remote_topic(&self, _p: PermissionsHandle, _d: u16, _data: &TopicBuiltinTopicData) -> SecurityResult<bool> {
    no("check_remote_topic")
  }
}

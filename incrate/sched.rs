//! Cooperative yield-point scheduler for C13: two real OS threads, exactly one
//! runs at a time, control changes hands only at yield points (the guarded
//! `hooks::yield_point(id)` calls in /repo plus explicit ones in the driver) and
//! the decision at every yield point comes from the choice stream. The schedule
//! therefore is the generated input: it shrinks and replays exactly.

use std::{
  sync::{Arc, Condvar, Mutex},
  time::Duration,
};

use super::hooks;

pub struct Inner {
  pub turn: usize,
  choices: Vec<u8>,
  pos: usize,
  pub done: [bool; 2],
  pub switches: u32,
  /// (thread, yield point id, switched)
  pub trace: Vec<(usize, u32, bool)>,
  pub window_switches: u32,
}

pub struct Sched {
  inner: Mutex<Inner>,
  cv: Condvar,
}

pub const CONSUMER: usize = 0;
pub const PRODUCER: usize = 1;

impl Sched {
  pub fn new(choices: &[u8], first: usize) -> Arc<Sched> {
    Arc::new(Sched {
      inner: Mutex::new(Inner {
        turn: first,
        choices: choices.to_vec(),
        pos: 0,
        done: [false, false],
        switches: 0,
        trace: Vec::new(),
        window_switches: 0,
      }),
      cv: Condvar::new(),
    })
  }

  fn wait_for_turn<'a>(&'a self, mut g: std::sync::MutexGuard<'a, Inner>, me: usize) -> std::sync::MutexGuard<'a, Inner> {
    while g.turn != me {
      let (g2, to) = self.cv.wait_timeout(g, Duration::from_secs(20)).unwrap();
      g = g2;
      if to.timed_out() && g.turn != me {
        panic!("VERIF-SCHED: thread {me} waited 20 s for its turn (a yield point sits inside a lock the other thread wants?)");
      }
    }
    g
  }

  /// block until it is this thread's turn (used at thread start)
  pub fn start(&self, me: usize) {
    let g = self.inner.lock().unwrap();
    drop(self.wait_for_turn(g, me));
  }

  /// a yield point: the choice stream decides whether the other thread runs now
  pub fn yield_point(&self, me: usize, id: u32) {
    let mut g = self.inner.lock().unwrap();
    let other = 1 - me;
    let b = g.choices.get(g.pos).copied().unwrap_or(0);
    g.pos += 1;
    let switch = b >= 150 && !g.done[other];
    g.trace.push((me, id, switch));
    if switch {
      g.switches += 1;
      g.turn = other;
      self.cv.notify_all();
      drop(self.wait_for_turn(g, me));
    }
  }

  /// unconditional hand-over (the thread has nothing to do until the other one acts).
  /// Returns false if the other thread has finished (nobody to hand over to).
  pub fn handoff(&self, me: usize) -> bool {
    let mut g = self.inner.lock().unwrap();
    let other = 1 - me;
    if g.done[other] {
      return false;
    }
    g.turn = other;
    self.cv.notify_all();
    drop(self.wait_for_turn(g, me));
    true
  }

  pub fn finish(&self, me: usize) {
    let mut g = self.inner.lock().unwrap();
    g.done[me] = true;
    g.turn = 1 - me;
    self.cv.notify_all();
  }

  pub fn other_done(&self, me: usize) -> bool {
    self.inner.lock().unwrap().done[1 - me]
  }

  pub fn summary(&self) -> (u32, Vec<(usize, u32, bool)>) {
    let g = self.inner.lock().unwrap();
    (g.switches, g.trace.clone())
  }
}

/// install this thread's yield callback
pub fn install(s: &Arc<Sched>, me: usize) {
  let s2 = Arc::clone(s);
  hooks::yield_install(Box::new(move |id| s2.yield_point(me, id)));
}

//! C04 — writer keeps what readers still need, bounds the rest, answers every
//! request, never leaks single-reader samples. Engine: wscript.rs (Focus::C04).

use super::{wscript, Outcome, Property, Scenario};

pub fn property() -> Property {
  Property {
    id: "C04",
    level: "exploration",
    rule: "histories of 5-80 steps over one real reliable Writer (History none / KeepLast(1..8) / \
           KeepAll, Volatile / TransientLocal, fragment size 24 / 40 / 1024) and 0-4 scripted remote \
           readers (reliable or best-effort): write (some to a single reader), crafted ACKNACK with \
           any non-decreasing base and any bitmap (inside and outside the advertised range), reader \
           match / loss / participant loss, heartbeat tick, timer firing, cache cleaning, in any \
           order; every emitted datagram is decoded independently per destination locator. \
           Non-trivial = a cleaning ran with >= 1 unacknowledged sample, or a request (NACK) was \
           made, or a single-reader sample existed with >= 2 matched readers. Distinct = distinct \
           decoded histories.",
    assumptions: &[
      "a scripted reader never lowers its ACKNACK base (a sane reliable reader; C03 checks RustDDS readers)",
      "History limit = depth (1 if unset), or the code's own resource limit 32 for KeepAll",
      "writer timers are wall-clock mio_extras timers: each timer step waits 3 ms, the verdict does not depend on the duration",
    ],
    scenarios: &[Scenario {
      id: 0,
      name: "writer script vs model",
      quick: 1_500,
      thorough: 150_000,
      max_len: 700,
      max_threads: 0,
    }],
    run,
    exhaustive: None,
  }
}

pub fn run(_scenario: u32, choices: &[u8], strict: bool) -> Outcome {
  wscript::run(wscript::Focus::C04, choices, strict)
}

//! Writer-side script engine shared by C04 and C20: one real reliable Writer
//! and a population of scripted remote readers played by the harness (crafted
//! ACKNACK bytes, match / loss), with heartbeat ticks, timers and cache cleaning
//! in any order. A model (what was written, what each reader acknowledged and
//! requested) evaluates the clauses of the property in focus.

use std::collections::{BTreeMap, BTreeSet};

use bytes::Bytes;

use super::{
  fnv, hex, hooks,
  rig::{self, eid_bytes, CaseGuard, Node},
  wire::{self, Decoded},
  Choices, Outcome,
};
use crate::{
  dds::{
    ddsdata::DDSData,
    qos::{policy, QosPolicies, QosPolicyBuilder},
    statusevents::{sync_status_channel, StatusChannelReceiver},
    with_key::datawriter::WriteOptionsBuilder,
  },
  messages::submessages::elements::serialized_payload::SerializedPayload,
  rtps::writer::WriterCommand,
  structure::{
    duration::Duration,
    guid::{EntityId, GUID},
    locator::Locator,
    sequence_number::SequenceNumber,
  },
  RepresentationIdentifier,
};

#[derive(Clone, Copy, PartialEq, Eq, Debug)]
pub enum Focus {
  C04,
  C20,
}

#[derive(Clone, Debug)]
enum Step {
  Write { len: usize, single: Option<usize> },
  AckNack { r: usize, base: i64, bits: BTreeSet<i64>, num_bits: u32 },
  Match { r: usize },
  Lose { r: usize },
  ParticipantLost { r: usize },
  HeartbeatTick,
  Timers,
  Clean,
  Wait,
  /// a reader asks for single fragments of a sample
  NackFrag { r: usize, sn: i64, frags: BTreeSet<u32> },
}

struct RemoteReader {
  idx: usize,
  guid: GUID,
  locator: Locator,
  reliable: bool,
  matched: bool,
  /// highest ACKNACK base processed while matched (0 = never acknowledged)
  acked_base: i64,
  last_base_sent: i64,
  count: i32,
  /// outstanding requests: sn -> () ; answered when the bytes or a covering GAP reach the locator
  pending: BTreeSet<i64>,
  /// fragments received per sn (for answering by DATAFRAG)
  frag_rx: BTreeMap<i64, BTreeMap<u32, Vec<u8>>>,
  /// sequence numbers covered by GAPs sent to this reader since it was matched
  gapped: BTreeSet<i64>,
  gap_below: i64,
  /// single-reader samples written for somebody else while this reader was matched
  must_be_gapped: BTreeSet<i64>,
  acked_since_single: BTreeSet<i64>,
  /// fragments requested by NACKFRAG (of samples the writer held then) and not yet sent to it
  pending_frags: BTreeMap<i64, BTreeSet<u32>>,
  nf_count: i32,
  /// last sequence number written when this reader was (last) matched
  matched_after: i64,
}

struct Written {
  payload: Vec<u8>, // incl. encapsulation header
  single: Option<usize>,
}

fn reader_node(i: usize) -> u8 {
  30 + i as u8
}

fn payload(sn: i64, len: usize, salt: u8) -> Vec<u8> {
  let mut p = vec![0u8, 1, 0, 0];
  for i in 0..len {
    p.push((i as u8).wrapping_mul(29) ^ salt ^ (sn as u8).wrapping_mul(7));
  }
  p
}

fn pad4(mut v: Vec<u8>) -> Vec<u8> {
  while v.len() % 4 != 0 {
    v.push(0);
  }
  v
}

struct WaitState {
  rx: StatusChannelReceiver<()>,
  wait_until: i64,
  pending: BTreeSet<usize>,
  /// model says the token is due
  due: bool,
  got: bool,
  replaced: bool,
}

pub fn run(focus: Focus, choices: &[u8], _strict: bool) -> Outcome {
  let mut c = Choices::new(choices);
  let mut o = Outcome::new();
  let _guard = CaseGuard::new();

  // ---------------------------------------------------------------- configuration
  let history = match c.pick(4) {
    0 => None,
    1 => Some(policy::History::KeepAll),
    _ => Some(policy::History::KeepLast {
      depth: c.int_in(1, 8) as i32,
    }),
  };
  let limit: usize = match history {
    None => 1,
    Some(policy::History::KeepAll) => 32,
    Some(policy::History::KeepLast { depth }) => depth as usize,
  };
  let transient_local = c.bool();
  let fsize = [24usize, 40, 1024][c.pick(3)];
  let mut qb = QosPolicyBuilder::new()
    .reliability(policy::Reliability::Reliable {
      max_blocking_time: Duration::from_millis(100),
    })
    .durability(if transient_local {
      policy::Durability::TransientLocal
    } else {
      policy::Durability::Volatile
    })
    // the repair timer re-arms with deadline/5: keep it at one millisecond
    .deadline(policy::Deadline(Duration::from_millis(5)));
  if let Some(h) = history {
    qb = qb.history(h);
  }
  let wqos = qb.build();
  let mut node = Node::new(0);
  let weid = rig::user_writer_eid(1, true);
  let wi = node.add_writer(weid, "rig_topic", &wqos);
  node.writers[wi].writer.data_max_size_serialized = fsize;
  let salt = c.byte();

  let nreaders = c.pick(5);
  let mut readers: Vec<RemoteReader> = (0..nreaders)
    .map(|i| RemoteReader {
      idx: i,
      guid: GUID::new(rig::node_prefix(reader_node(i / 2 * 2)), rig::user_reader_eid(i as u8 + 1, true)),
      locator: rig::node_locator(reader_node(i)),
      reliable: !c.chance(70),
      matched: false,
      acked_base: 0,
      last_base_sent: 0,
      count: 0,
      pending: BTreeSet::new(),
      frag_rx: BTreeMap::new(),
      gapped: BTreeSet::new(),
      gap_below: 0,
      must_be_gapped: BTreeSet::new(),
      acked_since_single: BTreeSet::new(),
      pending_frags: BTreeMap::new(),
      nf_count: 0,
      matched_after: 0,
    })
    .collect();
  // readers 0,1 share a participant (prefix), 2,3 another one
  let reader_qos = |reliable: bool| -> QosPolicies {
    if reliable {
      rig::reliable_qos()
    } else {
      rig::best_effort_qos()
    }
  };

  // ---------------------------------------------------------------- script
  let nsteps = c.usize_in(5, 80);
  let mut steps = Vec::new();
  // start with some readers matched
  for r in 0..nreaders {
    if c.chance(170) {
      steps.push(Step::Match { r });
    }
  }
  let mut last_guess = 0i64; // generator-side guess of the last written sn
  let mut bases = vec![0i64; nreaders];
  // usually some samples exist (and may already have been cleaned away) before
  // the conversation with the readers starts
  // (KeepAll has the resource limit 32: go beyond it now and then)
  let pre = if matches!(history, Some(policy::History::KeepAll)) && c.chance(90) {
    30 + c.pick(20)
  } else {
    c.pick(7)
  };
  for _ in 0..pre {
    last_guess += 1;
    steps.push(Step::Write {
      len: c.usize_in(1, 30),
      single: None,
    });
  }
  if pre > 0 && c.chance(100) {
    steps.push(Step::Clean);
  }
  for _ in 0..nsteps {
    let k = c.weighted(&match focus {
      Focus::C04 => [10u32, 10, 2, 2, 1, 4, 6, 6, 0],
      Focus::C20 => [10u32, 12, 2, 3, 1, 2, 3, 1, 6],
    });
    let step = match k {
      0 => {
        last_guess += 1;
        Step::Write {
          len: match c.pick(6) {
            0 => 1,
            1 => fsize.saturating_sub(4).max(1),
            2 => (fsize.saturating_sub(4) + 1).min(120),
            3 => (2 * fsize + 3).min(150),
            _ => c.usize_in(1, 40),
          },
          single: if nreaders > 0 && c.chance(40) {
            Some(c.pick(nreaders))
          } else {
            None
          },
        }
      }
      1 if nreaders > 0 => {
        let r = c.pick(nreaders);
        // a sane reader never lowers its base; any value otherwise
        let base = match c.pick(7) {
          0 => bases[r].max(1),
          1 => last_guess,
          2 => last_guess + 1,
          3 => last_guess + 2,
          4 => 0,
          _ => c.int_in(0, last_guess + 2),
        }
        .max(bases[r]);
        bases[r] = base;
        // a reader that has acknowledged nothing yet often asks for the old samples
        // (the late-joiner conversation)
        let eager = base <= 1 && c.chance(140);
        let num_bits = if eager { 16 } else { [0u32, 0, 1, 4, 16, 40][c.pick(6)] };
        let mut bits = BTreeSet::new();
        for k in 0..num_bits {
          if c.chance(if k == 0 || eager { 200 } else { 90 }) {
            bits.insert(base.max(1) + i64::from(k));
          }
        }
        Step::AckNack { r, base, bits, num_bits }
      }
      2 if nreaders > 0 => Step::Match { r: c.pick(nreaders) },
      3 if nreaders > 0 => Step::Lose { r: c.pick(nreaders) },
      4 if nreaders > 0 => Step::ParticipantLost { r: c.pick(nreaders) },
      5 => Step::HeartbeatTick,
      6 => Step::Timers,
      7 => Step::Clean,
      8 => Step::Wait,
      _ => Step::HeartbeatTick,
    };
    steps.push(step);
  }
  // NACKFRAG steps are drawn after everything else (saved inputs keep their meaning) and
  // inserted into the script: a reader asks for fragments of a sample, often followed at some
  // distance by an acknowledgment beyond it, a cleaning and the repair timers
  if focus == Focus::C04 && nreaders > 0 && last_guess > 0 {
    for _ in 0..c.pick(4) {
      let r = c.pick(nreaders);
      // by construction: mostly a sample that is written as fragments, asked for soon after it
      // was written (so that it is usually still held), fragments that exist
      let mut frag_writes: Vec<(usize, i64, u32)> = Vec::new();
      let mut sn_at = 0i64;
      for (i, st) in steps.iter().enumerate() {
        if let Step::Write { len, .. } = st {
          sn_at += 1;
          if len + 4 > fsize {
            frag_writes.push((i, sn_at, ((len + 4 + fsize - 1) / fsize) as u32));
          }
        }
      }
      let (at, sn, frags): (usize, i64, BTreeSet<u32>) = if !frag_writes.is_empty() && !c.chance(40) {
        let (i, sn, total) = frag_writes[c.pick(frag_writes.len())];
        let at = (i + 1 + c.pick(6)).min(steps.len());
        let beyond = usize::from(c.chance(30));
        (at, sn, (0..1 + c.pick(3)).map(|_| 1 + c.pick(total as usize + beyond) as u32).collect())
      } else {
        (c.pick(steps.len() + 1), 1 + c.pick(last_guess as usize) as i64, (0..1 + c.pick(3)).map(|_| 1 + c.pick(8) as u32).collect())
      };
      steps.insert(at, Step::NackFrag { r, sn, frags });
      if c.chance(110) {
        // the contradiction: the same reader acknowledges past the sample, the history is cleaned
        let mut at2 = (at + 1 + c.pick(3)).min(steps.len());
        steps.insert(at2, Step::AckNack { r, base: sn + 1 + c.pick(3) as i64, bits: BTreeSet::new(), num_bits: 0 });
        at2 = (at2 + 1 + c.pick(2)).min(steps.len());
        steps.insert(at2, Step::Clean);
        at2 = (at2 + 1).min(steps.len());
        steps.insert(at2, Step::Timers);
      }
    }
    // One deliberate block at the end of the script: fragments of sample N are asked for, then
    // everybody acknowledges N, N is cleaned away before the repair timer fires, and afterwards
    // the same reader asks for fragments of a newer sample M that is still held. Every datagram
    // is valid on its own. The request for M has to be served.
    if c.chance(110) {
      let mut frag_writes: Vec<(i64, u32)> = Vec::new();
      let mut sn_at = 0i64;
      for st in steps.iter() {
        if let Step::Write { len, single } = st {
          sn_at += 1;
          if len + 4 > fsize && single.is_none() {
            frag_writes.push((sn_at, ((len + 4 + fsize - 1) / fsize) as u32));
          }
        }
      }
      let total_written = sn_at;
      // the reader that has acknowledged least so far
      let mut running = vec![0i64; nreaders];
      for st in steps.iter() {
        if let Step::AckNack { r, base, .. } = st {
          running[*r] = running[*r].max(*base);
        }
      }
      let r = (0..nreaders).min_by_key(|x| running[*x]).unwrap_or(0);
      // Cleaning keeps `limit` samples below the front acknowledged by every reliable reader. So
      // the reader acknowledges up to B = N + limit + 1 (N can then be dropped), and M is a
      // fragmented sample at or above B (not acknowledged, therefore still held).
      let ns: Vec<(i64, u32)> = frag_writes.iter().copied().filter(|(sn, _)| sn + limit as i64 + 1 <= total_written + 1 && *sn >= running[r]).collect();
      if let Some(&(n, n_total)) = ns.get(c.pick(ns.len().max(1))) {
        let b = n + limit as i64 + 1;
        let ms: Vec<(i64, u32)> = frag_writes.iter().copied().filter(|(sn, _)| *sn >= b).collect();
        if let Some(&(m, m_total)) = ms.get(c.pick(ms.len().max(1))) {
          steps.push(Step::Match { r });
          steps.push(Step::NackFrag { r, sn: n, frags: [1 + c.pick(n_total as usize) as u32].into_iter().collect() });
          for x in 0..nreaders {
            steps.push(Step::AckNack { r: x, base: if x == r { b } else { total_written + 1 }, bits: BTreeSet::new(), num_bits: 0 });
          }
          steps.push(Step::Clean);
          steps.push(Step::Timers);
          steps.push(Step::NackFrag { r, sn: m, frags: [1 + c.pick(m_total as usize) as u32].into_iter().collect() });
          steps.push(Step::Timers);
          o.label("stale-nackfrag-block");
        }
      }
    }
    // a sane reader never lowers its base: the inserted acknowledgments must not make a later
    // one look like a step backwards
    let mut running = vec![0i64; nreaders];
    for st in steps.iter_mut() {
      if let Step::AckNack { r, base, bits, num_bits } = st {
        if *base < running[*r] {
          *base = running[*r];
          let b = *base;
          let nb = *num_bits;
          bits.retain(|x| *x >= b.max(1) && *x < b + i64::from(nb));
        }
        running[*r] = *base;
      }
    }
  }
  // (drawn last) the application supplies source timestamps: increasing, or with repeats and
  // steps backwards (several samples stamped with the time of one measurement)
  let ts_mode = if focus == Focus::C04 { c.pick(3) } else { 0 };
  o.sample = format!(
    "history={history:?} transient_local={transient_local} fragment_size={fsize} source_timestamps={} readers={:?} steps={steps:?}",
    ["none", "increasing", "repeating"][ts_mode],
    readers.iter().map(|r| (r.idx, r.reliable)).collect::<Vec<_>>()
  );
  o.digest = fnv(o.sample.as_bytes());

  // ---------------------------------------------------------------- execution
  let mut written: BTreeMap<i64, Written> = BTreeMap::new();
  let mut last_sn = 0i64;
  let mut waits: Vec<WaitState> = Vec::new();
  let mut nontrivial = false;

  macro_rules! fail {
    ($clause:expr, $key:expr, $($arg:tt)*) => {{
      o.violate($clause, $key, format!($($arg)*));
    }};
  }

  // process everything the writer emitted; returns Err on a violation
  let mut process_emitted = |readers: &mut Vec<RemoteReader>,
                             written: &BTreeMap<i64, Written>,
                             node: &Node,
                             last_sn: i64,
                             o: &mut Outcome,
                             stepno: usize| {
    let history: Vec<i64> = node.writers[wi].writer.verif_history_sns().into_iter().map(i64::from).collect();
    for (loc, bytes) in hooks::capture_drain() {
      let subs = match wire::decode_datagram(&bytes, true) {
        Ok((_, s)) => s,
        Err(e) => {
          o.violate("c04.malformed-datagram", "decode", format!("step {stepno}: writer emitted a datagram that does not decode: {e}; {}", hex(&bytes[..bytes.len().min(120)])));
          return;
        }
      };
      // which scripted readers listen on this locator
      let targets: Vec<usize> = readers.iter().filter(|r| r.locator == loc).map(|r| r.idx).collect();
      for (_raw, d) in subs {
        match d {
          Decoded::Data { sn, payload: Some(p), key_flag: false, .. } => {
            let Some(w) = written.get(&sn) else {
              o.violate("c04.data-unknown-sn", "data", format!("step {stepno}: DATA with sn {sn} that was never written"));
              return;
            };
            if p != pad4(w.payload.clone()) {
              o.violate("c04.data-bytes", "data", format!("step {stepno}: DATA sn {sn} carries {} instead of the written {}", hex(&p[..p.len().min(48)]), hex(&w.payload[..w.payload.len().min(48)])));
              return;
            }
            for t in &targets {
              if let Some(s) = w.single {
                if s != *t {
                  o.violate("c04.single-reader-leak", "data", format!("step {stepno}: sample {sn} written for reader {s} only was sent as DATA to reader {t} ({loc:?})"));
                  return;
                }
              }
              readers[*t].pending.remove(&sn);
            }
          }
          Decoded::DataFrag { sn, frag_start, frags_in_submessage, frag_size, sample_size, payload, .. } => {
            let Some(w) = written.get(&sn) else {
              o.violate("c04.data-unknown-sn", "datafrag", format!("step {stepno}: DATAFRAG with sn {sn} that was never written"));
              return;
            };
            let fs = frag_size as usize;
            let from = (frag_start as usize - 1) * fs;
            let to = ((frag_start as usize - 1 + frags_in_submessage as usize) * fs).min(w.payload.len());
            if sample_size as usize != w.payload.len() || from >= w.payload.len() || payload != w.payload[from..to] {
              o.violate("c04.data-bytes", "datafrag", format!("step {stepno}: DATAFRAG sn {sn} fragment {frag_start} does not carry the written bytes"));
              return;
            }
            let total = ((w.payload.len() + fs - 1) / fs) as u32;
            for t in &targets {
              if let Some(s) = w.single {
                if s != *t {
                  o.violate("c04.single-reader-leak", "datafrag", format!("step {stepno}: sample {sn} written for reader {s} only was sent as DATAFRAG to reader {t}"));
                  return;
                }
              }
              if let Some(pf) = readers[*t].pending_frags.get_mut(&sn) {
                for f in frag_start..frag_start + u32::from(frags_in_submessage) {
                  pf.remove(&f);
                }
                if pf.is_empty() {
                  readers[*t].pending_frags.remove(&sn);
                }
              }
              let e = readers[*t].frag_rx.entry(sn).or_default();
              e.insert(frag_start, payload.clone());
              if e.len() as u32 == total {
                readers[*t].frag_rx.remove(&sn);
                readers[*t].pending.remove(&sn);
              }
            }
          }
          Decoded::Gap { gap_start, list, reader_id, .. } => {
            for t in &targets {
              // a GAP addressed to another reader on the same locator does not count
              if reader_id != eid_bytes(readers[*t].guid.entity_id) && reader_id != eid_bytes(EntityId::UNKNOWN) {
                continue;
              }
              let rr = &mut readers[*t];
              let mut covered: BTreeSet<i64> = list.members();
              if gap_start <= list.base {
                if gap_start <= 1 {
                  rr.gap_below = rr.gap_below.max(list.base);
                } else {
                  covered.extend(gap_start..list.base);
                }
              }
              let gb = rr.gap_below;
              rr.pending.retain(|s| !(covered.contains(s) || *s < gb));
              rr.gapped.extend(covered);
            }
          }
          Decoded::Heartbeat { first, last, .. } => {
            let want_last = last_sn;
            let want_first = history.first().copied().unwrap_or(want_last + 1);
            // first == lowest sn retrievable from the history; before anything is
            // written (or when nothing is retained) first = last + 1
            if last != want_last {
              o.violate("c04.heartbeat-last", "hb", format!("step {stepno}: HEARTBEAT advertises last={last}, highest written is {want_last}"));
              return;
            }
            if first != want_first && !(history.is_empty() && first <= want_last + 1) {
              o.violate("c04.heartbeat-first", "hb", format!("step {stepno}: HEARTBEAT advertises first={first}, lowest retrievable is {want_first} (history {:?})", &history[..history.len().min(10)]));
              return;
            }
            if history.is_empty() && want_last > 0 && first <= want_last {
              // advertises samples it no longer has
              o.violate("c04.heartbeat-first", "hb-empty-history", format!("step {stepno}: HEARTBEAT advertises [{first},{last}] but nothing is retained"));
              return;
            }
          }
          _ => {}
        }
      }
    }
  };

  for (stepno, step) in steps.iter().enumerate() {
    match step {
      Step::Write { len, single } => {
        last_sn += 1;
        let p = payload(last_sn, *len, salt);
        let sp = SerializedPayload {
          representation_identifier: RepresentationIdentifier::CDR_LE,
          representation_options: [0, 0],
          value: Bytes::copy_from_slice(&p[4..]),
        };
        let mut wo = WriteOptionsBuilder::new();
        if let Some(s) = single {
          wo = wo.to_single_reader(readers[*s].guid);
        }
        match ts_mode {
          1 => {
            wo = wo.source_timestamp(crate::structure::time::Timestamp::from_ticks((3_000_000u64 << 32) + ((last_sn as u64) << 20)));
            o.label("source-timestamps-increasing");
          }
          2 => {
            let slot = u64::from(fnv(&[salt, last_sn as u8]) as u8 % 3);
            wo = wo.source_timestamp(crate::structure::time::Timestamp::from_ticks((3_000_000u64 << 32) + (slot << 24)));
            o.label("source-timestamps-repeating");
          }
          _ => {}
        }
        if node.writers[wi]
          .cmd_tx
          .try_send(WriterCommand::DDSData {
            ddsdata: DDSData::new(sp),
            write_options: wo.build(),
            sequence_number: SequenceNumber::from(last_sn),
          })
          .is_err()
        {
          o.verdict = super::Verdict::Discard("command queue full".into());
          return o;
        }
        written.insert(
          last_sn,
          Written {
            payload: p,
            single: *single,
          },
        );
        if let Some(s) = single {
          for r in readers.iter_mut() {
            if r.matched && r.idx != *s {
              r.must_be_gapped.insert(last_sn);
            }
          }
          if readers.iter().filter(|r| r.matched).count() >= 2 {
            o.label("single-reader");
            nontrivial = true;
          }
        }
        node.writers[wi].writer.process_writer_command();
      }
      Step::AckNack { r, base, bits, num_bits } => {
        let rr = &mut readers[*r];
        rr.count += 1;
        let mut dg = wire::rtps_header((2, 4), [1, 0x12], &rr.guid.prefix.bytes);
        let (f, b) = wire::info_dst_body(true, &rig::node_prefix(0).bytes);
        wire::push_submessage(&mut dg, wire::INFO_DST, f, &b, None);
        let (f, b) = wire::acknack_body(
          true,
          eid_bytes(rr.guid.entity_id),
          eid_bytes(weid),
          *base,
          *num_bits,
          &wire::bitmap_words(*base, *num_bits, bits),
          rr.count,
          true,
        );
        wire::push_submessage(&mut dg, wire::ACKNACK, f, &b, None);
        // model (only what a matched reader says counts)
        if rr.matched {
          let nb = (*base).max(1);
          rr.acked_base = rr.acked_base.max(nb);
          let ab = rr.acked_base;
          rr.pending.retain(|s| *s >= ab);
          rr.pending_frags.retain(|s, _| *s >= ab);
          if rr.reliable {
            for s in bits.iter().filter(|s| **s >= nb && **s < *base + i64::from(*num_bits)) {
              if *s >= 1 && *s <= last_sn {
                rr.pending.insert(*s);
                o.label("request");
                if node.writers[wi].writer.verif_history_get(SequenceNumber::from(*s)).is_none() {
                  o.label("request-evicted");
                  nontrivial = true;
                }
              }
            }
            if *base > last_sn + 1 {
              o.label("over-ack");
            }
          }
          // a reader that speaks after a single-reader sample must (eventually) get a GAP for it
          let mbg: Vec<i64> = rr.must_be_gapped.iter().copied().filter(|s| *s >= ab).collect();
          rr.acked_since_single.extend(mbg);
          // ack waiters
          for wst in waits.iter_mut().filter(|w| !w.got && !w.replaced) {
            if rr.reliable && nb > wst.wait_until && wst.pending.remove(&rr.idx) {
              if nb == wst.wait_until + 1 || nb == wst.wait_until + 2 {
                o.label("boundary-base");
              }
              if wst.pending.is_empty() {
                wst.due = true;
              }
            } else if rr.reliable && wst.pending.contains(&rr.idx) && (nb == wst.wait_until) {
              o.label("boundary-base");
            }
          }
        }
        hooks::tick_reset(5_000_000);
        node.inject(&dg);
        hooks::tick_disarm();
      }
      Step::NackFrag { r, sn, frags } => {
        let rr = &mut readers[*r];
        rr.nf_count += 1;
        let mut dg = wire::rtps_header((2, 4), [1, 0x12], &rr.guid.prefix.bytes);
        let (f, b) = wire::info_dst_body(true, &rig::node_prefix(0).bytes);
        wire::push_submessage(&mut dg, wire::INFO_DST, f, &b, None);
        let base = *frags.iter().next().unwrap_or(&1);
        let top = *frags.iter().next_back().unwrap_or(&1);
        let num_bits = top - base + 1;
        let mut words = vec![0u32; ((num_bits + 31) / 32) as usize];
        for fr in frags {
          let bit = fr - base;
          words[(bit / 32) as usize] |= 1u32 << (31 - bit % 32);
        }
        let (f, b) = wire::nackfrag_body(true, eid_bytes(rr.guid.entity_id), eid_bytes(weid), *sn, base, num_bits, &words, rr.nf_count);
        wire::push_submessage(&mut dg, wire::NACK_FRAG, f, &b, None);
        // model: fragments of a fragmented sample that the writer holds now, asked for by a matched
        // reliable reader that has not acknowledged it, have to be sent to that reader
        if rr.matched && rr.reliable && *sn >= rr.acked_base.max(1) {
          if let Some(w) = written.get(sn) {
            let held = node.writers[wi].writer.verif_history_get(SequenceNumber::from(*sn)).is_some();
            let total = ((w.payload.len() + fsize - 1) / fsize) as u32;
            // a Volatile late joiner is not owed the samples written before it was matched
            let for_me = w.single.map_or(true, |x| x == rr.idx) && (transient_local || *sn > rr.matched_after);
            if held && for_me && w.payload.len() > fsize {
              let want: BTreeSet<u32> = frags.iter().copied().filter(|fr| *fr >= 1 && *fr <= total).collect();
              if !want.is_empty() {
                rr.pending_frags.entry(*sn).or_default().extend(want);
                o.label("nackfrag-for-held-sample");
                nontrivial = true;
              }
            } else {
              o.label(if held { "nackfrag-for-unfragmented-or-foreign-sample" } else { "nackfrag-for-evicted-sample" });
            }
          }
        }
        if std::env::var_os("VERIF_WS_DEBUG").is_some() {
          eprintln!("WS step {stepno} NackFrag r={r} sn={sn} frags={frags:?} matched={} reliable={} acked_base={} held={} model_pending={:?} history={:?}", readers[*r].matched, readers[*r].reliable, readers[*r].acked_base, node.writers[wi].writer.verif_history_get(SequenceNumber::from(*sn)).is_some(), readers[*r].pending_frags, node.writers[wi].writer.verif_history_sns());
        }
        hooks::tick_reset(5_000_000);
        node.inject(&dg);
        hooks::tick_disarm();
      }
      Step::Match { r } => {
        let rr = &mut readers[*r];
        let q = reader_qos(rr.reliable);
        node.writers[wi]
          .writer
          .update_reader_proxy(&rig::reader_proxy_for(rr.guid, rr.locator, &q), &q);
        if !rr.matched {
          rr.matched = true;
          rr.acked_base = 0;
          rr.pending.clear();
          rr.pending_frags.clear();
          rr.matched_after = last_sn;
          rr.frag_rx.clear();
          rr.gapped.clear();
          rr.gap_below = 0;
          rr.must_be_gapped.clear();
          rr.acked_since_single.clear();
          if last_sn > 0 {
            o.label(if transient_local { "late-joiner-transient-local" } else { "late-joiner-volatile" });
          }
        }
      }
      Step::Lose { r } => {
        let g = readers[*r].guid;
        node.writers[wi].writer.reader_lost(g);
        lose(&mut readers[*r], &mut waits, &mut o);
      }
      Step::ParticipantLost { r } => {
        let prefix = readers[*r].guid.prefix;
        node.writers[wi].writer.participant_lost(prefix);
        for rr in readers.iter_mut().filter(|x| x.guid.prefix == prefix) {
          lose(rr, &mut waits, &mut o);
        }
      }
      Step::HeartbeatTick => node.writers[wi].writer.handle_heartbeat_tick(false),
      Step::Timers => {
        node.fire_writer_timers(wi);
      }
      Step::Clean => {
        node.writers[wi].writer.verif_handle_cache_cleaning();
        for rr in readers.iter_mut() {
          // fragments of a sample that is gone cannot be sent any more: no claim
          rr.pending_frags.retain(|s, _| node.writers[wi].writer.verif_history_get(SequenceNumber::from(*s)).is_some());
        }
        if focus == Focus::C04 {
          check_retention(&node, wi, &readers, &written, last_sn, limit, &mut o, stepno, &mut nontrivial);
        }
      }
      Step::Wait => {
        let (tx, rx) = sync_status_channel::<()>(1).expect("status channel");
        for w in waits.iter_mut().filter(|w| !w.got) {
          w.replaced = true;
        }
        let pending: BTreeSet<usize> = readers
          .iter()
          // pending = has not acknowledged every sample written before the call
          // (nothing written => nothing to acknowledge)
          .filter(|r| r.matched && r.reliable && last_sn >= 1 && r.acked_base <= last_sn)
          .map(|r| r.idx)
          .collect();
        if pending.is_empty() {
          o.label(if readers.iter().any(|r| r.matched && r.reliable) {
            "wait-all-acked-already"
          } else if readers.iter().any(|r| r.matched) {
            "wait-best-effort-only"
          } else {
            "wait-no-readers"
          });
        } else {
          o.label("wait-pending");
        }
        if waits.iter().any(|w| w.replaced) {
          o.label("second-wait");
        }
        waits.push(WaitState {
          rx,
          wait_until: last_sn,
          due: pending.is_empty(),
          pending,
          got: false,
          replaced: false,
        });
        let _ = node.writers[wi].cmd_tx.try_send(WriterCommand::WaitForAcknowledgments { all_acked: tx });
        node.writers[wi].writer.process_writer_command();
      }
    }
    if o.is_violation() {
      break;
    }
    if focus == Focus::C04 {
      process_emitted(&mut readers, &written, &node, last_sn, &mut o, stepno);
      if o.is_violation() {
        break;
      }
    } else {
      let _ = hooks::capture_drain();
    }
    // C20: completion tokens appear exactly when the model says so
    if focus == Focus::C20 {
      for (wn, wst) in waits.iter_mut().enumerate() {
        if wst.got {
          continue;
        }
        let token = wst.rx.try_recv().is_ok();
        if token {
          wst.got = true;
          if !wst.due {
            fail!(
              "c20.early-success",
              if wst.pending.iter().any(|r| readers[*r].acked_base == wst.wait_until + 0) { "boundary" } else { "pending" },
              "step {stepno}: wait #{wn} (samples up to {}) completed although reliable readers {:?} (acknowledged bases {:?}) were matched at the call and have neither acknowledged everything nor been lost",
              wst.wait_until,
              wst.pending,
              wst.pending.iter().map(|r| readers[*r].acked_base).collect::<Vec<_>>()
            );
            break;
          }
          nontrivial = nontrivial || o.labels.contains(&"wait-pending");
        } else if wst.due && !wst.replaced {
          fail!(
            "c20.no-success",
            "missing-token",
            "step {stepno}: wait #{wn} (samples up to {}): every reliable reader matched at the call has acknowledged or was lost, but no completion was signalled",
            wst.wait_until
          );
          break;
        }
      }
      if o.is_violation() {
        break;
      }
    }
  }

  // ---------------------------------------------------------------- C04: every request is answered
  if focus == Focus::C04 && !o.is_violation() {
    let mut quiet_rounds = 0;
    for round in 0..400 {
      let emitted = node.fire_writer_timers(wi);
      process_emitted(&mut readers, &written, &node, last_sn, &mut o, 10_000 + round);
      if o.is_violation() {
        break;
      }
      if emitted == 0 {
        quiet_rounds += 1;
        if quiet_rounds >= 2 {
          break;
        }
      } else {
        quiet_rounds = 0;
      }
    }
    // C06 (scenario 4 reads this label): once all traffic has stopped and the timers have gone
    // quiet, no reader proxy may still have repair fragments on request - in production the
    // repair timer re-arms itself every millisecond for as long as one has
    if !o.is_violation() {
      for _ in 0..8 {
        node.fire_writer_timers(wi);
      }
      let _ = hooks::capture_drain();
      let w = &node.writers[wi].writer;
      if w.verif_readers().iter().any(|g| w.verif_reader_proxy(*g).map_or(false, |rp| rp.repair_frags_requested())) {
        o.label("writer-repair-frags-never-drain");
      }
    }
    if !o.is_violation() {
      for rr in readers.iter().filter(|r| r.matched && r.reliable) {
        if let Some(sn) = rr.pending.iter().next() {
          let held = node.writers[wi].writer.verif_history_get(SequenceNumber::from(*sn)).is_some();
          fail!(
            "c04.request-unanswered",
            if held { "held" } else { "evicted" },
            "reader {} requested sn {sn} (advertised: 1..={last_sn}, {}) but after the repair timers went quiet neither its bytes nor a GAP covering it were sent to {:?}; outstanding {:?}",
            rr.idx,
            if held { "still in the history" } else { "no longer in the history" },
            rr.locator,
            rr.pending
          );
          break;
        }
        if let Some((sn, fr)) = rr.pending_frags.iter().find(|(s, _)| node.writers[wi].writer.verif_history_get(SequenceNumber::from(**s)).is_some()) {
          fail!(
            "c04.request-unanswered",
            "fragments",
            "reader {} asked by NACKFRAG for fragments {fr:?} of sample {sn}, which is still in the history, but after the repair timers went quiet they were not sent to {:?}; outstanding {:?}",
            rr.idx,
            rr.locator,
            rr.pending_frags
          );
          break;
        }
        // single-reader samples: a reader that spoke afterwards got a GAP for them
        if let Some(sn) = rr.acked_since_single.iter().find(|s| !rr.gapped.contains(s) && **s >= rr.gap_below && **s >= rr.acked_base) {
          fail!(
            "c04.single-reader-no-gap",
            "gap",
            "sample {sn} was written for another reader only; reader {} acknowledged (base {}) afterwards but was never sent a GAP covering it",
            rr.idx,
            rr.acked_base
          );
          break;
        }
      }
    }
  }
  o.nontrivial = nontrivial
    || (focus == Focus::C04 && o.labels.contains(&"request"))
    || (focus == Focus::C20 && o.labels.contains(&"wait-pending") && o.labels.contains(&"boundary-base"));
  o
}

fn lose(rr: &mut RemoteReader, waits: &mut [WaitState], o: &mut Outcome) {
  if rr.matched {
    o.label("reader-lost");
  }
  rr.matched = false;
  rr.pending.clear();
  rr.pending_frags.clear();
  rr.frag_rx.clear();
  rr.must_be_gapped.clear();
  rr.acked_since_single.clear();
  for w in waits.iter_mut().filter(|w| !w.got && !w.replaced) {
    if w.pending.remove(&rr.idx) && w.pending.is_empty() {
      w.due = true;
    }
  }
}

#[allow(clippy::too_many_arguments)]
fn check_retention(
  node: &Node,
  wi: usize,
  readers: &[RemoteReader],
  written: &BTreeMap<i64, Written>,
  last_sn: i64,
  limit: usize,
  o: &mut Outcome,
  stepno: usize,
  nontrivial: &mut bool,
) {
  let history: BTreeSet<i64> = node.writers[wi].writer.verif_history_sns().into_iter().map(i64::from).collect();
  let reliable_matched: Vec<&RemoteReader> = readers.iter().filter(|r| r.matched && r.reliable).collect();
  // unacknowledged by some currently matched reliable reader
  let unacked: BTreeSet<i64> = written
    .keys()
    .copied()
    .filter(|sn| reliable_matched.iter().any(|r| r.acked_base.max(1) <= *sn))
    .collect();
  let population = if readers.iter().all(|r| !r.matched) {
    "no-readers"
  } else if reliable_matched.is_empty() {
    "best-effort-only"
  } else if readers.iter().any(|r| r.matched && !r.reliable) {
    "mixed"
  } else {
    "reliable-only"
  };
  o.label(population);
  if !unacked.is_empty() {
    *nontrivial = true;
    o.label("clean-with-unacked");
  }
  // lower bound: among the newest `limit` written, the unacknowledged ones are still there
  let newest: Vec<i64> = written.keys().rev().take(limit).copied().collect();
  for sn in &newest {
    if unacked.contains(sn) && !history.contains(sn) {
      o.violate(
        "c04.retention-lost",
        population,
        format!("step {stepno}: after cache cleaning sample {sn} (among the newest {limit}, unacknowledged by a matched reliable reader) is gone; history {:?}", history),
      );
      return;
    }
  }
  // upper bound
  let bound = limit + unacked.len();
  if history.len() > bound {
    o.violate(
      "c04.retention-unbounded",
      population,
      format!(
        "step {stepno}: after cache cleaning the writer retains {} samples ({:?}..{:?}) with {} written; History limit {limit} + {} unacknowledged by currently matched reliable readers = {bound} ({population})",
        history.len(),
        history.iter().next(),
        history.iter().next_back(),
        last_sn,
        unacked.len()
      ),
    );
  }
}

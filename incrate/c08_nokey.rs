//! C08, scenario 1 — the no_key DataReader.
//!
//! A NoKey topic is a topic with one instance that is never disposed. The no_key
//! DataReader must therefore answer every access call exactly as the with_key
//! DataReader answers it for a history of values on a single instance. Both
//! readers are real (built on two rig readers' topic caches), both receive the same
//! arrivals (same writers, sequence numbers, receive timestamps, History QoS), and
//! after every access call the results are compared: number of samples, values,
//! sample identity (writer, sequence number) and the sample / view / instance
//! state and generation counts. The with_key reader is the reference here; it is
//! itself checked against the DDS model in scenario 0.

use bytes::Bytes;

use super::{
  fnv,
  frontend::{self, Raw, RawAdapter},
  hooks,
  rig::{self, CaseGuard, Node},
  Choices, Outcome,
};
use crate::{
  dds::{
    no_key::wrappers::{DAWrapper, NoKeyWrapper},
    ddsdata::DDSData,
    no_key,
    qos::{policy, QosPolicyBuilder},
    readcondition::ReadCondition,
    sampleinfo::SampleInfo,
    with_key::{datareader::DataReader, datasample::Sample, datawriter::WriteOptions},
  },
  messages::submessages::elements::serialized_payload::SerializedPayload,
  structure::{
    cache_change::CacheChange,
    duration::Duration,
    guid::GUID,
    sequence_number::SequenceNumber,
    time::Timestamp,
  },
  RepresentationIdentifier,
};

#[derive(Clone, Debug)]
enum Op {
  Value { w: usize },
  Read { max: usize, not_read: bool },
  Take { max: usize, not_read: bool },
  ReadNext,
  TakeNext,
  Iter { take: bool, conditional_any: Option<bool> },
}

/// what is compared of one returned sample
#[derive(Clone, Debug, PartialEq, Eq)]
struct Got {
  value: Vec<u8>,
  /// None for the bare iterator forms
  info: Option<String>,
}

fn project(i: &SampleInfo) -> String {
  format!(
    "{:?} {:?} {:?} dgc={} nwgc={} writer={:?} sn={:?}",
    i.sample_state(),
    i.view_state(),
    i.instance_state(),
    i.disposed_generation_count(),
    i.no_writers_generation_count(),
    i.writer_guid(),
    i.sample_identity().sequence_number,
  )
}

pub fn run(choices: &[u8]) -> Outcome {
  let mut c = Choices::new(choices);
  let mut o = Outcome::new();
  let _guard = CaseGuard::new();

  // ---------------------------------------------------------------- configuration
  let reliable = c.bool();
  let history: Option<policy::History> = match c.pick(4) {
    0 => None,
    1 => Some(policy::History::KeepAll),
    _ => Some(policy::History::KeepLast { depth: c.int_in(1, 4) as i32 }),
  };
  let msi: Option<usize> = if matches!(history, Some(policy::History::KeepAll)) && c.chance(80) { Some(c.usize_in(1, 3)) } else { None };
  let nwriters = 1 + c.weighted(&[5, 3, 2]);
  let mut qb = QosPolicyBuilder::new();
  qb = if reliable {
    qb.reliability(policy::Reliability::Reliable {
      max_blocking_time: Duration::from_millis(100),
    })
  } else {
    qb.reliability(policy::Reliability::BestEffort)
  };
  if let Some(h) = history {
    qb = qb.history(h);
  }
  if let Some(m) = msi {
    qb = qb.resource_limits(policy::ResourceLimits {
      max_samples: 10_000,
      max_instances: 10_000,
      max_samples_per_instance: m as i32,
    });
  }
  let qos = qb.build();
  let mut node = Node::new(0);
  let rk = node.add_reader(rig::user_reader_eid(1, true), "rig_topic_keyed", &qos);
  let rn = node.add_reader(rig::user_reader_eid(2, false), "rig_topic_nokey", &qos);
  let tck = node.readers[rk].topic_cache.clone();
  let tcn = node.readers[rn].topic_cache.clone();
  let mut keyed: DataReader<Raw, RawAdapter> = frontend::data_reader::<Raw, RawAdapter>(&mut node.readers[rk]);
  let mut nokey: no_key::DataReader<Raw, RawAdapter> =
    no_key::DataReader::<Raw, RawAdapter>::from_keyed(frontend::data_reader::<NoKeyWrapper<Raw>, DAWrapper<RawAdapter>>(&mut node.readers[rn]));
  let wguids: Vec<GUID> = (0..nwriters).map(|i| GUID::new(rig::node_prefix(40 + i as u8), rig::user_writer_eid(1, true))).collect();
  o.label(if reliable { "reliable" } else { "best-effort" });
  o.label("no_key");

  // ---------------------------------------------------------------- history
  let nops = c.usize_in(5, 50);
  let gen_max = |c: &mut Choices| [0usize, 1, 2, usize::MAX, usize::MAX][c.pick(5)];
  let mut ops = Vec::new();
  for _ in 0..nops {
    let w = c.pick(nwriters);
    ops.push(match c.weighted(&[14, 4, 5, 2, 2, 3]) {
      0 => Op::Value { w },
      1 => Op::Read { max: gen_max(&mut c), not_read: c.bool() },
      2 => Op::Take { max: gen_max(&mut c), not_read: c.bool() },
      3 => Op::ReadNext,
      4 => Op::TakeNext,
      _ => Op::Iter {
        take: c.bool(),
        conditional_any: match c.pick(3) {
          0 => None,
          1 => Some(true),
          _ => Some(false),
        },
      },
    });
  }
  let reorder_plan: Vec<bool> = (0..16).map(|_| c.chance(40)).collect();
  o.sample = format!("no_key reliable={reliable} history={history:?} max_samples_per_instance={msi:?} writers={nwriters} ops={ops:?}");
  o.digest = fnv(o.sample.as_bytes());

  let mut next_sn = vec![1i64; nwriters];
  let mut overtaken: Vec<Option<i64>> = vec![None; nwriters];
  let mut arrived: Vec<std::collections::BTreeSet<i64>> = vec![Default::default(); nwriters];
  let mut frontier = vec![1i64; nwriters];
  let mut accesses_after_arrival = 0;
  let mut arrival_since_access = false;
  let mut returned_something = 0;

  macro_rules! fail {
    ($clause:expr, $key:expr, $($arg:tt)*) => {{
      o.violate($clause, $key, format!($($arg)*));
      return o;
    }};
  }

  for (opno, op) in ops.iter().enumerate() {
    if let Op::Value { w } = op {
      let sn = if let Some(late) = overtaken[*w].take() {
        late
      } else if reorder_plan[opno % reorder_plan.len()] {
        overtaken[*w] = Some(next_sn[*w]);
        next_sn[*w] += 2;
        o.label("arrival-out-of-sn-order");
        next_sn[*w] - 1
      } else {
        next_sn[*w] += 1;
        next_sn[*w] - 1
      };
      arrived[*w].insert(sn);
      while arrived[*w].contains(&frontier[*w]) {
        frontier[*w] += 1;
      }
      // first byte 0: the with_key reader sees one instance (key 0)
      let v = vec![0u8, *w as u8, sn as u8, (sn >> 8) as u8, 0xEE, 0x5a];
      let ts = Timestamp::now();
      for tc in [&tck, &tcn] {
        let data = DDSData::new(SerializedPayload {
          representation_identifier: RepresentationIdentifier::CDR_LE,
          representation_options: [0, 0],
          value: Bytes::from(v.clone()),
        });
        let mut g = tc.lock().unwrap();
        g.add_change(&ts, CacheChange::new(wguids[*w], SequenceNumber::from(sn), WriteOptions::default(), data));
        g.mark_reliably_received_before(wguids[*w], SequenceNumber::from(frontier[*w]));
      }
      arrival_since_access = true;
      continue;
    }
    if arrival_since_access {
      accesses_after_arrival += 1;
      arrival_since_access = false;
    }
    let cond = |not_read: bool| if not_read { ReadCondition::not_read() } else { ReadCondition::any() };
    let k_ref = |v: Vec<crate::dds::with_key::datasample::DataSample<&Raw>>| -> Vec<Got> {
      v.into_iter()
        .filter_map(|ds| match ds.value() {
          Sample::Value(r) => Some(Got {
            value: r.bytes.clone(),
            info: Some(project(ds.sample_info())),
          }),
          Sample::Dispose(_) => None,
        })
        .collect()
    };
    let k_own = |v: Vec<crate::dds::with_key::datasample::DataSample<Raw>>| -> Vec<Got> {
      v.into_iter()
        .filter_map(|ds| {
          let info = Some(project(ds.sample_info()));
          match ds.into_value() {
            Sample::Value(r) => Some(Got { value: r.bytes, info }),
            Sample::Dispose(_) => None,
          }
        })
        .collect()
    };
    let n_ref = |v: Vec<no_key::DataSample<&Raw>>| -> Vec<Got> {
      v.into_iter()
        .map(|ds| Got {
          value: ds.value().bytes.clone(),
          info: Some(project(ds.sample_info())),
        })
        .collect()
    };
    let n_own = |v: Vec<no_key::DataSample<Raw>>| -> Vec<Got> {
      v.into_iter()
        .map(|ds| {
          let info = Some(project(ds.sample_info()));
          Got { value: ds.into_value().bytes, info }
        })
        .collect()
    };
    let bare = |bytes: Vec<u8>| Got { value: bytes, info: None };
    hooks::tick_reset(1_000_000);
    let name: &str;
    let max: usize;
    let (want, got): (Vec<Got>, Vec<Got>) = match op {
      Op::Read { max: m, not_read: nr } => {
        name = "read";
        max = *m;
        let a = match keyed.read(*m, cond(*nr)) {
          Ok(v) => k_ref(v),
          Err(e) => fail!("c08.read-error", "keyed-reference", "op {opno}: {e:?}"),
        };
        let b = match nokey.read(*m, cond(*nr)) {
          Ok(v) => n_ref(v),
          Err(e) => fail!("c08.read-error", "no_key.read", "op {opno}: {e:?}"),
        };
        (a, b)
      }
      Op::Take { max: m, not_read: nr } => {
        name = "take";
        max = *m;
        let a = match keyed.take(*m, cond(*nr)) {
          Ok(v) => k_own(v),
          Err(e) => fail!("c08.read-error", "keyed-reference", "op {opno}: {e:?}"),
        };
        let b = match nokey.take(*m, cond(*nr)) {
          Ok(v) => n_own(v),
          Err(e) => fail!("c08.read-error", "no_key.take", "op {opno}: {e:?}"),
        };
        (a, b)
      }
      Op::ReadNext => {
        name = "read_next_sample";
        max = 1;
        let a = match keyed.read_next_sample() {
          Ok(v) => k_ref(v.into_iter().collect()),
          Err(e) => fail!("c08.read-error", "keyed-reference", "op {opno}: {e:?}"),
        };
        let b = match nokey.read_next_sample() {
          Ok(v) => n_ref(v.into_iter().collect()),
          Err(e) => fail!("c08.read-error", "no_key.read_next_sample", "op {opno}: {e:?}"),
        };
        (a, b)
      }
      Op::TakeNext => {
        name = "take_next_sample";
        max = 1;
        let a = match keyed.take_next_sample() {
          Ok(v) => k_own(v.into_iter().collect()),
          Err(e) => fail!("c08.read-error", "keyed-reference", "op {opno}: {e:?}"),
        };
        let b = match nokey.take_next_sample() {
          Ok(v) => n_own(v.into_iter().collect()),
          Err(e) => fail!("c08.read-error", "no_key.take_next_sample", "op {opno}: {e:?}"),
        };
        (a, b)
      }
      Op::Iter { take, conditional_any } => {
        max = usize::MAX;
        o.label("iterator");
        let kv_ref = |v: Vec<Sample<&Raw, u8>>| -> Vec<Got> {
          v.into_iter()
            .filter_map(|s| match s {
              Sample::Value(r) => Some(bare(r.bytes.clone())),
              Sample::Dispose(_) => None,
            })
            .collect()
        };
        let kv_own = |v: Vec<Sample<Raw, u8>>| -> Vec<Got> {
          v.into_iter()
            .filter_map(|s| match s {
              Sample::Value(r) => Some(bare(r.bytes)),
              Sample::Dispose(_) => None,
            })
            .collect()
        };
        match (take, conditional_any) {
          (false, None) => {
            name = "iterator";
            let a = match keyed.iterator() {
              Ok(it) => kv_ref(it.collect()),
              Err(e) => fail!("c08.read-error", "keyed-reference", "op {opno}: {e:?}"),
            };
            let b = match nokey.iterator() {
              Ok(it) => it.map(|r| bare(r.bytes.clone())).collect(),
              Err(e) => fail!("c08.read-error", "no_key.iterator", "op {opno}: {e:?}"),
            };
            (a, b)
          }
          (false, Some(any)) => {
            name = "conditional_iterator";
            let a = match keyed.conditional_iterator(cond(!*any)) {
              Ok(it) => kv_ref(it.collect()),
              Err(e) => fail!("c08.read-error", "keyed-reference", "op {opno}: {e:?}"),
            };
            let b = match nokey.conditional_iterator(cond(!*any)) {
              Ok(it) => it.map(|r| bare(r.bytes.clone())).collect(),
              Err(e) => fail!("c08.read-error", "no_key.conditional_iterator", "op {opno}: {e:?}"),
            };
            (a, b)
          }
          (true, None) => {
            name = "into_iterator";
            let a = match keyed.into_iterator() {
              Ok(it) => kv_own(it.collect()),
              Err(e) => fail!("c08.read-error", "keyed-reference", "op {opno}: {e:?}"),
            };
            let b = match nokey.into_iterator() {
              Ok(it) => it.map(|r| bare(r.bytes)).collect(),
              Err(e) => fail!("c08.read-error", "no_key.into_iterator", "op {opno}: {e:?}"),
            };
            (a, b)
          }
          (true, Some(any)) => {
            name = "into_conditional_iterator";
            let a = match keyed.into_conditional_iterator(cond(!*any)) {
              Ok(it) => kv_own(it.collect()),
              Err(e) => fail!("c08.read-error", "keyed-reference", "op {opno}: {e:?}"),
            };
            let b = match nokey.into_conditional_iterator(cond(!*any)) {
              Ok(it) => it.map(|r| bare(r.bytes)).collect(),
              Err(e) => fail!("c08.read-error", "no_key.into_conditional_iterator", "op {opno}: {e:?}"),
            };
            (a, b)
          }
        }
      }
      Op::Value { .. } => unreachable!(),
    };
    hooks::tick_disarm();
    if !got.is_empty() {
      returned_something += 1;
    }
    if want.len() != got.len() {
      fail!(
        if got.len() < want.len() { "c08.too-few" } else { "c08.too-many" },
        &format!("no_key.{name}"),
        "op {opno} {op:?}: the no_key reader returned {} samples, the with_key reader on the same single-instance history {}: no_key {:?} | with_key {:?}",
        got.len(),
        want.len(),
        got,
        want
      );
    }
    if want != got {
      if max != usize::MAX && max <= want.len() {
        // which samples a truncated call returns is not prescribed; the two histories have
        // diverged legitimately and cannot be compared any further
        o.label("truncated-call-chose-differently");
        break;
      }
      let first = want.iter().zip(&got).position(|(a, b)| a != b).unwrap_or(0);
      let clause = if want[first].value != got[first].value {
        // same multiset in another order, or other samples?
        let mut a: Vec<&Vec<u8>> = want.iter().map(|g| &g.value).collect();
        let mut b: Vec<&Vec<u8>> = got.iter().map(|g| &g.value).collect();
        a.sort();
        b.sort();
        if a == b { "c08.writer-order" } else { "c08.not-matching" }
      } else {
        "c08.sample-state"
      };
      fail!(
        clause,
        &format!("no_key.{name}"),
        "op {opno} {op:?}: sample {first} differs: no_key {:?} | with_key on the same single-instance history {:?}",
        got[first],
        want[first]
      );
    }
  }
  o.label(if nwriters > 1 { "multi-writer" } else { "single-writer" });
  o.nontrivial = accesses_after_arrival >= 2 && returned_something >= 1;
  o
}

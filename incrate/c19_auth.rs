//! C19 — only CA-issued identities authenticate; forgeries cannot block them.
//!
//! Real AuthenticationBuiltin instances. Identity 1 is the one shipped with the
//! repository; identity 2 is issued in-process by the shipped Identity CA key;
//! identity M is issued by a foreign CA with the same names. A genuine
//! three-message handshake is produced by the real calls; a generated fault
//! (altered field, removed field, field or message of another run, message out
//! of order, message of M's handshake, GUID not bound to the certificate) is
//! delivered at a generated point, and afterwards the genuine message that was
//! due is delivered.

use std::sync::OnceLock;

use openssl::{
  asn1::Asn1Time,
  bn::BigNum,
  ec::{EcGroup, EcKey},
  hash::MessageDigest,
  nid::Nid,
  pkey::{PKey, Private},
  x509::{X509Builder, X509NameBuilder, X509},
};

use super::{discovery_rig, fnv, rig, Choices, Outcome, Property, Scenario};
use crate::{
  dds::qos::{policy, QosPolicies, QosPolicyBuilder},
  security::{
    authentication::{
      authentication_builtin::AuthenticationBuiltin,
      authentication_plugin::Authentication,
      types::{HandshakeMessageToken, IdentityToken, ValidationOutcome},
    },
    types::Property as SecProperty,
  },
  serialization::pl_cdr_adapters::PlCdrSerialize,
  structure::guid::{EntityId, GuidPrefix, GUID},
  RepresentationIdentifier,
};

const CA_CERT: &str = include_str!("/repo/examples/security_configuration_files/identity_ca.cert.pem");
const CA_KEY: &str = include_str!("/repo/examples/security_configuration_files/identity_ca_private_key.pem");
const ID1_CERT: &str = include_str!("/repo/examples/security_configuration_files/cert.pem");
const ID1_KEY: &str = include_str!("/repo/examples/security_configuration_files/key.pem");

pub fn property() -> Property {
  Property {
    id: "C19",
    level: "exploration",
    rule: "one case = a genuine handshake between two identities issued by the shipped Identity CA (either \
           one initiating, decided by the generated GUIDs) with one generated fault delivered before the \
           request, the reply or the final message is processed, or after completion: one byte of one \
           token field flipped / the field truncated / emptied / removed / replaced by the value from \
           another run (fields c.id c.perm c.pdata c.dsign_algo c.kagree_algo hash_c1 dh1 challenge1 \
           hash_c2 dh2 challenge2 signature, class id), the whole message of another run, another \
           message of this run (out of order / replay), the corresponding message of a handshake with \
           an identity issued by a foreign CA of the same name, or of a CA-issued identity claiming a \
           GUID that is not derived from its certificate; then the genuine message that was due. \
           Non-trivial = the fault was delivered while a message was awaited (or after completion) and \
           the genuine continuation was then delivered. Distinct = distinct fault descriptions.",
    assumptions: &[
      "ring / openssl are trusted; alterations are single-field, not adaptive forgeries",
      "a handshake request is not authenticated by design (anybody can present a certificate and a fresh dh1): an altered request that is still self-consistent may be accepted as a request; it must not lead to a completed handshake on the side that processed it",
      "identity 2 and the foreign CA are generated once per process with openssl (EC P-256), like generate-test-certificates-and-signatures.sh does",
    ],
    scenarios: &[Scenario {
      id: 0,
      name: "handshake with one injected fault and genuine continuation",
      quick: 3_000,
      thorough: 300_000,
      max_len: 40,
      max_threads: 0,
    }],
    run,
    exhaustive: None,
  }
}

// ---------------------------------------------------------------- identities

struct Identity {
  cert_pem: String,
  key_pem: String,
  ca_pem: String,
}

fn issue(cn: &str, ca_cert: &X509, ca_key: &PKey<Private>, serial: u32) -> (String, String) {
  let group = EcGroup::from_curve_name(Nid::X9_62_PRIME256V1).expect("curve");
  let key = PKey::from_ec_key(EcKey::generate(&group).expect("ec key")).expect("pkey");
  let mut name = X509NameBuilder::new().expect("name");
  name.append_entry_by_text("O", "Example Organization").expect("O");
  name.append_entry_by_text("CN", cn).expect("CN");
  let name = name.build();
  let mut b = X509Builder::new().expect("x509 builder");
  b.set_version(2).expect("version");
  b.set_serial_number(&BigNum::from_u32(serial).expect("bn").to_asn1_integer().expect("serial")).expect("serial");
  b.set_subject_name(&name).expect("subject");
  b.set_issuer_name(ca_cert.subject_name()).expect("issuer");
  b.set_pubkey(&key).expect("pubkey");
  b.set_not_before(&Asn1Time::days_from_now(0).expect("t")).expect("nb");
  b.set_not_after(&Asn1Time::days_from_now(3650).expect("t")).expect("na");
  b.sign(ca_key, MessageDigest::sha256()).expect("sign");
  let cert = b.build();
  (
    String::from_utf8(cert.to_pem().expect("pem")).expect("utf8"),
    String::from_utf8(key.private_key_to_pem_pkcs8().expect("pkcs8")).expect("utf8"),
  )
}

fn self_signed_ca(cn: &str) -> (X509, PKey<Private>) {
  let group = EcGroup::from_curve_name(Nid::X9_62_PRIME256V1).expect("curve");
  let key = PKey::from_ec_key(EcKey::generate(&group).expect("ec key")).expect("pkey");
  let mut name = X509NameBuilder::new().expect("name");
  name.append_entry_by_text("O", "Example Organization").expect("O");
  name.append_entry_by_text("CN", cn).expect("CN");
  let name = name.build();
  let mut b = X509Builder::new().expect("x509 builder");
  b.set_version(2).expect("version");
  b.set_serial_number(&BigNum::from_u32(1).expect("bn").to_asn1_integer().expect("serial")).expect("serial");
  b.set_subject_name(&name).expect("subject");
  b.set_issuer_name(&name).expect("issuer");
  b.set_pubkey(&key).expect("pubkey");
  b.set_not_before(&Asn1Time::days_from_now(0).expect("t")).expect("nb");
  b.set_not_after(&Asn1Time::days_from_now(3650).expect("t")).expect("na");
  b.sign(&key, MessageDigest::sha256()).expect("sign");
  (b.build(), key)
}

struct Fixtures {
  id1: Identity,
  id2: Identity,
  /// a third identity issued by the shipped CA; never takes part, only its GUID is claimed by others
  id3: Identity,
  /// issued by a foreign CA with the same subject name as the shipped one
  foreign: Identity,
}

fn fixtures() -> &'static Fixtures {
  static F: OnceLock<Fixtures> = OnceLock::new();
  F.get_or_init(|| {
    let ca_cert = X509::from_pem(CA_CERT.as_bytes()).expect("C19: shipped identity CA certificate");
    let ca_key = PKey::private_key_from_pem_passphrase(CA_KEY.as_bytes(), b"password123").expect("C19: shipped identity CA key");
    let (c2, k2) = issue("participant2_common_name", &ca_cert, &ca_key, 2);
    let (c3, k3) = issue("participant3_common_name", &ca_cert, &ca_key, 4);
    let (fca, fkey) = self_signed_ca("identity_ca_common_name");
    let (cm, km) = issue("participant2_common_name", &fca, &fkey, 3);
    Fixtures {
      id1: Identity {
        cert_pem: ID1_CERT.to_string(),
        key_pem: ID1_KEY.to_string(),
        ca_pem: CA_CERT.to_string(),
      },
      id2: Identity {
        cert_pem: c2,
        key_pem: k2,
        ca_pem: CA_CERT.to_string(),
      },
      id3: Identity {
        cert_pem: c3,
        key_pem: k3,
        ca_pem: CA_CERT.to_string(),
      },
      foreign: Identity {
        cert_pem: cm,
        key_pem: km,
        // the impostor trusts its own CA
        ca_pem: String::from_utf8(fca.to_pem().expect("pem")).expect("utf8"),
      },
    }
  })
}

fn qos(id: &Identity) -> QosPolicies {
  let p = |name: &str, value: String| SecProperty {
    name: name.to_string(),
    value,
    propagate: false,
  };
  QosPolicyBuilder::new()
    .property(policy::Property {
      value: vec![
        p("dds.sec.auth.identity_ca", format!("data:{}", id.ca_pem)),
        p("dds.sec.auth.identity_certificate", format!("data:{}", id.cert_pem)),
        p("dds.sec.auth.private_key", format!("data:{}", id.key_pem)),
      ],
      binary_value: vec![],
    })
    .build()
}

struct Party {
  auth: AuthenticationBuiltin,
  handle: u32,
  guid: GUID,
  token: IdentityToken,
  pdata: Vec<u8>,
  /// identity handle of the peer, once validate_remote_identity ran
  peer: u32,
  /// handshake handle
  hs: u32,
}

fn pdata_for(guid: GUID) -> Vec<u8> {
  discovery_rig::participant_data(guid.prefix, 1, None)
    .to_pl_cdr_bytes(RepresentationIdentifier::PL_CDR_BE)
    .expect("C19: participant data serialization")
    .to_vec()
}

/// What every participant does first with its own identity. A failure with a CA-issued
/// identity is a violation (reported by `run`), so it is an error value here, not a panic.
fn try_party(id: &Identity, seed: u8) -> Result<Party, String> {
  let mut auth = AuthenticationBuiltin::new();
  let candidate = GUID::new(rig::node_prefix(seed), EntityId::PARTICIPANT);
  let (outcome, handle, guid) = auth.validate_local_identity(0, &qos(id), candidate).map_err(|e| format!("validate_local_identity: {e:?}"))?;
  if !matches!(outcome, ValidationOutcome::Ok) {
    return Err(format!("validate_local_identity outcome {outcome:?}"));
  }
  let token = auth.get_identity_token(handle).map_err(|e| format!("get_identity_token: {e:?}"))?;
  Ok(Party {
    auth,
    handle,
    guid,
    token,
    pdata: pdata_for(guid),
    peer: 0,
    hs: 0,
  })
}

/// for the places that come after `run` has seen both genuine identities validate
fn party(id: &Identity, seed: u8) -> Party {
  try_party(id, seed).unwrap_or_else(|e| panic!("C19 set-up: {e}"))
}

/// a complete genuine run; returns the three messages and both parties
struct Run {
  initiator: Party,
  replier: Party,
  request: HandshakeMessageToken,
  reply: HandshakeMessageToken,
  fin: HandshakeMessageToken,
}

fn introduce(a: &mut Party, b: &mut Party) -> Result<(), String> {
  let (_, h, _) = a
    .auth
    .validate_remote_identity(None, a.handle, b.token.clone(), b.guid.prefix)
    .map_err(|e| format!("validate_remote_identity: {e:?}"))?;
  a.peer = h;
  let (_, h, _) = b
    .auth
    .validate_remote_identity(None, b.handle, a.token.clone(), a.guid.prefix)
    .map_err(|e| format!("validate_remote_identity: {e:?}"))?;
  b.peer = h;
  Ok(())
}

/// who initiates is decided by the GUID order, as validate_remote_identity does it
fn ordered(a: Party, b: Party) -> (Party, Party) {
  if a.guid.prefix < b.guid.prefix {
    (a, b)
  } else {
    (b, a)
  }
}

/// a GUID that is not bound to the certificate of the party that claims it
#[derive(Clone, Copy, Debug, PartialEq, Eq)]
enum Claim {
  /// its own GUID (genuine)
  Own,
  /// its own GUID with some bits changed
  Flipped,
  /// the GUID that a third identity issued by the same CA derives from *its* certificate
  OfThirdIdentity,
}

fn claimed_pdata(own: &Party, claim: Claim) -> Vec<u8> {
  match claim {
    Claim::Own => own.pdata.clone(),
    Claim::Flipped => {
      let mut p = own.guid.prefix.bytes;
      p[0] ^= 0x40;
      p[3] ^= 0x11;
      pdata_for(GUID::new(GuidPrefix::new(&p), EntityId::PARTICIPANT))
    }
    Claim::OfThirdIdentity => party(&fixtures().id3, own.guid.prefix.bytes[11] ^ 0x5a).pdata,
  }
}

fn genuine_run(ida: &Identity, idb: &Identity, seeds: (u8, u8), claim: Claim) -> Result<Run, String> {
  let (mut i, mut r) = ordered(try_party(ida, seeds.0)?, try_party(idb, seeds.1)?);
  introduce(&mut i, &mut r)?;
  // (other than Own:) a CA-issued identity that claims a GUID which is not derived from its certificate
  let pdata_i = claimed_pdata(&i, claim);
  let (_, hs, request) = i.auth.begin_handshake_request(i.handle, i.peer, pdata_i).map_err(|e| format!("begin_handshake_request: {e:?}"))?;
  i.hs = hs;
  let (_, hs, reply) = r
    .auth
    .begin_handshake_reply(request.clone(), r.peer, r.handle, r.pdata.clone())
    .map_err(|e| format!("begin_handshake_reply: {e:?}"))?;
  r.hs = hs;
  let (o1, fin) = i.auth.process_handshake(reply.clone(), i.hs).map_err(|e| format!("process_handshake(reply): {e:?}"))?;
  let fin = fin.ok_or("no final message produced")?;
  if !matches!(o1, ValidationOutcome::OkFinalMessage) {
    return Err(format!("initiator outcome {o1:?}"));
  }
  let (o2, _) = r.auth.process_handshake(fin.clone(), r.hs).map_err(|e| format!("process_handshake(final): {e:?}"))?;
  if !matches!(o2, ValidationOutcome::Ok) {
    return Err(format!("replier outcome {o2:?}"));
  }
  Ok(Run {
    initiator: i,
    replier: r,
    request,
    reply,
    fin,
  })
}

fn secret_of(p: &Party) -> Option<Vec<u8>> {
  p.auth.get_shared_secret(p.peer).ok().map(|s| {
    let mut v = s.shared_secret.as_ref().to_vec();
    v.extend_from_slice(s.challenge1.as_ref());
    v.extend_from_slice(s.challenge2.as_ref());
    v
  })
}

// ---------------------------------------------------------------- faults

#[derive(Clone, Copy, Debug, PartialEq, Eq)]
enum Stage {
  /// the replier awaits the request
  Request,
  /// the initiator awaits the reply
  Reply,
  /// the replier awaits the final message
  Final,
  /// both completed
  Completed,
}

fn alter_field(c: &mut Choices, t: &HandshakeMessageToken, donor: &HandshakeMessageToken, what: &mut String) -> HandshakeMessageToken {
  let mut t = t.clone();
  let n = t.data_holder.binary_properties.len();
  if n == 0 || c.chance(12) {
    t.data_holder.class_id.push('x');
    *what = "class id altered".into();
    return t;
  }
  let i = c.pick(n);
  let name = t.data_holder.binary_properties[i].name.clone();
  let kind = c.pick(6);
  let v = t.data_holder.binary_properties[i].value.to_vec();
  let newv: Option<Vec<u8>> = match kind {
    0 | 1 if !v.is_empty() => {
      let pos = c.pick(v.len());
      let mask = [0x01u8, 0x80, 0xff, 0x20][c.pick(4)];
      let mut w = v.clone();
      w[pos] ^= mask;
      *what = format!("{name}: byte {pos} ^ {mask:#x}");
      Some(w)
    }
    2 if !v.is_empty() => {
      *what = format!("{name}: truncated by one byte");
      Some(v[..v.len() - 1].to_vec())
    }
    3 => {
      *what = format!("{name}: emptied");
      Some(Vec::new())
    }
    4 => {
      *what = format!("{name}: removed");
      None
    }
    _ => match donor.data_holder.binary_properties.iter().find(|p| p.name == name) {
      Some(d) if d.value.as_ref() != v.as_slice() => {
        *what = format!("{name}: value from another run");
        Some(d.value.to_vec())
      }
      _ => {
        *what = format!("{name}: emptied");
        Some(Vec::new())
      }
    },
  };
  // never a no-op
  let newv = match newv {
    Some(w) if w == v => {
      *what = format!("{name}: one byte appended");
      let mut w = v.clone();
      w.push(0x41);
      Some(w)
    }
    other => other,
  };
  match newv {
    Some(w) => t.data_holder.binary_properties[i].value = bytes::Bytes::from(w),
    None => {
      t.data_holder.binary_properties.remove(i);
    }
  }
  t
}

pub fn run(_scenario: u32, choices: &[u8], _strict: bool) -> Outcome {
  let mut c = Choices::new(choices);
  let mut o = Outcome::new();
  let f = fixtures();
  let seeds = (1 + c.pick(100) as u8, 101 + c.pick(100) as u8);
  let swap_roles = c.bool();
  let (ida, idb) = if swap_roles { (&f.id2, &f.id1) } else { (&f.id1, &f.id2) };

  // ---------------------------------------------------------------- (1) the genuine run, twice (a donor of other values)
  let genuine = match genuine_run(ida, idb, seeds, Claim::Own) {
    Ok(r) => r,
    Err(e) => {
      o.violate("c19.genuine-handshake-fails", "no-fault", format!("two CA-issued identities could not complete the handshake: {e}"));
      return o;
    }
  };
  match (secret_of(&genuine.initiator), secret_of(&genuine.replier)) {
    (Some(a), Some(b)) if a == b => {}
    (a, b) => {
      o.violate(
        "c19.secrets-differ",
        "no-fault",
        format!("after a genuine handshake the shared secrets are {} / {}", a.map_or("missing".into(), |v| super::hex(&v[..8])), b.map_or("missing".into(), |v| super::hex(&v[..8]))),
      );
      return o;
    }
  }
  let mut donor = genuine;

  // ---------------------------------------------------------------- (1b) calibration of the hand-built reply (after the genuine run: if that fails, it is the finding)
  // built with a CA-issued identity it must be accepted, otherwise rejecting the foreign one proves nothing
  static CALIBRATED: std::sync::Once = std::sync::Once::new();
  CALIBRATED.call_once(|| {
    let (mut i, mut r) = ordered(party(&f.id1, 7), party(&f.id2, 130));
    introduce(&mut i, &mut r).expect("C19 calibration: introduce");
    let (_, hs, request) = i.auth.begin_handshake_request(i.handle, i.peer, i.pdata.clone()).expect("C19 calibration: request");
    let t = attacker_reply(&request, &f.id2, 130).expect("C19 calibration: hand-built reply");
    match i.auth.process_handshake(t, hs) {
      Ok((ValidationOutcome::OkFinalMessage, Some(_))) => {}
      other => panic!("C19 calibration: a hand-built reply with a CA-issued identity is not accepted: {:?}", other.map(|(oc, _)| oc)),
    }
  });

  // ---------------------------------------------------------------- (2) a run with one fault
  let stage = [Stage::Request, Stage::Reply, Stage::Final, Stage::Completed][c.weighted(&[3, 5, 5, 2])];
  let fault_kind = c.weighted(&[10, 2, 3, 2, 2]);
  let (mut i, mut r) = ordered(party(ida, seeds.0), party(idb, seeds.1));
  // which identity ended up as the replier (the order is decided by the derived GUIDs)
  let (id_of_replier, seed_of_replier) = if r.guid == party(idb, seeds.1).guid { (idb, seeds.1) } else { (ida, seeds.0) };
  if let Err(e) = introduce(&mut i, &mut r) {
    o.violate("c19.genuine-handshake-fails", "introduce", e);
    return o;
  }
  // genuine messages are produced as the run proceeds
  let mut what = String::new();
  let step_err = |o: &mut Outcome, step: &str, e: String| {
    o.violate("c19.genuine-handshake-fails", step, format!("{step}: {e}"));
  };
  let (_, hs, request) = match i.auth.begin_handshake_request(i.handle, i.peer, i.pdata.clone()) {
    Ok(x) => x,
    Err(e) => {
      step_err(&mut o, "begin_handshake_request", format!("{e:?}"));
      return o;
    }
  };
  i.hs = hs;

  // the bad message for the chosen stage; `due` is the genuine message that is due there
  let due_request = &request;
  let make_bad = |c: &mut Choices, due: &HandshakeMessageToken, stage: Stage, what: &mut String| -> HandshakeMessageToken {
    let donor_same = match stage {
      Stage::Request => &donor.request,
      Stage::Reply => &donor.reply,
      Stage::Final | Stage::Completed => &donor.fin,
    };
    match fault_kind {
      0 => alter_field(c, due, donor_same, what),
      1 => {
        *what = "the corresponding message of another run".into();
        donor_same.clone()
      }
      2 => {
        // another message of this run or of the other run: out of order / replay
        let k = c.pick(3);
        *what = format!("out of order: a {} message", ["request", "reply", "final"][k]);
        [&donor.request, &donor.reply, &donor.fin][k].clone()
      }
      3 => {
        // the same stage of a handshake in which the peer is issued by a foreign CA
        *what = "message of an identity issued by a foreign CA".into();
        let foreign_first = matches!(stage, Stage::Request | Stage::Final | Stage::Completed);
        // the impostor plays the role whose message is due
        let run = if foreign_first {
          foreign_run(&f.foreign, if swap_roles { &f.id1 } else { &f.id2 }, seeds)
        } else {
          foreign_run(&f.foreign, if swap_roles { &f.id2 } else { &f.id1 }, seeds)
        };
        if stage == Stage::Reply {
          if let Some(t) = attacker_reply(due_request, &f.foreign, seeds.1) {
            *what = "a consistent reply built by hand, certificate issued by a foreign CA".into();
            return t;
          }
        }
        match (run, stage) {
          (Some((rq, _, _)), Stage::Request) => rq,
          (Some((_, Some(rp), _)), Stage::Reply) => rp,
          (Some((_, _, Some(fi))), Stage::Final | Stage::Completed) => fi,
          _ => {
            *what = "the corresponding message of another run (impostor could not produce one)".into();
            donor_same.clone()
          }
        }
      }
      _ => {
        let claim = if c.bool() { Claim::OfThirdIdentity } else { Claim::Flipped };
        let how = if claim == Claim::Flipped { "its own GUID with bits changed" } else { "the GUID of a third identity issued by the same CA" };
        if stage == Stage::Reply {
          // the replier's identity presents its own certificate and key, but another GUID
          if let Some(t) = attacker_reply_claiming(due_request, id_of_replier, seed_of_replier, claim) {
            *what = format!("guid-not-bound: a consistent reply built by hand, CA-issued certificate, claiming {how}");
            return t;
          }
        }
        *what = format!("request of a CA-issued identity claiming {how}");
        match genuine_run(ida, idb, seeds, claim) {
          // the run itself must fail at the replier; we only want its request
          Ok(run) => {
            *what = format!("COMPLETED handshake of a CA-issued identity claiming {how}");
            run.request
          }
          Err(_) => wrong_guid_request(ida, idb, seeds, claim).unwrap_or_else(|| donor.request.clone()),
        }
      }
    }
  };

  let accepted = |r: &Result<(ValidationOutcome, Option<HandshakeMessageToken>), crate::security::SecurityError>| matches!(r, Ok((ValidationOutcome::Ok | ValidationOutcome::OkFinalMessage, _)));
  let repeats = 1 + (usize::from(seeds.0) + usize::from(seeds.1)) % 5;
  if repeats >= 3 {
    o.label("bad-message-delivered-3-to-5-times");
  }

  // ---- stage Request
  if stage == Stage::Request {
    let bad = make_bad(&mut c, &request, stage, &mut what);
    let res = r.auth.begin_handshake_reply(bad, r.peer, r.handle, r.pdata.clone());
    o.sample = format!("seeds={seeds:?} swap={swap_roles} stage=Request fault={what} -> {}", if res.is_ok() { "accepted as a request" } else { "rejected" });
    if secret_of(&r).is_some() {
      o.violate("c19.forgery-accepted", "request", format!("{}: the replier holds a shared secret after a bad request", o.sample));
      return o;
    }
    if res.is_ok() && (fault_kind == 3 || fault_kind == 4) {
      o.violate(
        "c19.forgery-accepted",
        if fault_kind == 3 { "request:foreign-ca-certificate" } else { "request:guid-not-bound" },
        format!("{}: begin_handshake_reply accepted it (the presenter holds the matching key and can complete the handshake)", o.sample),
      );
      return o;
    }
    if let Ok((_, hs, bad_reply)) = res {
      // not authenticated by design; it must not complete on this side
      o.label("bad-request-taken-as-request");
      r.hs = hs;
      let _ = bad_reply;
      // the genuine request now
      match r.auth.begin_handshake_reply(request.clone(), r.peer, r.handle, r.pdata.clone()) {
        Ok(_) => o.label("genuine-request-accepted-after-bad-one"),
        Err(e) => {
          if super::hooks::excluded("c19.bad-request-slot") {
            o.excluded += 1;
            o.label("genuine-request-refused-after-accepted-bad-one(known finding)");
          } else {
            o.violate(
              "c19.blocked",
              "accepted-bad-request-occupies-handshake",
              format!("{}; the genuine request that follows is refused: {}", o.sample, format!("{e:?}").chars().take(200).collect::<String>()),
            );
            return o;
          }
        }
      }
      o.digest = fnv(o.sample.as_bytes());
      return o;
    }
    o.nontrivial = true;
  }
  let (_, hs, reply) = match r.auth.begin_handshake_reply(request.clone(), r.peer, r.handle, r.pdata.clone()) {
    Ok(x) => x,
    Err(e) => {
      if stage == Stage::Request {
        o.violate("c19.blocked", "genuine-request-after-rejected-bad-request", format!("{}; then the genuine request was refused: {e:?}", o.sample));
      } else {
        step_err(&mut o, "begin_handshake_reply", format!("{e:?}"));
      }
      return o;
    }
  };
  r.hs = hs;

  // ---- stage Reply
  let mut fin_from_bad_reply: Option<HandshakeMessageToken> = None;
  if stage == Stage::Reply {
    let bad = make_bad(&mut c, &reply, stage, &mut what);
    // the same bad message several times (an attacker is not limited to one datagram); the number
    // is a function of the seeds, not a new draw
    let mut res = i.auth.process_handshake(bad.clone(), i.hs);
    for _ in 1..repeats {
      if accepted(&res) {
        break;
      }
      res = i.auth.process_handshake(bad.clone(), i.hs);
    }
    o.sample = format!("seeds={seeds:?} swap={swap_roles} stage=Reply fault={what} -> {}", match &res {
      Ok((oc, _)) => format!("{oc:?}"),
      Err(_) => "rejected".into(),
    });
    if accepted(&res) || secret_of(&i).is_some() {
      // the specification makes some fields optional (their content is still covered by the
      // signature): a reply without one of them is the genuine reply. It must then complete
      // with equal secrets like the genuine one.
      match (what.contains("removed"), res) {
        (true, Ok((ValidationOutcome::OkFinalMessage, Some(f)))) => {
          o.label("optional-field-removed-accepted");
          fin_from_bad_reply = Some(f);
        }
        _ => {
          o.violate("c19.forgery-accepted", &format!("reply:{}", what.split(':').next().unwrap_or("")), format!("{}: the initiator completed on a bad reply", o.sample));
          return o;
        }
      }
    }
    o.nontrivial = true;
  }
  let fin = if let Some(f) = fin_from_bad_reply {
    f
  } else {
    match i.auth.process_handshake(reply.clone(), i.hs) {
    Ok((ValidationOutcome::OkFinalMessage, Some(fin))) => fin,
    other => {
      let d = format!("{:?}", other.map(|(oc, _)| oc)).chars().take(300).collect::<String>();
      if stage == Stage::Reply {
        o.violate(
          "c19.blocked",
          "genuine-reply-after-rejected-bad-reply",
          format!("{}; then the genuine reply no longer completes the handshake at the initiator: {d}", o.sample),
        );
      } else {
        step_err(&mut o, "process_handshake(reply)", d);
      }
      return o;
    }
    }
  };

  // ---- stage Final
  if stage == Stage::Final {
    let bad = make_bad(&mut c, &fin, stage, &mut what);
    let mut res = r.auth.process_handshake(bad.clone(), r.hs);
    for _ in 1..repeats {
      if accepted(&res) {
        break;
      }
      res = r.auth.process_handshake(bad.clone(), r.hs);
    }
    o.sample = format!("seeds={seeds:?} swap={swap_roles} stage=Final fault={what} -> {}", match &res {
      Ok((oc, _)) => format!("{oc:?}"),
      Err(_) => "rejected".into(),
    });
    if accepted(&res) || secret_of(&r).is_some() {
      // an alteration that leaves every checked field intact (optional fields) may be accepted
      // only if the secrets then agree; anything else is a forgery accepted
      let same = secret_of(&r).is_some() && secret_of(&r) == secret_of(&i);
      if !same || !what.contains("removed") {
        o.violate("c19.forgery-accepted", &format!("final:{}", what.split(':').next().unwrap_or("")), format!("{}: the replier completed on a bad final message", o.sample));
        return o;
      }
      o.label("optional-field-removed-accepted");
      o.digest = fnv(o.sample.as_bytes());
      return o;
    }
    o.nontrivial = true;
  }
  match r.auth.process_handshake(fin.clone(), r.hs) {
    Ok((ValidationOutcome::Ok, _)) => {}
    other => {
      let d = format!("{:?}", other.map(|(oc, _)| oc)).chars().take(300).collect::<String>();
      if stage == Stage::Final {
        o.violate(
          "c19.blocked",
          "genuine-final-after-rejected-bad-final",
          format!("{}; then the genuine final message no longer completes the handshake at the replier: {d}", o.sample),
        );
      } else {
        step_err(&mut o, "process_handshake(final)", d);
      }
      return o;
    }
  }
  let (si, sr) = (secret_of(&i), secret_of(&r));
  if si.is_none() || si != sr {
    o.violate("c19.secrets-differ", &format!("{stage:?}"), format!("{}: after the genuine continuation the secrets differ or are missing", o.sample));
    return o;
  }

  // ---- stage Completed: replays and forgeries against an established handshake
  if stage == Stage::Completed {
    let at_initiator = c.bool();
    let due = if at_initiator { &reply } else { &fin };
    let bad = make_bad(&mut c, due, if at_initiator { Stage::Reply } else { Stage::Final }, &mut what);
    let hs = if at_initiator { i.hs } else { r.hs };
    let p = if at_initiator { &mut i } else { &mut r };
    let before = secret_of(p);
    let res = p.auth.process_handshake(bad, hs);
    let after = secret_of(p);
    o.sample = format!(
      "seeds={seeds:?} swap={swap_roles} stage=Completed at the {} fault={what} -> {}",
      if at_initiator { "initiator" } else { "replier" },
      match &res {
        Ok((oc, _)) => format!("{oc:?}"),
        Err(_) => "rejected".into(),
      }
    );
    o.nontrivial = true;
    if after != before {
      o.violate(
        if after.is_none() { "c19.blocked" } else { "c19.forgery-accepted" },
        if after.is_none() { "completed-handshake-destroyed" } else { "completed-handshake-secret-replaced" },
        format!("{}: the shared secret of the completed handshake is {} afterwards", o.sample, if after.is_none() { "no longer available" } else { "different" }),
      );
      return o;
    }
  }
  // ---------------------------------------------------------------- (3) an impostor AFTER a genuine peer
  // The plugin instance of identity 1 in the donor run has authenticated the genuine identity 2.
  // Now a new remote participant turns up at that same instance with a certificate that carries
  // identity 2's subject name but was issued by a foreign CA (it holds the matching key). What the
  // instance has seen before must not make it any more trusting. (drawn last)
  if c.chance(110) {
    let seed_of_id1 = if swap_roles { seeds.1 } else { seeds.0 };
    let victim_is_initiator = donor.initiator.guid == party(&f.id1, seed_of_id1).guid;
    let victim: &mut Party = if victim_is_initiator { &mut donor.initiator } else { &mut donor.replier };
    let mut imp = party(&f.foreign, (201 + seeds.0 % 50));
    let as_requester = c.bool();
    o.label(if as_requester { "impostor-after-genuine:request" } else { "impostor-after-genuine:reply" });
    match victim.auth.validate_remote_identity(None, victim.handle, imp.token.clone(), imp.guid.prefix) {
      Err(_) => o.label("impostor-after-genuine:refused-at-validate_remote_identity"),
      Ok((_, h_imp, _)) => {
        if as_requester {
          if let Ok((_, h_v, _)) = imp.auth.validate_remote_identity(None, imp.handle, victim.token.clone(), victim.guid.prefix) {
            if let Ok((_, _, request)) = imp.auth.begin_handshake_request(imp.handle, h_v, imp.pdata.clone()) {
              if victim.auth.begin_handshake_reply(request, h_imp, victim.handle, victim.pdata.clone()).is_ok() {
                o.violate(
                  "c19.forgery-accepted",
                  "request:foreign-ca-certificate-after-a-genuine-peer-with-that-subject",
                  format!("seeds={seeds:?} swap={swap_roles}: after authenticating the genuine identity 2, the same plugin instance accepted the handshake request of a NEW participant whose certificate has identity 2's subject name but was issued by a foreign CA"),
                );
                return o;
              }
            }
          }
        } else if let Ok((_, hs, request)) = victim.auth.begin_handshake_request(victim.handle, h_imp, victim.pdata.clone()) {
          if let Some(reply) = attacker_reply(&request, &f.foreign, (201 + seeds.0 % 50)) {
            let res = victim.auth.process_handshake(reply, hs);
            if accepted(&res) || victim.auth.get_shared_secret(h_imp).is_ok() {
              o.violate(
                "c19.forgery-accepted",
                "reply:foreign-ca-certificate-after-a-genuine-peer-with-that-subject",
                format!("seeds={seeds:?} swap={swap_roles}: after authenticating the genuine identity 2, the same plugin instance completed a handshake on the reply of a NEW participant whose certificate has identity 2's subject name but was issued by a foreign CA"),
              );
              return o;
            }
          }
        }
      }
    }
  }
  o.label(match stage {
    Stage::Request => "fault-at-request",
    Stage::Reply => "fault-at-reply",
    Stage::Final => "fault-at-final",
    Stage::Completed => "fault-after-completion",
  });
  o.label(["altered-field", "message-of-another-run", "out-of-order", "foreign-ca", "guid-not-bound"][fault_kind]);
  o.label(if i.handle == 0 && swap_roles { "identity2-initiates-or-replies" } else { "roles-by-guid" });
  o.digest = fnv(o.sample.as_bytes());
  o
}

/// A reply to the genuine `request`, built by hand the way an attacker would: every field
/// is consistent (hashes, challenge, dh1, signature by the key that belongs to the presented
/// certificate, GUID derived from that certificate); only the certificate's issuer is wrong.
fn attacker_reply(request: &HandshakeMessageToken, id: &Identity, seed: u8) -> Option<HandshakeMessageToken> {
  attacker_reply_claiming(request, id, seed, Claim::Own)
}

fn attacker_reply_claiming(request: &HandshakeMessageToken, id: &Identity, seed: u8, claim: Claim) -> Option<HandshakeMessageToken> {
  use byteorder::BigEndian;

  use crate::{
    security::{authentication::types::Sha256, types::BinaryProperty},
    serialization::to_vec,
  };
  let get = |name: &str| request.data_holder.binary_properties.iter().find(|p| p.name == name).map(|p| p.value.clone());
  // the GUID an honest instance would derive from this certificate
  let honest = party(id, seed);
  let pdata = bytes::Bytes::from(claimed_pdata(&honest, claim));
  let c_id = bytes::Bytes::from(id.cert_pem.clone().into_bytes());
  let c_perm = bytes::Bytes::new();
  let dsign = bytes::Bytes::from_static(b"ECDSA-SHA256");
  let kagree = get("c.kagree_algo")?;
  let c2 = vec![
    BinaryProperty::with_propagate("c.id", c_id.clone()),
    BinaryProperty::with_propagate("c.perm", c_perm.clone()),
    BinaryProperty::with_propagate("c.pdata", pdata.clone()),
    BinaryProperty::with_propagate("c.dsign_algo", dsign.clone()),
    BinaryProperty::with_propagate("c.kagree_algo", kagree.clone()),
  ];
  let hash_c2 = Sha256::hash(&to_vec::<Vec<BinaryProperty>, BigEndian>(&c2).ok()?);
  let hash_c2 = bytes::Bytes::copy_from_slice(hash_c2.as_ref());
  // a fresh ECDH key pair and challenge
  let group = EcGroup::from_curve_name(Nid::X9_62_PRIME256V1).ok()?;
  let eph = EcKey::generate(&group).ok()?;
  let mut ctx = openssl::bn::BigNumContext::new().ok()?;
  let dh2 = bytes::Bytes::from(eph.public_key().to_bytes(&group, openssl::ec::PointConversionForm::UNCOMPRESSED, &mut ctx).ok()?);
  let challenge2 = bytes::Bytes::from(vec![seed.wrapping_mul(3).wrapping_add(9); 32]);
  let challenge1 = get("challenge1")?;
  let dh1 = get("dh1")?;
  let hash_c1 = get("hash_c1")?;
  let cc2 = vec![
    BinaryProperty::with_propagate("hash_c2", hash_c2.clone()),
    BinaryProperty::with_propagate("challenge2", challenge2.clone()),
    BinaryProperty::with_propagate("dh2", dh2.clone()),
    BinaryProperty::with_propagate("challenge1", challenge1.clone()),
    BinaryProperty::with_propagate("dh1", dh1.clone()),
    BinaryProperty::with_propagate("hash_c1", hash_c1.clone()),
  ];
  let key = PKey::private_key_from_pem(id.key_pem.as_bytes()).ok()?;
  let mut signer = openssl::sign::Signer::new(MessageDigest::sha256(), &key).ok()?;
  let signature = bytes::Bytes::from(signer.sign_oneshot_to_vec(&to_vec::<Vec<BinaryProperty>, BigEndian>(&cc2).ok()?).ok()?);
  // same shape as a genuine reply: take one and replace the values
  let mut t = request.clone();
  t.data_holder.class_id = "DDS:Auth:PKI-DH:1.0+Reply".to_string();
  let mut props = vec![
    ("c.id", c_id),
    ("c.perm", c_perm),
    ("c.pdata", pdata),
    ("c.dsign_algo", dsign),
    ("c.kagree_algo", kagree),
    ("hash_c2", hash_c2),
    ("dh2", dh2),
    ("hash_c1", hash_c1),
    ("dh1", dh1),
    ("challenge1", challenge1),
    ("challenge2", challenge2),
    ("signature", signature),
  ];
  t.data_holder.binary_properties = props.drain(..).map(|(n, v)| BinaryProperty::with_propagate(n, v)).collect();
  Some(t)
}

/// the three messages of a handshake between an impostor (foreign CA) and a genuine
/// identity, as far as it gets; the impostor's messages are what we want
fn foreign_run(foreign: &Identity, genuine: &Identity, seeds: (u8, u8)) -> Option<(HandshakeMessageToken, Option<HandshakeMessageToken>, Option<HandshakeMessageToken>)> {
  // two impostor instances talk to each other, so that all three messages exist
  let (mut i, mut r) = ordered(party(foreign, seeds.0), party(foreign, seeds.1.wrapping_add(1)));
  let _ = genuine;
  introduce(&mut i, &mut r).ok()?;
  let (_, hs, request) = i.auth.begin_handshake_request(i.handle, i.peer, i.pdata.clone()).ok()?;
  i.hs = hs;
  let reply = r.auth.begin_handshake_reply(request.clone(), r.peer, r.handle, r.pdata.clone()).ok();
  let (reply, fin) = match reply {
    Some((_, hs, reply)) => {
      r.hs = hs;
      let fin = i.auth.process_handshake(reply.clone(), i.hs).ok().and_then(|(_, f)| f);
      (Some(reply), fin)
    }
    None => (None, None),
  };
  Some((request, reply, fin))
}

fn wrong_guid_request(ida: &Identity, idb: &Identity, seeds: (u8, u8), claim: Claim) -> Option<HandshakeMessageToken> {
  let (mut i, mut r) = ordered(party(ida, seeds.0), party(idb, seeds.1));
  introduce(&mut i, &mut r).ok()?;
  let pdata = claimed_pdata(&i, claim);
  i.auth.begin_handshake_request(i.handle, i.peer, pdata).ok().map(|(_, _, t)| t)
}

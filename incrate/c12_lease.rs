//! C12 — a silent participant is dropped after its lease, a live one never.
//!
//! DiscoveryDB alone with a virtual Instant. Histories of announce / liveness
//! side channel / time advance / clean-up / dispose / endpoint announcements
//! against a model of the last life sign per participant.

use std::{
  collections::{BTreeMap, BTreeSet},
  time::Duration as StdDuration,
};

use mio_extras::channel as mio_channel;

use super::{discovery_rig, fnv, hooks, rig, Choices, Outcome, Property, Scenario, Verdict};
use crate::{
  dds::statusevents::{sync_status_channel, LostReason},
  discovery::discovery_db::DiscoveryDB,
  structure::{
    duration::Duration,
    guid::{EntityId, GuidPrefix, GUID},
  },
};

pub fn property() -> Property {
  Property {
    id: "C12",
    level: "exploration",
    rule: "histories of 5-80 operations on a real DiscoveryDB with a virtual clock: 1-3 remote \
           participants with lease absent (60 s default) / 1 ms / 250 ms / 1 s / 20 s / INFINITE, each \
           with 0-2 readers and writers: announce (SPDP), liveness side channel \
           (participant_is_alive), advance time by delta (drawn around the lease: lease-1ms, lease, \
           lease+1ms, 2*lease, tiny, half), participant_cleanup, dispose, endpoint announcement, \
           re-announce after loss. Non-trivial = a clean-up ran with one participant inside and one \
           outside its lease, or a life sign arrived within 1 ms of expiry, or an attic restore \
           happened. Distinct = distinct decoded histories.",
    assumptions: &[
      "Instant::now() in DiscoveryDB is replaced by a virtual instant (guarded hook), so elapsed times are exact",
      "elapsed == lease exactly is asserted as 'kept' (as coded) under label boundary; all other assertions have a 1 ms margin and do not depend on that choice",
      "a participant that timed out, was then disposed while unknown and reappears (label dispose-while-lost) is not asserted for the endpoint clause: the statement does not say which rule wins",
    ],
    scenarios: &[Scenario {
      id: 0,
      name: "lease model vs DiscoveryDB",
      quick: 10_000,
      thorough: 10_000_000,
      max_len: 300,
      max_threads: 0,
    }],
    run,
    exhaustive: None,
  }
}

#[derive(Clone, Debug)]
enum Op {
  Announce(usize),
  /// announcement that advertises another lease duration than before (index into the pool)
  AnnounceWithLease(usize, usize),
  Alive(usize),
  Advance(u64), // microseconds
  Cleanup,
  Dispose(usize),
  Endpoint(usize, usize, bool), // participant, endpoint no, is_reader
}

struct MP {
  prefix: GuidPrefix,
  lease_us: Option<u64>, // None = infinite
  lease: Option<Duration>,
  known: bool,
  last_life: u64,
  visible: BTreeSet<(usize, bool)>,
  attic: BTreeSet<(usize, bool)>,
  ambiguous: bool,
}

pub fn run(_scenario: u32, choices: &[u8], _strict: bool) -> Outcome {
  let mut c = Choices::new(choices);
  let mut o = Outcome::new();
  hooks::instant_start();
  struct G;
  impl Drop for G {
    fn drop(&mut self) {
      hooks::instant_stop();
    }
  }
  let _g = G;

  let np = 1 + c.pick(3);
  let (ttx, _trx) = mio_channel::sync_channel::<()>(4096);
  let (ptx, prx) = sync_status_channel(8192).expect("status channel");
  let my_guid = GUID::new(rig::node_prefix(0), EntityId::PARTICIPANT);
  let mut db = DiscoveryDB::new(my_guid, ttx, ptx);
  let lease_pool: [(Option<Duration>, Option<u64>, &'static str); 6] = [
    (None, Some(60_000_000), "default-lease"),
    (Some(Duration::from_millis(1)), Some(1_000), "lease-1ms"),
    (Some(Duration::from_millis(250)), Some(250_000), "lease-250ms"),
    (Some(Duration::from_secs(1)), Some(1_000_000), "lease-1s"),
    (Some(Duration::from_secs(20)), Some(20_000_000), "lease-20s"),
    (Some(Duration::INFINITE), None, "infinite-lease"),
  ];
  let mut ps: Vec<MP> = (0..np)
    .map(|i| {
      let (lease, lease_us, label) = lease_pool[c.pick(6)];
      o.label(label);
      MP {
        prefix: rig::node_prefix(70 + i as u8),
        lease_us,
        lease,
        known: false,
        last_life: 0,
        visible: BTreeSet::new(),
        attic: BTreeSet::new(),
        ambiguous: false,
      }
    })
    .collect();
  let nops = c.usize_in(5, 80);
  let mut ops = Vec::new();
  for _ in 0..nops {
    let p = c.pick(np);
    ops.push(match c.weighted(&[6, 5, 10, 6, 2, 5, 2]) {
      0 => Op::Announce(p),
      6 => Op::AnnounceWithLease(p, c.pick(6)),
      1 => Op::Alive(p),
      2 => {
        // around the lease of some participant
        let l = ps[p].lease_us.unwrap_or(5_000_000);
        Op::Advance(match c.pick(8) {
          0 => l.saturating_sub(1_000),
          1 => l,
          2 => l + 1_000,
          3 => 2 * l,
          4 => 1,
          5 => l / 2,
          6 => l.saturating_sub(1_000) / 2,
          _ => c.int_in(1, 3_000_000) as u64,
        })
      }
      3 => Op::Cleanup,
      4 => Op::Dispose(p),
      _ => Op::Endpoint(p, c.pick(3), c.bool()),
    });
  }
  o.sample = format!("leases={:?} ops={ops:?}", ps.iter().map(|p| p.lease_us).collect::<Vec<_>>());
  o.digest = fnv(o.sample.as_bytes());

  let mut now: u64 = 0;
  let mut nontrivial = false;
  let topic = "rig_topic";
  for (opno, op) in ops.iter().enumerate() {
    // a participant may advertise another lease duration in a later announcement: from then on
    // that one counts
    let op = &match op {
      Op::AnnounceWithLease(p, l) => {
        let (lease, lease_us, _) = lease_pool[*l];
        if ps[*p].lease_us != lease_us {
          o.label("lease-changed-by-reannouncement");
          nontrivial = true;
        }
        ps[*p].lease = lease;
        ps[*p].lease_us = lease_us;
        Op::Announce(*p)
      }
      other => other.clone(),
    };
    match op {
      Op::AnnounceWithLease(..) => unreachable!("rewritten above"),
      Op::Announce(p) => {
        let m = &mut ps[*p];
        let was_new = db.update_participant(&discovery_rig::participant_data(m.prefix, 70 + *p as u8, m.lease));
        if was_new == m.known {
          o.violate(
            "c12.new-flag",
            "announce",
            format!("op {opno}: update_participant returned new={was_new}, model known={}", m.known),
          );
          return o;
        }
        if !m.known {
          if !m.attic.is_empty() {
            o.label("attic-restore");
            nontrivial = true;
          }
          let mut a = std::mem::take(&mut m.attic);
          m.visible.append(&mut a);
          if m.ambiguous {
            // after the restore the open question is settled either way
          }
        }
        // a life sign within 1 ms of expiry
        if m.known {
          if let Some(l) = m.lease_us {
            let el = now - m.last_life;
            if el <= l && l - el <= 1_000 {
              o.label("refresh-at-the-last-moment");
              nontrivial = true;
            }
          }
        }
        m.known = true;
        m.last_life = now;
      }
      Op::Alive(p) => {
        let m = &mut ps[*p];
        db.participant_is_alive(m.prefix);
        if m.known {
          if let Some(l) = m.lease_us {
            let el = now - m.last_life;
            if el <= l && l - el <= 1_000 {
              o.label("refresh-at-the-last-moment");
              nontrivial = true;
            }
          }
          m.last_life = now;
          o.label("alive-side-channel");
        }
      }
      Op::Advance(us) => {
        hooks::instant_advance(StdDuration::from_micros(*us));
        now += us;
      }
      Op::Cleanup => {
        let lost: BTreeMap<GuidPrefix, LostReason> = db.participant_cleanup().into_iter().collect();
        let mut inside = false;
        let mut outside = false;
        for (i, m) in ps.iter_mut().enumerate() {
          if !m.known {
            if lost.contains_key(&m.prefix) {
              o.violate("c12.lost-unknown", "cleanup", format!("op {opno}: participant {i} reported lost but it was not known"));
              return o;
            }
            continue;
          }
          let el = now - m.last_life;
          let reported = lost.contains_key(&m.prefix);
          match m.lease_us {
            None => {
              inside = true;
              if reported {
                o.violate("c12.dropped-within-lease", "infinite", format!("op {opno}: participant {i} with INFINITE lease reported lost after {el} us"));
                return o;
              }
            }
            Some(l) => {
              if el == l {
                o.label("boundary");
              }
              if el <= l {
                inside = true;
                if reported {
                  o.violate(
                    "c12.dropped-within-lease",
                    if el == l { "boundary" } else { "within" },
                    format!("op {opno}: participant {i} (lease {l} us) reported lost although its last life sign is only {el} us old"),
                  );
                  return o;
                }
              } else {
                outside = true;
                if !reported {
                  o.violate(
                    "c12.kept-beyond-lease",
                    if el - l <= 1_000 { "just-beyond" } else { "beyond" },
                    format!("op {opno}: participant {i} (lease {l} us) silent for {el} us was not reported lost by participant_cleanup"),
                  );
                  return o;
                }
                if let Some(LostReason::Timeout { lease, .. }) = lost.get(&m.prefix) {
                  let want = m.lease.unwrap_or(Duration::from_secs(60));
                  if *lease != want {
                    o.violate("c12.reported-lease", "lease", format!("op {opno}: reported lease {lease:?}, advertised {want:?}"));
                    return o;
                  }
                }
                o.label("timeout");
                m.known = false;
                let mut v = std::mem::take(&mut m.visible);
                m.attic.append(&mut v);
              }
            }
          }
        }
        if inside && outside {
          nontrivial = true;
          o.label("mixed-cleanup");
        }
      }
      Op::Dispose(p) => {
        let m = &mut ps[*p];
        db.remove_participant(m.prefix, true);
        if !m.known && !m.attic.is_empty() {
          m.ambiguous = true;
          o.label("dispose-while-lost");
        }
        if m.known {
          o.label("dispose");
        }
        m.known = false;
        m.visible.clear();
      }
      Op::Endpoint(p, e, is_reader) => {
        let m = &mut ps[*p];
        let guid = GUID::new(
          m.prefix,
          if *is_reader {
            rig::peer_eid(*e as u8, true)
          } else {
            rig::peer_eid(*e as u8, false)
          },
        );
        if *is_reader {
          db.update_subscription(&discovery_rig::reader_data(guid, topic, &rig::reliable_qos(), vec![]));
        } else {
          db.update_publication(&discovery_rig::writer_data(guid, topic, &rig::reliable_qos(), vec![]));
        }
        m.visible.insert((*e, *is_reader));
        // (the DB keeps the attic copy as well; a later restore overwrites with the same data)
      }
    }
    // ---- invariants after every operation
    for (i, m) in ps.iter().enumerate() {
      let found = db.find_participant_proxy(m.prefix).is_some();
      if found != m.known {
        o.violate(
          if found { "c12.still-known" } else { "c12.forgotten" },
          "proxy",
          format!("op {opno} {op:?}: participant {i} find_participant_proxy={found}, model known={}", m.known),
        );
        return o;
      }
      if m.ambiguous {
        continue;
      }
      let readers: BTreeSet<(usize, bool)> = db
        .readers_on_topic_and_participant(topic, m.prefix)
        .iter()
        .map(|d| (usize::from(d.reader_proxy.remote_reader_guid.entity_id.entity_key[2]), true))
        .collect();
      let writers: BTreeSet<(usize, bool)> = db
        .writers_on_topic_and_participant(topic, m.prefix)
        .iter()
        .map(|d| (usize::from(d.writer_proxy.remote_writer_guid.entity_id.entity_key[2]), false))
        .collect();
      let got: BTreeSet<(usize, bool)> = readers.union(&writers).copied().collect();
      if got != m.visible {
        let clause = if got.len() > m.visible.len() { "c12.endpoints-linger" } else { "c12.endpoints-missing" };
        o.violate(
          clause,
          match op {
            Op::Announce(_) => "after-announce",
            Op::Cleanup => "after-timeout",
            Op::Dispose(_) => "after-dispose",
            _ => "other",
          },
          format!("op {opno} {op:?}: participant {i} endpoints listed {got:?}, model {:?} (attic {:?})", m.visible, m.attic),
        );
        return o;
      }
    }
  }
  while prx.try_recv().is_ok() {}
  o.nontrivial = nontrivial;
  o
}

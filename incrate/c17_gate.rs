//! C17 — required protection cannot be bypassed by sending plaintext.
//!
//! A rig node whose real MessageReceiver carries real SecurityPlugins (real
//! CryptographicBuiltin; authentication and access control are stubs that the
//! gating code never consults) owns user readers with generated protection, the
//! three exempt built-in readers, one non-exempt built-in reader and one user
//! writer. A legitimate peer (second SecurityPlugins, fully key-exchanged)
//! produces correctly protected traffic; the generator mixes it with plaintext,
//! with protection made under the wrong endpoint's keys, and with broken
//! prefix/body/postfix sequences. What reached each reader's TopicCache and the
//! ack-nack channel is compared with a decision table written from the property.
//!
//! Scenario 1 starts one step earlier, at the governance document: the generated
//! protection requirements are written as a governance document (signed with the
//! shipped Permissions CA like C18's), loaded by the real AccessControlBuiltin, and
//! the attributes *it* derives are (a) compared with the DDS-Security mapping
//! (protection kind -> protected / encrypted / origin authenticated, tables of
//! 9.4.1.2.6 and 7.4.8 for the secure built-in topics) and (b) used to configure
//! the same rig, so that "the governance document requires ..." is the premise.

use std::collections::{BTreeMap, BTreeSet};

use bytes::Bytes;
use speedy::{Endianness, Writable};

use super::{
  fnv, hooks,
  rig::{self, eid_bytes, CaseGuard, Node},
  c18_access,
  sec_stubs::{pair_secret, StubAccess, StubAuth},
  wire, Choices, Outcome, Property, Scenario,
};
use crate::{
  messages::submessages::submessage::AckSubmessage,
  rtps::{Message, Submessage},
  security::{
    access_control::{
      access_control_builtin::AccessControlBuiltin,
      access_control_plugin::{LocalEntityAccessControl, ParticipantAccessControl},
      types::{EndpointSecurityAttributes, ParticipantSecurityAttributes, TopicSecurityAttributes},
    },
    cryptographic::types::EncodedSubmessage,
    security_plugins::{SecurityPlugins, SecurityPluginsHandle},
    types::PluginSecurityAttributesMask,
    CryptographicBuiltin,
  },
  structure::{
    guid::{EntityId, GuidPrefix, GUID},
    time::Timestamp,
  },
};

pub fn property() -> Property {
  Property {
    id: "C17",
    level: "exploration",
    rule: "one case = a node with real SecurityPlugins: RTPS protection NONE / SIGN / ENCRYPT, 2-3 user \
           readers and one user writer each with submessage and payload protection NONE / SIGN / ENCRYPT, \
           the three exempt built-in readers (SPDP, stateless, volatile-secure) and the SEDP \
           publications reader; then 3-10 datagrams from a key-exchanged peer's address, each with 1-2 \
           DATA (or ACKNACK) submessages addressed explicitly or to ENTITYID_UNKNOWN, payload plain / \
           correctly encoded / encoded under another writer's key, submessage wrapper none / correct / \
           made with another endpoint's keys / broken sequence (prefix without postfix, postfix first, \
           two bodies, prefix of another encoding, body only), whole message plain or correctly \
           SRTPS-wrapped, optional INFO_DST. Non-trivial = >= 1 endpoint requires protection and >= 1 \
           plaintext (or wrongly protected) submessage was addressed to it. Distinct = distinct \
           configuration and traffic.",
    assumptions: &[
      "payload protection covers the serialized payload only: a DATA without payload (dispose by key hash) is not generated",
      "exactly right traffic must be delivered (both directions asserted); traffic that lacks a required layer, or carries a layer made with other keys, must never be delivered; odd but harmless combinations towards unprotected endpoints (a wrapper nobody asked for) are not asserted",
      "authentication and access control plugins are stubs: the gating code under test does not call them",
    ],
    scenarios: &[Scenario {
      id: 0,
      name: "gating of plaintext, wrongly protected and correctly protected traffic",
      quick: 10_000,
      thorough: 1_000_000,
      max_len: 300,
      max_threads: 0,
    }, Scenario {
      id: 1,
      name: "the same, with the attributes derived from a signed governance document by the real access-control plugin",
      quick: 1_500,
      thorough: 60_000,
      max_len: 340,
      max_threads: 0,
    }],
    run,
    exhaustive: None,
  }
}

#[derive(Clone, Copy, Debug, PartialEq, Eq)]
enum Prot {
  None,
  Sign,
  Encrypt,
}

fn participant_attrs(rtps: Prot) -> ParticipantSecurityAttributes {
  let mut mask = 0x8000_0000u32;
  if rtps == Prot::Encrypt {
    mask |= 1;
  }
  ParticipantSecurityAttributes {
    allow_unauthenticated_participants: false,
    is_access_protected: false,
    is_rtps_protected: rtps != Prot::None,
    is_discovery_protected: false,
    is_liveliness_protected: false,
    plugin_participant_attributes: PluginSecurityAttributesMask(mask),
    ac_participant_properties: Vec::new(),
  }
}

fn endpoint_attrs(sub: Prot, payload: Prot) -> EndpointSecurityAttributes {
  let mut mask = 0x8000_0000u32;
  if sub == Prot::Encrypt {
    mask |= 0b001;
  }
  if payload == Prot::Encrypt {
    mask |= 0b010;
  }
  EndpointSecurityAttributes {
    topic_security_attributes: TopicSecurityAttributes::empty(),
    is_submessage_protected: sub != Prot::None,
    is_payload_protected: payload != Prot::None,
    is_key_protected: false,
    plugin_endpoint_attributes: PluginSecurityAttributesMask(mask),
    ac_endpoint_properties: Vec::new(),
  }
}

#[derive(Clone, Debug)]
struct Ep {
  name: &'static str,
  /// on the victim node
  local: EntityId,
  /// the peer's matched endpoint
  remote: EntityId,
  is_reader: bool,
  sub: Prot,
  payload: Prot,
  /// exempt from RTPS protection (DDS-Security table 27)
  exempt: bool,
  volatile: bool,
  stateless_like: bool,
  /// index in node.readers / node.writers
  slot: usize,
}

// ---------------------------------------------------------------- from the governance document (scenario 1)

const KIND_NAMES: [&str; 5] = ["NONE", "SIGN", "ENCRYPT", "SIGN_WITH_ORIGIN_AUTHENTICATION", "ENCRYPT_WITH_ORIGIN_AUTHENTICATION"];

/// index into KIND_NAMES
fn kind_of(p: Prot, origin_auth: bool) -> usize {
  match (p, origin_auth) {
    (Prot::None, _) => 0,
    (Prot::Sign, false) => 1,
    (Prot::Encrypt, false) => 2,
    (Prot::Sign, true) => 3,
    (Prot::Encrypt, true) => 4,
  }
}

/// DDS-Security 1.1, 9.4.1.2.6: (protected, encrypted, origin authenticated) of a protection kind
fn kind_means(k: usize) -> (bool, bool, bool) {
  (k != 0, k == 2 || k == 4, k >= 3)
}

struct Governed {
  participant: ParticipantSecurityAttributes,
  /// per entry of `eps`
  endpoints: Vec<EndpointSecurityAttributes>,
}

fn builtin_topic_of(e: &Ep) -> Option<&'static str> {
  match e.name {
    "spdp-reader" => Some("DCPSParticipant"),
    "stateless-reader" => Some("DCPSParticipantStatelessMessage"),
    "volatile-secure-reader" => Some("DCPSParticipantVolatileMessageSecure"),
    "sedp-publications-reader" => Some("DCPSPublication"),
    _ => None,
  }
}

/// Writes the requirements as a governance document, has the real plugin load it and returns the
/// attributes the plugin derives. A disagreement with the specification's mapping is a violation.
fn governed(c: &mut Choices, rtps: Prot, eps: &[Ep], o: &mut Outcome, sample: &mut String) -> Option<Governed> {
  let opposite = |k: usize| if k == 0 { 4 } else { 0 };
  let rtps_kind = kind_of(rtps, c.chance(90));
  let discovery_kind = c.pick(5);
  let liveliness_kind = c.pick(5);
  // per endpoint: (metadata kind, data kind 0..=2)
  let kinds: Vec<(usize, usize)> = eps.iter().map(|e| (kind_of(e.sub, c.chance(90)), kind_of(e.payload, false))).collect();
  let decoy_domain = c.chance(128);
  let decoy_topic = c.chance(128);
  let catch_all = c.chance(160);
  let topic_rule = |pattern: &str, meta: usize, data: usize| {
    format!(
      "<topic_rule><topic_expression>{pattern}</topic_expression><enable_discovery_protection>false</enable_discovery_protection><enable_liveliness_protection>false</enable_liveliness_protection>\
       <enable_read_access_control>false</enable_read_access_control><enable_write_access_control>false</enable_write_access_control>\
       <metadata_protection_kind>{}</metadata_protection_kind><data_protection_kind>{}</data_protection_kind></topic_rule>\n",
      KIND_NAMES[meta], KIND_NAMES[data]
    )
  };
  let domain_rule = |domains: &str, disc: usize, live: usize, rtps: usize, topics: &str| {
    format!(
      "<domain_rule><domains>{domains}</domains>\n<allow_unauthenticated_participants>false</allow_unauthenticated_participants>\n<enable_join_access_control>false</enable_join_access_control>\n\
       <discovery_protection_kind>{}</discovery_protection_kind>\n<liveliness_protection_kind>{}</liveliness_protection_kind>\n<rtps_protection_kind>{}</rtps_protection_kind>\n<topic_access_rules>\n{topics}</topic_access_rules>\n</domain_rule>\n",
      KIND_NAMES[disc], KIND_NAMES[live], KIND_NAMES[rtps]
    )
  };
  let mut topics = String::new();
  if decoy_topic {
    // a rule that matches none of the rig's topics, saying the opposite of the first endpoint
    topics.push_str(&topic_rule("zz_*", opposite(kinds[0].0), if kinds[0].1 == 0 { 2 } else { 0 }));
  }
  for (e, (meta, data)) in eps.iter().zip(&kinds) {
    if builtin_topic_of(e).is_none() {
      topics.push_str(&topic_rule(&format!("c17_{}", e.name), *meta, *data));
    }
  }
  if catch_all {
    // must never be reached for the rig's topics: first matching rule wins
    topics.push_str(&topic_rule("*", opposite(kinds[0].0), if kinds[0].1 == 0 { 2 } else { 0 }));
  }
  let mut xml = String::from("<?xml version=\"1.0\" encoding=\"UTF-8\"?>\n<dds>\n<domain_access_rules>\n");
  if decoy_domain {
    xml.push_str(&domain_rule("<id>9</id>", opposite(discovery_kind), opposite(liveliness_kind), opposite(rtps_kind), &topic_rule("*", opposite(kinds[0].0), 0)));
  }
  xml.push_str(&domain_rule("<id_range><min>0</min><max>3</max></id_range>", discovery_kind, liveliness_kind, rtps_kind, &topics));
  xml.push_str("</domain_access_rules>\n</dds>\n");
  let permissions = format!(
    "<?xml version=\"1.0\" encoding=\"UTF-8\"?>\n<dds>\n<permissions>\n<grant name=\"g\">\n<subject_name>{}</subject_name>\n\
     <validity><not_before>2001-01-01T00:00:00</not_before><not_after>2200-01-01T00:00:00</not_after></validity>\n\
     <allow_rule><domains><id_range><min>0</min></id_range></domains><publish><topics><topic>*</topic></topics></publish><subscribe><topics><topic>*</topic></topics></subscribe></allow_rule>\n<default>ALLOW</default>\n</grant>\n</permissions>\n</dds>\n",
    c18_access::ME
  );
  sample.push_str(&format!(
    "governance: rtps={} discovery={} liveliness={} topics={:?} decoy_domain={decoy_domain} decoy_topic={decoy_topic} catch_all={catch_all} | ",
    KIND_NAMES[rtps_kind],
    KIND_NAMES[discovery_kind],
    KIND_NAMES[liveliness_kind],
    eps.iter().zip(&kinds).filter(|(e, _)| builtin_topic_of(e).is_none()).map(|(e, (m, d))| (e.name, KIND_NAMES[*m], KIND_NAMES[*d])).collect::<Vec<_>>()
  ));
  let ca = c18_access::shipped_ca();
  let q = c18_access::qos(&c18_access::sign(&ca, &xml), &c18_access::sign(&ca, &permissions), c18_access::CA_CERT);
  let mut ac = AccessControlBuiltin::new();
  let auth = StubAuth { local: 1 };
  let handle = match ac.validate_local_permissions(&auth, 1, 0, &q) {
    Ok(h) => h,
    Err(e) => {
      o.violate("c17.governance-rejected", "load", format!("validly signed, well-formed governance / permissions documents were refused: {e:?}\n{xml}"));
      return None;
    }
  };
  let bits = |m: &PluginSecurityAttributesMask| m.0;
  // ---- participant level
  let pa = match ac.get_participant_sec_attributes(handle) {
    Ok(a) => a,
    Err(e) => {
      o.violate("c17.governance-attributes", "participant:error", format!("get_participant_sec_attributes: {e:?}"));
      return None;
    }
  };
  let (rp, re, ro) = kind_means(rtps_kind);
  let (dp, de, d_o) = kind_means(discovery_kind);
  let (lp, le, lo) = kind_means(liveliness_kind);
  // DDS-Security 1.1, 9.4.2.4: plugin participant attributes mask
  let want_mask = 0x8000_0000u32 | (re as u32) | (de as u32) << 1 | (le as u32) << 2 | (ro as u32) << 3 | (d_o as u32) << 4 | (lo as u32) << 5;
  let got = (pa.is_rtps_protected, pa.is_discovery_protected, pa.is_liveliness_protected, pa.is_access_protected, pa.allow_unauthenticated_participants, bits(&pa.plugin_participant_attributes));
  let want = (rp, dp, lp, false, false, want_mask);
  if got != want {
    let which = if pa.is_rtps_protected != rp {
      if rp { "rtps-protection-dropped" } else { "rtps-protection-invented" }
    } else if (bits(&pa.plugin_participant_attributes) ^ want_mask) & 0b1001 != 0 {
      "rtps-kind"
    } else {
      "discovery-liveliness-access"
    };
    o.violate(
      "c17.governance-attributes",
      &format!("participant:{which}"),
      format!("governance says rtps={} discovery={} liveliness={} join=false unauthenticated=false; the plugin derives (rtps, discovery, liveliness, access, unauthenticated, mask) = {got:x?}, the specification's mapping gives {want:x?}", KIND_NAMES[rtps_kind], KIND_NAMES[discovery_kind], KIND_NAMES[liveliness_kind]),
    );
    return None;
  }
  // ---- endpoint level
  let endpoint_want = |meta: usize, data: usize| {
    let (sp, se, so) = kind_means(meta);
    // 9.4.1.2.6.6: data protection ENCRYPT also protects the key; 9.4.2.6: endpoint mask
    (sp, data != 0, data == 2, 0x8000_0000u32 | (se as u32) | ((data == 2) as u32) << 1 | (so as u32) << 2)
  };
  let check = |o: &mut Outcome, topic: &str, as_writer: bool, want: (bool, bool, bool, u32), said: String| -> Option<EndpointSecurityAttributes> {
    let r = if as_writer { ac.get_datawriter_sec_attributes(handle, topic.to_string()) } else { ac.get_datareader_sec_attributes(handle, topic.to_string()) };
    let a = match r {
      Ok(a) => a,
      Err(e) => {
        o.violate("c17.governance-attributes", "endpoint:error", format!("attributes of topic {topic}: {e:?}"));
        return None;
      }
    };
    let got = (a.is_submessage_protected, a.is_payload_protected, a.is_key_protected, bits(&a.plugin_endpoint_attributes));
    if got != want {
      let which = if got.0 != want.0 {
        if want.0 { "submessage-protection-dropped" } else { "submessage-protection-invented" }
      } else if got.1 != want.1 {
        if want.1 { "payload-protection-dropped" } else { "payload-protection-invented" }
      } else {
        "kind"
      };
      o.violate(
        "c17.governance-attributes",
        &format!("endpoint:{which}"),
        format!("topic {topic} ({}): {said}; the plugin derives (submessage, payload, key, mask) = {got:x?}, the specification's mapping gives {want:x?}", if as_writer { "writer" } else { "reader" }),
      );
      return None;
    }
    Some(a)
  };
  let mut endpoints = Vec::new();
  for (e, (meta, data)) in eps.iter().zip(&kinds) {
    let a = match builtin_topic_of(e) {
      // 7.4.8: the bootstrap topics and plain discovery are never protected by the governance
      // document; the key-exchange topic is always encrypted (no origin authentication)
      Some(t) if t == "DCPSParticipantVolatileMessageSecure" => check(o, t, false, (true, false, false, 0x8000_0001), "key exchange topic".to_string())?,
      Some(t) => check(o, t, false, (false, false, false, 0x8000_0000), "bootstrap / plain discovery topic".to_string())?,
      None => {
        let t = format!("c17_{}", e.name);
        let said = format!("governance says metadata={} data={}", KIND_NAMES[*meta], KIND_NAMES[*data]);
        // the victim's side (reader or writer) and the peer's side must get the same answer
        let a = check(o, &t, !e.is_reader, endpoint_want(*meta, *data), said.clone())?;
        check(o, &t, e.is_reader, endpoint_want(*meta, *data), said)?;
        a
      }
    };
    endpoints.push(a);
  }
  // the secure built-in topics follow the domain rule (7.4.8)
  for (t, k) in [
    ("DCPSParticipantSecure", discovery_kind),
    ("DCPSPublicationsSecure", discovery_kind),
    ("DCPSSubscriptionsSecure", discovery_kind),
    ("DCPSParticipantMessageSecure", liveliness_kind),
  ] {
    let (sp, se, so) = kind_means(k);
    check(o, t, c.bool(), (sp, false, false, 0x8000_0000u32 | (se as u32) | (so as u32) << 2), format!("domain rule says {}", KIND_NAMES[k]))?;
  }
  o.label(if rtps_kind >= 3 || kinds.iter().any(|(m, _)| *m >= 3) { "governance:origin-authentication" } else { "governance:plain-kinds" });
  Some(Governed { participant: pa, endpoints })
}

const PEER: u8 = 50;

fn must<T, E: std::fmt::Debug>(r: Result<T, E>, what: &str) -> T {
  match r {
    Ok(v) => v,
    Err(e) => panic!("C17 set-up: {what}: {e:?}"),
  }
}

fn serialize(m: &Message) -> Vec<u8> {
  m.write_to_vec_with_ctx(Endianness::LittleEndian).expect("C17: message serialization")
}

fn parse(bytes: &[u8]) -> Message {
  Message::read_from_buffer(&Bytes::copy_from_slice(bytes)).expect("C17: own datagram must parse")
}

fn one_sub(prefix: &GuidPrefix, kind: u8, flags: u8, body: &[u8]) -> Submessage {
  let mut dg = wire::rtps_header((2, 4), [1, 0x12], &prefix.bytes);
  wire::push_submessage(&mut dg, kind, flags, body, None);
  parse(&dg).submessages.remove(0)
}

#[derive(Clone, Copy, Debug, PartialEq, Eq)]
enum PayloadForm {
  Plain,
  Encoded,
  EncodedByOther,
}

#[derive(Clone, Copy, Debug, PartialEq, Eq)]
enum Wrapper {
  None,
  Correct,
  OtherEndpointKeys,
  PrefixNoPostfix,
  PostfixFirst,
  TwoBodies,
  PrefixOfAnotherEncoding,
  /// correct triple, but the plain submessage is sent once more after it
  CorrectThenPlainCopy,
}

#[derive(Clone, Debug)]
struct Delivery {
  ep: usize,
  explicit: bool,
  payload: PayloadForm,
  wrapper: Wrapper,
  /// sequence number (readers) or count (writer) that identifies it in the observation
  id: i64,
  /// the writer id the DATA claims: the peer's matched writer, or (forged) another one
  claimed_writer: EntityId,
  /// K flag instead of D flag
  key_only: bool,
}

pub fn run(scenario: u32, choices: &[u8], _strict: bool) -> Outcome {
  run_mode(scenario, choices, false)
}

/// C06, scenario 5 (security build): the same victim and the same mixture of traffic, but every
/// datagram is first injected in 1-3 byte-mutated forms (flips, length fields, truncation,
/// insertion, splices) under C06's per-datagram monitors (panic hook, loop budget, allocation
/// budget). Nothing is asserted about what the mutants deliver. Afterwards a second, well-behaved
/// and fully key-exchanged peer, whose GUID prefix the hostile datagrams never carry, sends one
/// exactly-right sample to every reader: it must arrive.
pub fn run_hostile(choices: &[u8]) -> Outcome {
  run_mode(0, choices, true)
}

const WELL_BEHAVED: u8 = 52;

fn run_mode(scenario: u32, choices: &[u8], hostile: bool) -> Outcome {
  let mut c = Choices::new(choices);
  let mut o = Outcome::new();
  let _g = CaseGuard::new();
  let prot = |c: &mut Choices| [Prot::None, Prot::Sign, Prot::Encrypt][c.weighted(&[2, 3, 3])];

  // ---------------------------------------------------------------- configuration
  let rtps = prot(&mut c);
  let nuser = 2 + c.pick(2);
  let mut eps: Vec<Ep> = Vec::new();
  for i in 0..nuser {
    eps.push(Ep {
      name: ["user-reader-1", "user-reader-2", "user-reader-3"][i],
      local: rig::user_reader_eid(i as u8 + 1, true),
      remote: rig::user_writer_eid(i as u8 + 1, true),
      is_reader: true,
      sub: prot(&mut c),
      payload: prot(&mut c),
      exempt: false,
      volatile: false,
      stateless_like: false,
      slot: 0,
    });
  }
  eps.push(Ep {
    name: "spdp-reader",
    local: EntityId::SPDP_BUILTIN_PARTICIPANT_READER,
    remote: EntityId::SPDP_BUILTIN_PARTICIPANT_WRITER,
    is_reader: true,
    sub: Prot::None,
    payload: Prot::None,
    exempt: true,
    volatile: false,
    stateless_like: true,
    slot: 0,
  });
  eps.push(Ep {
    name: "stateless-reader",
    local: EntityId::P2P_BUILTIN_PARTICIPANT_STATELESS_READER,
    remote: EntityId::P2P_BUILTIN_PARTICIPANT_STATELESS_WRITER,
    is_reader: true,
    sub: Prot::None,
    payload: Prot::None,
    exempt: true,
    volatile: false,
    stateless_like: true,
    slot: 0,
  });
  eps.push(Ep {
    name: "volatile-secure-reader",
    local: EntityId::P2P_BUILTIN_PARTICIPANT_VOLATILE_SECURE_READER,
    remote: EntityId::P2P_BUILTIN_PARTICIPANT_VOLATILE_SECURE_WRITER,
    is_reader: true,
    sub: Prot::Encrypt,
    payload: Prot::None,
    exempt: true,
    volatile: true,
    stateless_like: false,
    slot: 0,
  });
  eps.push(Ep {
    name: "sedp-publications-reader",
    local: EntityId::SEDP_BUILTIN_PUBLICATIONS_READER,
    remote: EntityId::SEDP_BUILTIN_PUBLICATIONS_WRITER,
    is_reader: true,
    sub: Prot::None,
    payload: Prot::None,
    exempt: false,
    volatile: false,
    stateless_like: false,
    slot: 0,
  });
  eps.push(Ep {
    name: "user-writer",
    local: rig::user_writer_eid(9, true),
    remote: rig::user_reader_eid(9, true),
    is_reader: false,
    sub: prot(&mut c),
    payload: Prot::None,
    exempt: false,
    volatile: false,
    stateless_like: false,
    slot: 0,
  });

  let mut governance_sample = String::new();
  let governed_attrs = if scenario == 1 {
    match governed(&mut c, rtps, &eps, &mut o, &mut governance_sample) {
      Some(g) => Some(g),
      None => {
        o.sample = governance_sample;
        return o;
      }
    }
  } else {
    None
  };
  let participant_attributes = || governed_attrs.as_ref().map(|g| g.participant.clone()).unwrap_or_else(|| participant_attrs(rtps));

  // A legitimate set-up (registration and key exchange of endpoints whose attributes come from the
  // generated governance) that fails means that correctly protected traffic cannot flow at all:
  // that is a violation of "keeps flowing", not a harness error.
  macro_rules! setup {
    ($r:expr, $what:expr) => {
      match $r {
        Ok(v) => v,
        Err(e) => {
          o.violate("c17.blocked", &format!("setup:{}", $what), format!("rtps={rtps:?} endpoints={:?}: {} failed for a legitimate, consistently configured pair of participants: {e:?}", eps.iter().map(|e| (e.name, e.sub, e.payload)).collect::<Vec<_>>(), $what));
          return o;
        }
      }
    };
  }
  // ---------------------------------------------------------------- the two plugin sets
  let vp = rig::node_prefix(0);
  let lp = rig::node_prefix(PEER);
  let mut pv = SecurityPlugins::new(Box::new(StubAuth { local: 1 }), Box::new(StubAccess), Box::new(CryptographicBuiltin::new()));
  let mut pl = SecurityPlugins::new(Box::new(StubAuth { local: 2 }), Box::new(StubAccess), Box::new(CryptographicBuiltin::new()));
  for p in [&mut pv, &mut pl] {
    p.verif_set_handles(vp, 1, 1);
    p.verif_set_handles(lp, 2, 2);
  }
  setup!(pv.register_local_participant(vp, None, participant_attributes()), "register_local_participant");
  setup!(pl.register_local_participant(lp, None, participant_attributes()), "register_local_participant");
  setup!(pv.register_matched_remote_participant(lp, pair_secret(1, 2)), "register_matched_remote_participant");
  setup!(pl.register_matched_remote_participant(vp, pair_secret(1, 2)), "register_matched_remote_participant");
  let t = setup!(pl.create_local_participant_crypto_tokens(vp), "participant tokens");
  setup!(pv.set_remote_participant_crypto_tokens(lp, t), "set participant tokens");
  let t = setup!(pv.create_local_participant_crypto_tokens(lp), "participant tokens");
  setup!(pl.set_remote_participant_crypto_tokens(vp, t), "set participant tokens");

  for (i, e) in eps.iter().enumerate() {
    let lg = GUID::new(vp, e.local);
    let rg = GUID::new(lp, e.remote);
    let a = governed_attrs.as_ref().map(|g| g.endpoints[i].clone()).unwrap_or_else(|| endpoint_attrs(e.sub, e.payload));
    if e.is_reader {
      setup!(pv.register_local_reader(lg, None, a.clone()), "register_local_reader");
      setup!(pl.register_local_writer(rg, None, a), "register_local_writer");
      setup!(pv.register_matched_remote_writer_if_not_already(rg, lg), "register_matched_remote_writer");
      setup!(pl.register_matched_remote_reader_if_not_already(lg, rg, false), "register_matched_remote_reader");
      if !e.volatile {
        let t = setup!(pl.create_local_writer_crypto_tokens(rg, lg), "writer tokens");
        setup!(pv.set_remote_writer_crypto_tokens(rg, lg, t), "set writer tokens");
        let t = setup!(pv.create_local_reader_crypto_tokens(lg, rg), "reader tokens");
        setup!(pl.set_remote_reader_crypto_tokens(lg, rg, t), "set reader tokens");
      }
    } else {
      setup!(pv.register_local_writer(lg, None, a.clone()), "register_local_writer");
      setup!(pl.register_local_reader(rg, None, a), "register_local_reader");
      setup!(pv.register_matched_remote_reader_if_not_already(rg, lg, false), "register_matched_remote_reader");
      setup!(pl.register_matched_remote_writer_if_not_already(lg, rg), "register_matched_remote_writer");
      let t = setup!(pl.create_local_reader_crypto_tokens(rg, lg), "reader tokens");
      setup!(pv.set_remote_reader_crypto_tokens(rg, lg, t), "set reader tokens");
      let t = setup!(pv.create_local_writer_crypto_tokens(lg, rg), "writer tokens");
      setup!(pl.set_remote_writer_crypto_tokens(lg, rg, t), "set writer tokens");
    }
  }

  // ---------------------------------------------------------------- hostile mode: a second, well-behaved peer
  let wp = rig::node_prefix(WELL_BEHAVED);
  let mut pw_opt: Option<SecurityPlugins> = None;
  if hostile {
    let mut pw = SecurityPlugins::new(Box::new(StubAuth { local: 3 }), Box::new(StubAccess), Box::new(CryptographicBuiltin::new()));
    pv.verif_set_handles(wp, 3, 3);
    pw.verif_set_handles(wp, 3, 3);
    pw.verif_set_handles(vp, 1, 1);
    setup!(pw.register_local_participant(wp, None, participant_attributes()), "register_local_participant (well-behaved peer)");
    setup!(pv.register_matched_remote_participant(wp, pair_secret(1, 3)), "register_matched_remote_participant (well-behaved peer)");
    setup!(pw.register_matched_remote_participant(vp, pair_secret(1, 3)), "register_matched_remote_participant (well-behaved peer)");
    let t = setup!(pw.create_local_participant_crypto_tokens(vp), "participant tokens");
    setup!(pv.set_remote_participant_crypto_tokens(wp, t), "set participant tokens");
    let t = setup!(pv.create_local_participant_crypto_tokens(wp), "participant tokens");
    setup!(pw.set_remote_participant_crypto_tokens(vp, t), "set participant tokens");
    for (i, e) in eps.iter().enumerate().filter(|(_, e)| e.is_reader) {
      let lg = GUID::new(vp, e.local);
      let wg = GUID::new(wp, e.remote);
      let a = governed_attrs.as_ref().map(|g| g.endpoints[i].clone()).unwrap_or_else(|| endpoint_attrs(e.sub, e.payload));
      setup!(pw.register_local_writer(wg, None, a), "register_local_writer (well-behaved peer)");
      setup!(pv.register_matched_remote_writer_if_not_already(wg, lg), "register_matched_remote_writer (well-behaved peer)");
      setup!(pw.register_matched_remote_reader_if_not_already(lg, wg, false), "register_matched_remote_reader (well-behaved peer)");
      if !e.volatile {
        let t = setup!(pw.create_local_writer_crypto_tokens(wg, lg), "writer tokens");
        setup!(pv.set_remote_writer_crypto_tokens(wg, lg, t), "set writer tokens");
        let t = setup!(pv.create_local_reader_crypto_tokens(lg, wg), "reader tokens");
        setup!(pw.set_remote_reader_crypto_tokens(lg, wg, t), "set reader tokens");
      }
    }
    pw_opt = Some(pw);
  }

  // ---------------------------------------------------------------- the victim node
  // Sometimes every user reader is also matched (at RTPS level) with writers of a third
  // participant that happen to carry the entity ids of the peer's OTHER user writers - entity ids
  // are only unique per participant. A submessage with reader id UNKNOWN then has several
  // candidate readers with different protection; each must be judged by its own.
  let same_writer_ids_elsewhere = c.chance(110);
  let user_writer_ids: Vec<EntityId> = eps.iter().filter(|e| e.is_reader && e.name.starts_with("user-reader")).map(|e| e.remote).collect();
  let third = rig::node_prefix(54);
  let mut node = Node::new_with_plugins(0, Some(SecurityPluginsHandle::new(pv)));
  for e in eps.iter_mut() {
    if e.is_reader {
      let q = if e.stateless_like { rig::best_effort_qos() } else { rig::reliable_qos() };
      let slot = node.add_reader_with(e.local, &format!("c17_{}", e.name), &q, e.stateless_like, 64);
      if same_writer_ids_elsewhere && e.name.starts_with("user-reader") {
        for w in user_writer_ids.iter().filter(|w| **w != e.remote) {
          node.reader_mut(slot).update_writer_proxy(rig::writer_proxy_for(GUID::new(third, *w), rig::node_locator(54)), &q);
        }
      }
      node.reader_mut(slot).update_writer_proxy(rig::writer_proxy_for(GUID::new(lp, e.remote), rig::node_locator(PEER)), &q);
      if hostile {
        node.reader_mut(slot).update_writer_proxy(rig::writer_proxy_for(GUID::new(wp, e.remote), rig::node_locator(WELL_BEHAVED)), &q);
      }
      e.slot = slot;
    } else {
      let slot = node.add_writer(e.local, "c17_user_writer", &rig::reliable_qos());
      let q = rig::reliable_qos();
      node.writers[slot].writer.update_reader_proxy(&rig::reader_proxy_for(GUID::new(lp, e.remote), rig::node_locator(PEER), &q), &q);
      e.slot = slot;
    }
  }

  // ---------------------------------------------------------------- traffic
  let ndg = 3 + c.pick(8);
  let mut next_id: BTreeMap<usize, i64> = BTreeMap::new();
  let mut sample = format!(
    "{governance_sample}rtps={rtps:?} endpoints={:?}",
    eps.iter().map(|e| (e.name, e.sub, e.payload)).collect::<Vec<_>>()
  );
  let mut seen: BTreeSet<(usize, i64)> = BTreeSet::new();
  let mut nontrivial = false;
  let header = parse(&wire::rtps_header((2, 4), [1, 0x12], &lp.bytes)).header;

  for dgno in 0..ndg {
    let nd = 1 + c.pick(2);
    let srtps = c.chance(if rtps == Prot::None { 30 } else { 140 });
    let info_dst = [0usize, 0, 0, 0, 0, 2, 2, 3][c.pick(8)]; // 0 none; 2 own prefix; 3 other prefix
    let mut subs: Vec<Submessage> = Vec::new();
    let mut deliveries: Vec<(Delivery, Vec<u8>)> = Vec::new();
    if info_dst >= 2 {
      let p = if info_dst == 2 { vp } else { rig::node_prefix(77) };
      let (f, b) = wire::info_dst_body(true, &p.bytes);
      subs.push(one_sub(&lp, wire::INFO_DST, f, &b));
    }
    for _ in 0..nd {
      let ep = c.pick(eps.len());
      let e = eps[ep].clone();
      let explicit = !c.chance(70);
      let payload_form = [PayloadForm::Plain, PayloadForm::Encoded, PayloadForm::EncodedByOther][c.weighted(&[4, 4, 1])];
      let wrapper = [
        Wrapper::None,
        Wrapper::Correct,
        Wrapper::OtherEndpointKeys,
        Wrapper::PrefixNoPostfix,
        Wrapper::PostfixFirst,
        Wrapper::TwoBodies,
        Wrapper::PrefixOfAnotherEncoding,
        Wrapper::CorrectThenPlainCopy,
      ][c.weighted(&[8, 8, 2, 1, 1, 1, 1, 1])];
      // A sender chooses the writer id it puts into a plaintext DATA. Only with an explicit
      // reader id (the DATA then reaches this reader only), always without any protection.
      let forged_writer: Option<EntityId> = if e.is_reader && explicit && c.chance(45) {
        let w = [
          EntityId::SPDP_BUILTIN_PARTICIPANT_WRITER,
          EntityId::P2P_BUILTIN_PARTICIPANT_STATELESS_WRITER,
          EntityId::P2P_BUILTIN_PARTICIPANT_VOLATILE_SECURE_WRITER,
          EntityId::SEDP_BUILTIN_PUBLICATIONS_WRITER,
          EntityId::SEDP_BUILTIN_SUBSCRIPTIONS_WRITER,
          eps[(ep + 1) % eps.len()].remote,
        ][c.pick(6)];
        if w == e.remote || w.kind().is_reader() { None } else { Some(w) }
      } else {
        None
      };
      let (payload_form, wrapper) = if forged_writer.is_some() { (PayloadForm::Plain, Wrapper::None) } else { (payload_form, wrapper) };
      let claimed_writer = forged_writer.unwrap_or(e.remote);
      // DATA with the K flag instead of the D flag: the payload is a serialized key (what dispose /
      // unregister send). Payload protection covers it like any other payload.
      let key_only = e.is_reader && e.name.starts_with("user-reader") && c.chance(45);
      let id = {
        let n = next_id.entry(ep).or_insert(0);
        *n += 1;
        *n
      };
      let lg = GUID::new(vp, e.local);
      let rg = GUID::new(lp, e.remote);
      // ---- the plain submessage
      let len = c.pick(40);
      let mut plain_payload = vec![0, 1, 0, 0, id as u8];
      plain_payload.extend((0..len).map(|i| (i as u8).wrapping_mul(13).wrapping_add(id as u8)));
      let mut payload_form_eff = payload_form;
      let plain_sub: Submessage = if e.is_reader {
        let wire_payload = match payload_form {
          PayloadForm::Plain => plain_payload.clone(),
          PayloadForm::Encoded => must(pl.encode_serialized_payload(plain_payload.clone(), &rg), "encode payload").0,
          PayloadForm::EncodedByOther => {
            // another of the peer's writers whose payload is protected
            match eps.iter().find(|x| x.is_reader && x.payload != Prot::None && x.local != e.local) {
              Some(x) => must(pl.encode_serialized_payload(plain_payload.clone(), &GUID::new(lp, x.remote)), "encode payload").0,
              None => {
                payload_form_eff = PayloadForm::Plain;
                plain_payload.clone()
              }
            }
          }
        };
        if wire_payload == plain_payload {
          payload_form_eff = PayloadForm::Plain;
        }
        let (f, b) = wire::data_body(
          true,
          &wire::DataSpec {
            reader_id: if explicit { eid_bytes(e.local) } else { [0, 0, 0, 0] },
            writer_id: eid_bytes(claimed_writer),
            sn: id,
            inline_qos: if key_only { Some(vec![(wire::PID_STATUS_INFO, vec![0, 0, 0, 1])]) } else { None },
            payload: Some(wire_payload),
            key_flag: key_only,
          },
        );
        one_sub(&lp, wire::DATA, f, &b)
      } else {
        payload_form_eff = PayloadForm::Plain;
        let (f, b) = wire::acknack_body(true, eid_bytes(e.remote), eid_bytes(e.local), 1, 0, &[], id as i32, true);
        one_sub(&lp, wire::ACKNACK, f, &b)
      };
      // ---- the wrapper
      let encode = |source: &GUID, dest: &GUID, s: Submessage| -> EncodedSubmessage {
        if e.is_reader {
          must(pl.encode_datawriter_submessage(s, source, &[*dest]), "encode_datawriter_submessage")
        } else {
          must(pl.encode_datareader_submessage(s, source, &[*dest]), "encode_datareader_submessage")
        }
      };
      let mut wrapper_eff = wrapper;
      let correct: Vec<Submessage> = encode(&rg, &lg, plain_sub.clone()).into();
      if correct.len() == 1 && wrapper != Wrapper::None {
        // this endpoint needs no submessage protection: the peer does not wrap
        wrapper_eff = Wrapper::None;
      }
      match wrapper_eff {
        Wrapper::None => subs.push(plain_sub.clone()),
        Wrapper::Correct => subs.extend(correct),
        Wrapper::CorrectThenPlainCopy => {
          subs.extend(correct);
          subs.push(plain_sub.clone());
        }
        Wrapper::OtherEndpointKeys => {
          match eps.iter().find(|x| x.is_reader == e.is_reader && x.sub != Prot::None && !x.volatile && x.local != e.local) {
            Some(x) => {
              let v: Vec<Submessage> = encode(&GUID::new(lp, x.remote), &GUID::new(vp, x.local), plain_sub.clone()).into();
              subs.extend(v);
            }
            None => {
              wrapper_eff = Wrapper::None;
              subs.push(plain_sub.clone());
            }
          }
        }
        Wrapper::PrefixNoPostfix => {
          subs.push(correct[0].clone());
          subs.push(plain_sub.clone());
        }
        Wrapper::PostfixFirst => {
          subs.push(correct[2].clone());
          subs.push(plain_sub.clone());
        }
        Wrapper::TwoBodies => {
          subs.push(correct[0].clone());
          subs.push(plain_sub.clone());
          subs.push(plain_sub.clone());
          subs.push(correct[2].clone());
        }
        Wrapper::PrefixOfAnotherEncoding => {
          let other: Vec<Submessage> = encode(&rg, &lg, plain_sub.clone()).into();
          subs.push(other[0].clone());
          subs.push(plain_sub.clone());
          subs.push(correct[2].clone());
        }
      }
      deliveries.push((
        Delivery {
          ep,
          explicit,
          payload: payload_form_eff,
          wrapper: wrapper_eff,
          id,
          claimed_writer,
          key_only,
        },
        plain_payload,
      ));
    }
    let msg = Message { header, submessages: subs };
    let (bytes, srtps_eff) = if srtps {
      // a legitimate peer cannot wrap a message that mixes exempt and other topics, and does
      // not wrap one that holds exempt topics only
      match pl.encode_message(msg.clone(), &lp, &[vp]) {
        Ok(m) => {
          let b = serialize(&m);
          let wrapped = b.len() > 20 && b[20] == 0x33;
          (b, wrapped)
        }
        Err(_) => (serialize(&msg), false),
      }
    } else {
      (serialize(&msg), false)
    };
    sample.push_str(&format!(
      " | dg{dgno} srtps={srtps_eff} info_dst={} {:?}",
      ["-", "-", "own", "other"][info_dst],
      deliveries.iter().map(|(d, _)| (eps[d.ep].name, d.explicit, d.payload, d.wrapper, if d.claimed_writer != eps[d.ep].remote { Some(d.claimed_writer) } else { None })).collect::<Vec<_>>()
    ));

    // ---------------------------------------------------------------- hostile mode: mutants first
    if hostile {
      let variants = 1 + c.pick(3);
      for v in 0..variants {
        let mut hb = bytes.clone();
        let mut recipe: Vec<&'static str> = Vec::new();
        let walked = wire::walk(&hb).map(|(_, w)| w).unwrap_or_default();
        for _ in 0..1 + c.pick(4) {
          if hb.len() <= 24 {
            break;
          }
          match c.weighted(&[6, 4, 2, 2, 2, 2]) {
            0 => {
              // one byte anywhere behind the RTPS header (the GUID prefix stays the hostile peer's)
              let i = 20 + c.pick(hb.len() - 20);
              hb[i] = c.byte();
              recipe.push("byte");
            }
            1 => {
              // the length field of a submessage header
              if let Some(sub) = (!walked.is_empty()).then(|| &walked[c.pick(walked.len())]) {
                if sub.offset + 4 <= hb.len() {
                  let l = [0u16, 1, 3, 4, 16, 20, 23, 24, 40, 0x7fff, 0xffff, (hb.len() as u16).wrapping_sub(1)][c.pick(12)];
                  let le = hb[sub.offset + 1] & 1 == 1;
                  let lb = if le { l.to_le_bytes() } else { l.to_be_bytes() };
                  hb[sub.offset + 2] = lb[0];
                  hb[sub.offset + 3] = lb[1];
                  recipe.push("length");
                }
              }
            }
            2 => {
              let cut = 20 + c.pick(hb.len() - 20);
              hb.truncate(cut);
              recipe.push("truncate");
            }
            3 => {
              let at = 20 + c.pick(hb.len() - 20);
              let n = 1 + c.pick(24);
              let ins = c.bytes(n);
              hb.splice(at..at, ins);
              recipe.push("insert");
            }
            4 => {
              // a 32-bit field inside a secure submessage (transformation kind, key id, session id,
              // content length, MAC count) gets a boundary value
              if let Some(sub) = walked.iter().filter(|x| (0x30..=0x34).contains(&x.kind)).nth(0) {
                let field = sub.offset + 4 + 4 * c.pick(8);
                if field + 4 <= hb.len() {
                  let val = [0u32, 1, 2, 0x100, 0x7fff_ffff, 0x8000_0000, 0xffff_fffe, 0xffff_ffff][c.pick(8)];
                  let vb = if c.bool() { val.to_le_bytes() } else { val.to_be_bytes() };
                  hb[field..field + 4].copy_from_slice(&vb);
                  recipe.push("secure-field");
                }
              }
            }
            _ => {
              // splice: the tail of this datagram behind the head of itself again
              let at = 20 + c.pick(hb.len() - 20);
              let tail = hb[at..].to_vec();
              hb.extend_from_slice(&tail);
              recipe.push("splice");
            }
          }
        }
        if hb.len() >= 20 && hb[8..20] == wp.bytes {
          hb[8] ^= 0xff;
        }
        let len = hb.len();
        let tick_budget = 2_000 + 64 * len as u64;
        let base = hooks::alloc_stats().map(|s| s.live).unwrap_or(0);
        hooks::alloc_reset_peak();
        hooks::tick_reset(tick_budget);
        node.mr.handle_received_packet(&Bytes::copy_from_slice(&hb));
        let ticks = hooks::ticks();
        hooks::tick_disarm();
        while node.acknack_rx.try_recv().is_ok() {}
        if ticks > tick_budget {
          o.violate("c06.tick-budget", &format!("secure:{}", recipe.join("+")), format!("datagram {dgno} mutant {v} ({len} bytes): {ticks} loop iterations (budget {tick_budget}); bytes={}", super::hex(&hb[..len.min(200)])));
          o.sample = sample;
          return o;
        }
        if let Some(st) = hooks::alloc_stats() {
          let over = st.peak.saturating_sub(base);
          let budget = (1usize << 20) + 256 * len;
          if over > budget {
            o.violate("c06.alloc-budget", &format!("secure:{}", recipe.join("+")), format!("datagram {dgno} mutant {v} ({len} bytes): peak allocation {over} bytes above the level before it (budget {budget}); bytes={}", super::hex(&hb[..len.min(200)])));
            o.sample = sample;
            return o;
          }
        }
        for r in &recipe {
          o.label(r);
        }
        if walked.iter().any(|x| (0x30..=0x34).contains(&x.kind)) {
          o.label("mutant-of-a-protected-datagram");
          nontrivial = true;
        }
      }
      // the unmutated datagram keeps the protocol state moving; nothing is asserted about it here
      node.mr.handle_received_packet(&Bytes::copy_from_slice(&bytes));
      while node.acknack_rx.try_recv().is_ok() {}
      let _ = hooks::capture_drain();
      continue;
    }
    // ---------------------------------------------------------------- inject and observe
    node.mr.handle_received_packet(&Bytes::copy_from_slice(&bytes));
    let mut acks: Vec<i64> = Vec::new();
    while let Ok((_, a)) = node.acknack_rx.try_recv() {
      if let AckSubmessage::AckNack(an) = a {
        acks.push(i64::from(an.count));
      }
    }
    // the state of the secure-submessage sequencer must not leak into the next datagram's verdict:
    // a dangling prefix swallows the next submessage, which is only ever a loss, never a bypass
    let mut disturbed = false;
    for (d, plain_payload) in &deliveries {
      let e = &eps[d.ep];
      let addressed = info_dst != 3;
      if !addressed {
        // INFO_DST names another participant: nothing is asserted (C17 is about protection)
        o.label("addressed-to-another-participant");
        continue;
      }
      let was_disturbed = disturbed;
      if d.wrapper == Wrapper::PrefixNoPostfix {
        // the sequencer now waits for a postfix and swallows the next submessage of this datagram
        disturbed = true;
      }
      let rtps_ok = rtps == Prot::None || srtps_eff || e.exempt;
      let sub_required = e.sub != Prot::None;
      let payload_required = e.payload != Prot::None && e.is_reader;
      let wrapper_valid = matches!(d.wrapper, Wrapper::Correct | Wrapper::CorrectThenPlainCopy);
      let lacks_protection = !rtps_ok || (sub_required && !wrapper_valid) || (payload_required && d.payload != PayloadForm::Encoded);
      let forged = d.claimed_writer != e.remote;
      let exactly_right = addressed
        && !forged
        && rtps_ok
        && (if sub_required { d.wrapper == Wrapper::Correct } else { d.wrapper == Wrapper::None })
        && (if payload_required { d.payload == PayloadForm::Encoded } else { d.payload == PayloadForm::Plain });
      if (sub_required || payload_required || (rtps != Prot::None && !e.exempt)) && lacks_protection {
        nontrivial = true;
      }
      // observation
      let (arrived, payload_ok) = if e.is_reader {
        let tc = node.readers[e.slot].topic_cache.lock().unwrap();
        let found = tc
          .get_changes_in_range_best_effort(Timestamp::ZERO, Timestamp::INFINITE)
          .find(|(_, cc)| cc.writer_guid == GUID::new(lp, d.claimed_writer) && i64::from(cc.sequence_number) == d.id)
          .map(|(_, cc)| match &cc.data_value {
            crate::dds::ddsdata::DDSData::Data { serialized_payload } | crate::dds::ddsdata::DDSData::DisposeByKey { key: serialized_payload, .. } => {
              let mut v = serialized_payload.representation_identifier.bytes.to_vec();
              v.extend_from_slice(&serialized_payload.representation_options);
              v.extend_from_slice(&serialized_payload.value);
              v
            }
            other => format!("{other:?}").into_bytes(),
          });
        match found {
          Some(p) => (true, p.len() >= plain_payload.len() && p[..plain_payload.len()] == plain_payload[..] && p[plain_payload.len()..].iter().all(|b| *b == 0)),
          None => (false, true),
        }
      } else {
        (acks.contains(&d.id), true)
      };
      let newly = arrived && seen.insert((d.ep, d.id));
      let what = format!(
        "datagram {dgno} (srtps={srtps_eff}, info_dst={}): {} {}{} to {} [rtps={rtps:?} sub={:?} payload={:?}] with payload {:?}, wrapper {:?}",
        ["-", "-", "own", "other"][info_dst],
        if e.is_reader { "DATA" } else { "ACKNACK" },
        d.id,
        format!("{}{}", if d.key_only { " (K flag: serialized key)" } else { "" }, if forged { format!(" claiming writer id {:?}", d.claimed_writer) } else { String::new() }),
        e.name,
        e.sub,
        e.payload,
        d.payload,
        d.wrapper
      );
      if newly && lacks_protection {
        let which = if !rtps_ok {
          "rtps-protection-missing"
        } else if sub_required && !wrapper_valid {
          "submessage-protection-missing"
        } else {
          "payload-protection-missing"
        };
        o.violate("c17.bypass", &format!("{which}:{}", e.name), format!("{what} WAS DELIVERED (explicit receiver id: {})", d.explicit));
        o.sample = sample;
        return o;
      }
      if newly && !payload_ok && (if payload_required { d.payload == PayloadForm::Encoded } else { d.payload == PayloadForm::Plain }) {
        o.violate("c17.garbage-delivered", e.name, format!("{what}: delivered payload differs from what the peer sent"));
        o.sample = sample;
        return o;
      }
      if exactly_right && !arrived && !was_disturbed {
        o.violate(
          "c17.blocked",
          &format!("{}:{}", if sub_required || payload_required || rtps != Prot::None { "correctly-protected" } else { "unprotected" }, e.name),
          format!("{what} was NOT delivered although it carries exactly the required protection (explicit receiver id: {})", d.explicit),
        );
        o.sample = sample;
        return o;
      }
      if exactly_right {
        o.label(if sub_required || payload_required || (rtps != Prot::None && !e.exempt) { "protected-delivered" } else { "unprotected-delivered" });
      }
      if lacks_protection && !arrived {
        o.label(if !rtps_ok {
          "rejected-rtps-level"
        } else if sub_required && !wrapper_valid {
          "rejected-submessage-level"
        } else if payload_required {
          "rejected-payload-level"
        } else {
          "rejected-not-addressed"
        });
      }
      if !d.explicit {
        o.label("entityid-unknown");
      }
      if forged {
        o.label(if lacks_protection { "forged-writer-id-unprotected" } else { "forged-writer-id-nothing-required" });
      }
      if d.key_only {
        o.label(if lacks_protection { "key-only-DATA-unprotected" } else { "key-only-DATA" });
      }
      if e.exempt && rtps != Prot::None && !srtps_eff && arrived {
        o.label("exempt-topic-plaintext-accepted");
      }
    }
    let _ = hooks::capture_drain();
  }
  if let Some(pw) = pw_opt.as_ref() {
    // ---------------------------------------------------------------- survival: the well-behaved peer
    let wheader = parse(&wire::rtps_header((2, 4), [1, 0x12], &wp.bytes)).header;
    for e in eps.iter().filter(|e| e.is_reader) {
      let lg = GUID::new(vp, e.local);
      let wg = GUID::new(wp, e.remote);
      let mut plain_payload = vec![0, 1, 0, 0, 0x77];
      plain_payload.extend((0..11u8).map(|i| i.wrapping_mul(29)));
      let wire_payload = if e.payload != Prot::None { must(pw.encode_serialized_payload(plain_payload.clone(), &wg), "encode payload (well-behaved peer)").0 } else { plain_payload.clone() };
      let (f, b) = wire::data_body(
        true,
        &wire::DataSpec {
          reader_id: eid_bytes(e.local),
          writer_id: eid_bytes(e.remote),
          sn: 1,
          inline_qos: None,
          payload: Some(wire_payload),
          key_flag: false,
        },
      );
      let plain_sub = one_sub(&wp, wire::DATA, f, &b);
      let subs: Vec<Submessage> = must(pw.encode_datawriter_submessage(plain_sub, &wg, &[lg]), "encode_datawriter_submessage (well-behaved peer)").into();
      let msg = Message { header: wheader, submessages: subs };
      let bytes = match pw.encode_message(msg.clone(), &wp, &[vp]) {
        Ok(m) => serialize(&m),
        Err(e) => panic!("C06/C17 rig: encode_message of the well-behaved peer: {e:?}"),
      };
      node.mr.handle_received_packet(&Bytes::copy_from_slice(&bytes));
      while node.acknack_rx.try_recv().is_ok() {}
      let tc = node.readers[e.slot].topic_cache.lock().unwrap();
      let found = tc
        .get_changes_in_range_best_effort(Timestamp::ZERO, Timestamp::INFINITE)
        .find(|(_, cc)| cc.writer_guid == wg && i64::from(cc.sequence_number) == 1)
        .map(|(_, cc)| match &cc.data_value {
          crate::dds::ddsdata::DDSData::Data { serialized_payload } => {
            let mut v = serialized_payload.representation_identifier.bytes.to_vec();
            v.extend_from_slice(&serialized_payload.representation_options);
            v.extend_from_slice(&serialized_payload.value);
            v
          }
          other => format!("{other:?}").into_bytes(),
        });
      match found {
        Some(p) if p.len() >= plain_payload.len() && p[..plain_payload.len()] == plain_payload[..] => {
          o.label("survival-delivered");
        }
        Some(_) => {
          o.violate("c06.survival-content", &format!("secure:{}", e.name), format!("{sample}: after the hostile datagrams the sample of a well-behaved, correctly protecting peer reached {} altered [rtps={rtps:?} sub={:?} payload={:?}]", e.name, e.sub, e.payload));
          o.sample = sample;
          return o;
        }
        None => {
          o.violate("c06.survival-delivery", &format!("secure:{}", e.name), format!("{sample}: after the hostile datagrams the correctly protected sample of a well-behaved peer no longer reaches {} [rtps={rtps:?} sub={:?} payload={:?}]", e.name, e.sub, e.payload));
          o.sample = sample;
          return o;
        }
      }
    }
  }
  if same_writer_ids_elsewhere {
    o.label("same-writer-entity-ids-in-another-participant");
  }
  o.label(match rtps {
    Prot::None => "rtps-none",
    Prot::Sign => "rtps-sign",
    Prot::Encrypt => "rtps-encrypt",
  });
  o.digest = fnv(sample.as_bytes());
  o.sample = sample;
  o.nontrivial = nontrivial;
  o
}

//! C14 — every RTPS message this implementation emits parses back to itself.
//!
//! Domain: Message values built through the implementation's own constructors
//! (MessageBuilder::*, *::create_submessage) with generated arguments, plus
//! struct literals for kinds without a constructor. Oracle: round trip through
//! Message::read_from_buffer, an independent framing walker and field decoder
//! (incrate/wire.rs), number-set membership against a reference BTreeSet, and
//! canonical idempotence write(parse(write(m))) == write(m).

use std::collections::BTreeSet;

use bytes::Bytes;
use enumflags2::BitFlags;
use speedy::{Endianness, Writable};

use super::{
  fnv, hex,
  wire::{self, Decoded},
  Choices, Outcome, Property, Scenario, Verdict,
};
use crate::{
  dds::{ddsdata::DDSData, key::KeyHash, with_key::datawriter::WriteOptionsBuilder},
  messages::{
    header::Header,
    protocol_id::ProtocolId,
    protocol_version::ProtocolVersion,
    submessages::{
      elements::serialized_payload::SerializedPayload,
      info_source::InfoSource,
      submessages::*,
    },
    vendor_id::VendorId,
  },
  rtps::{Message, MessageBuilder, Submessage, SubmessageBody},
  structure::{
    cache_change::{CacheChange, ChangeKind},
    guid::{EntityId, EntityKind, GuidPrefix, GUID},
    rpc::SampleIdentity,
    sequence_number::{FragmentNumber, FragmentNumberSet, SequenceNumber, SequenceNumberSet},
    time::Timestamp,
  },
  RepresentationIdentifier,
};

pub fn property() -> Property {
  Property {
    id: "C14",
    level: "exploration",
    rule: "Messages of 0-6 submessages built through MessageBuilder::{dst_submessage, ts_msg, \
           data_msg, data_frag_msg, gap_msg, gap_msg_before, heartbeat_msg} and \
           AckNack/NackFrag::create_submessage (struct literals for INFO_SRC, HEARTBEAT_FRAG), \
           arguments decoded from a choice stream (payload lengths of every residue mod 4, \
           SN sets = any subset of a 300-wide range over any base >= 1, both endianness flags, \
           any header version <= 2.x / vendor / prefix). Non-trivial = >= 2 submessages, or a \
           non-empty number set, inline QoS, or a payload whose length is not a multiple of 4. \
           Distinct = distinct serialised messages (digest of the bytes).",
    assumptions: &[
      "the independent RTPS codec in incrate/wire.rs (written from RTPS 2.5 chapter 9) is the reference for field layout",
      "DATA payloads are limited to 60000 bytes: larger samples are always fragmented by the writer, so a DATA whose length overflows octetsToNextHeader is never constructed",
      "a DATAFRAG whose length is not a multiple of 4 is generated only as the last submessage, as the writer always places it",
    ],
    scenarios: &[
      Scenario {
        id: 0,
        name: "constructed message -> bytes -> parse -> equal; framing; independent decode; idempotence",
        quick: 12_000,
        thorough: 10_000_000,
        max_len: 400,
        max_threads: 0,
      },
      Scenario {
        id: 1,
        name: "number sets: from_base_and_set / iter / len_serialized / wire vs reference BTreeSet",
        quick: 8_000,
        thorough: 4_000_000,
        max_len: 96,
        max_threads: 0,
      },
      Scenario {
        id: 2,
        name: "raw bytes: if they parse, re-serialise and re-parse to an equal message",
        quick: 6_000,
        thorough: 4_000_000,
        max_len: 300,
        max_threads: 0,
      },
    ],
    run,
    exhaustive: None,
  }
}

fn gen_endianness(c: &mut Choices) -> Endianness {
  if c.bool() {
    Endianness::BigEndian
  } else {
    Endianness::LittleEndian
  }
}

pub(crate) fn gen_entity_id(c: &mut Choices) -> EntityId {
  match c.pick(6) {
    0 => EntityId::UNKNOWN,
    1 => EntityId::new([0, 0, 1], EntityKind::WRITER_WITH_KEY_USER_DEFINED),
    2 => EntityId::new([0, 0, 2], EntityKind::READER_WITH_KEY_USER_DEFINED),
    3 => EntityId::SEDP_BUILTIN_PUBLICATIONS_WRITER,
    4 => EntityId::SPDP_BUILTIN_PARTICIPANT_READER,
    _ => EntityId::new([c.byte(), c.byte(), c.byte()], EntityKind::from(c.byte())),
  }
}

fn eid_bytes(e: EntityId) -> [u8; 4] {
  [
    e.entity_key[0],
    e.entity_key[1],
    e.entity_key[2],
    u8::from(e.entity_kind),
  ]
}

fn gen_prefix(c: &mut Choices) -> GuidPrefix {
  match c.pick(3) {
    0 => GuidPrefix::UNKNOWN,
    1 => GuidPrefix::new(&[1, 2, 3, 4, 5, 6, 7, 8, 9, 10, 11, 12]),
    _ => GuidPrefix::new(&c.bytes(12)),
  }
}

pub(crate) fn gen_sn(c: &mut Choices) -> i64 {
  match c.pick(8) {
    0 => 1,
    1 => c.int_in(1, 40),
    2 => c.int_in(200, 600),
    3 => (1i64 << 32) - 1 + c.int_in(0, 2),
    4 => (1i64 << 31) - 1 + c.int_in(0, 2),
    5 => c.int_in(1, i64::MAX / 2),
    6 => i64::MAX - 400 - c.int_in(0, 100),
    _ => c.int_in(1, 100_000),
  }
}

fn gen_payload_len(c: &mut Choices) -> usize {
  match c.pick(8) {
    0 => 0,
    1..=5 => c.usize_in(0, 70),
    6 => c.usize_in(70, 1500),
    _ => c.usize_in(1500, 60_000),
  }
}

fn pad4(mut v: Vec<u8>) -> Vec<u8> {
  while v.len() % 4 != 0 {
    v.push(0);
  }
  v
}

struct Built {
  /// expected independent decode of each submessage, in order
  expect: Vec<Decoded>,
  labels: Vec<&'static str>,
  nontrivial: bool,
  desc: Vec<String>,
}

fn sample_identity_bytes(si: &SampleIdentity, e: Endianness) -> Vec<u8> {
  let mut enc = wire::Enc::new(e == Endianness::LittleEndian);
  enc.bytes(&si.writer_guid.to_bytes());
  enc.sn(i64::from(si.sequence_number));
  enc.buf
}

fn gen_cache_change(c: &mut Choices, writer_guid: GUID, frag: bool) -> (CacheChange, &'static str) {
  let sn = SequenceNumber::from(gen_sn(c));
  let mut wo = WriteOptionsBuilder::new();
  if c.chance(64) {
    wo = wo.related_sample_identity(SampleIdentity {
      writer_guid: GUID::new(gen_prefix(c), gen_entity_id(c)),
      sequence_number: SequenceNumber::from(gen_sn(c)),
    });
  }
  if c.chance(64) {
    wo = wo.source_timestamp(Timestamp::from_ticks(c.u64()));
  }
  let len = if frag {
    c.usize_in(1, 300)
  } else {
    gen_payload_len(c)
  };
  let rep = match c.pick(4) {
    0 => RepresentationIdentifier::CDR_LE,
    1 => RepresentationIdentifier::CDR_BE,
    2 => RepresentationIdentifier::PL_CDR_LE,
    _ => RepresentationIdentifier {
      bytes: [c.byte(), c.byte()],
    },
  };
  let mut value = vec![0u8; len];
  // cheap deterministic content that makes slices distinguishable
  let salt = c.byte();
  for (i, b) in value.iter_mut().enumerate() {
    *b = (i as u8).wrapping_mul(31).wrapping_add(salt) | 1;
  }
  let mut sp = SerializedPayload::new_from_bytes(rep, Bytes::from(value));
  if c.chance(32) {
    sp.representation_options = [c.byte(), c.byte()];
  }
  let kinds = if frag { 2 } else { 3 };
  let (data, label) = match c.weighted(&[6, 2, 2][..kinds]) {
    0 => (DDSData::new(sp), "data"),
    1 => (
      DDSData::new_disposed_by_key(ChangeKind::NotAliveDisposed, sp),
      "dispose-by-key",
    ),
    _ => (
      DDSData::new_disposed_by_key_hash(
        ChangeKind::NotAliveDisposed,
        KeyHash::from_pl_cdr_bytes(c.bytes(16)).unwrap(),
      ),
      "dispose-by-keyhash",
    ),
  };
  (CacheChange::new(writer_guid, sn, wo.build(), data), label)
}

fn full_payload_bytes(d: &DDSData) -> Option<Vec<u8>> {
  match d {
    DDSData::Data { serialized_payload } | DDSData::DisposeByKey { key: serialized_payload, .. } => {
      let mut v = Vec::new();
      v.extend_from_slice(&serialized_payload.representation_identifier.bytes);
      v.extend_from_slice(&serialized_payload.representation_options);
      v.extend_from_slice(&serialized_payload.value);
      Some(v)
    }
    DDSData::DisposeByKeyHash { .. } => None,
  }
}

fn expected_inline_qos(cc: &CacheChange, e: Endianness, frag: bool) -> Option<Vec<(u16, Vec<u8>)>> {
  let mut v: Vec<(u16, Vec<u8>)> = Vec::new();
  if !frag {
    match &cc.data_value {
      DDSData::Data { .. } => {}
      DDSData::DisposeByKey { .. } => v.push((wire::PID_STATUS_INFO, vec![0, 0, 0, 3])),
      DDSData::DisposeByKeyHash { key_hash, .. } => {
        v.push((wire::PID_KEY_HASH, key_hash.to_vec()));
        v.push((wire::PID_STATUS_INFO, vec![0, 0, 0, 3]));
      }
    }
  }
  if let Some(si) = cc.write_options.related_sample_identity() {
    let b = sample_identity_bytes(&si, e);
    v.push((0x0083, b.clone()));
    v.push((0x800f, b));
  }
  if v.is_empty() {
    None
  } else {
    Some(v)
  }
}

fn gen_sn_set(c: &mut Choices) -> (i64, BTreeSet<i64>) {
  let base = gen_sn(c);
  let width = match c.pick(5) {
    0 => 0,
    1 => c.int_in(1, 33),
    2 => c.int_in(1, 256),
    3 => c.int_in(250, 260),
    _ => c.int_in(1, 300),
  };
  let mut set = BTreeSet::new();
  if width > 0 {
    let density = c.pick(4);
    for i in 0..width {
      let put = match density {
        0 => c.chance(32),
        1 => c.chance(128),
        2 => c.chance(230),
        _ => i == 0 || i == width - 1 || c.chance(16),
      };
      if put {
        set.insert(base + i);
      }
    }
  }
  (base, set)
}

fn build(c: &mut Choices) -> (Message, Built) {
  let mut b = Built {
    expect: Vec::new(),
    labels: Vec::new(),
    nontrivial: false,
    desc: Vec::new(),
  };
  let n = c.pick(7);
  let mut mb = MessageBuilder::new();
  let mut extra: Vec<(usize, Submessage)> = Vec::new(); // literal submessages: (position, submessage)
  let mut count = 0usize;
  let mut last_is_odd_frag = false;
  for i in 0..n {
    if last_is_odd_frag {
      break;
    }
    let e = gen_endianness(c);
    let le = e == Endianness::LittleEndian;
    let kind = c.pick(12);
    match kind {
      0 => {
        let p = gen_prefix(c);
        mb = mb.dst_submessage(e, p);
        b.expect.push(Decoded::InfoDst(p.bytes));
        b.labels.push("info_dst");
        b.desc.push(format!("INFO_DST({p:?},{e:?})"));
      }
      1 => {
        let ts = if c.chance(48) {
          None
        } else {
          Some(Timestamp::from_ticks(c.u64()))
        };
        mb = mb.ts_msg(e, ts);
        b.expect.push(Decoded::InfoTs(ts.map(|t| {
          let k = t.to_ticks();
          ((k >> 32) as u32, k as u32)
        })));
        b.labels.push("info_ts");
        b.desc.push(format!("INFO_TS({ts:?},{e:?})"));
      }
      2 | 3 => {
        let wg = GUID::new(gen_prefix(c), gen_entity_id(c));
        let (cc, label) = gen_cache_change(c, wg, false);
        let reid = gen_entity_id(c);
        mb = mb.data_msg(&cc, reid, wg, e, None);
        let payload = full_payload_bytes(&cc.data_value);
        if let Some(p) = &payload {
          if p.len() % 4 != 0 {
            b.nontrivial = true;
            b.labels.push("pad-needed");
          }
        }
        let iq = expected_inline_qos(&cc, e, false);
        if iq.is_some() {
          b.nontrivial = true;
          b.labels.push("inline-qos");
        }
        b.expect.push(Decoded::Data {
          reader_id: eid_bytes(reid),
          writer_id: eid_bytes(wg.entity_id),
          sn: i64::from(cc.sequence_number),
          inline_qos: iq.map(|v| v.into_iter().map(|(p, x)| (p, pad4(x))).collect()),
          payload: payload.clone().map(pad4),
          data_flag: matches!(cc.data_value, DDSData::Data { .. }),
          key_flag: matches!(cc.data_value, DDSData::DisposeByKey { .. }),
        });
        b.labels.push(label);
        b.desc.push(format!(
          "DATA({label},sn={:?},payload_len={:?},rsi={},{e:?})",
          cc.sequence_number,
          payload.map(|p| p.len()),
          cc.write_options.related_sample_identity().is_some()
        ));
      }
      4 => {
        let wg = GUID::new(gen_prefix(c), gen_entity_id(c));
        let (cc, label) = gen_cache_change(c, wg, true);
        let reid = gen_entity_id(c);
        let full = full_payload_bytes(&cc.data_value).unwrap();
        let sample_size = full.len() as u32;
        let frag_size = c.usize_in(1, full.len().min(64)) as u16;
        let total = (full.len() + frag_size as usize - 1) / frag_size as usize;
        let fnum = c.usize_in(1, total);
        mb = mb.data_frag_msg(
          &cc,
          reid,
          wg,
          FragmentNumber::new(fnum as u32),
          frag_size,
          sample_size,
          e,
          None,
        );
        let from = (fnum - 1) * frag_size as usize;
        let to = (fnum * frag_size as usize).min(full.len());
        let slice = full[from..to].to_vec();
        if slice.len() % 4 != 0 {
          last_is_odd_frag = true;
          b.labels.push("datafrag-unaligned-last");
        }
        let iq = expected_inline_qos(&cc, e, true);
        if iq.is_some() {
          b.labels.push("datafrag-inline-qos");
        }
        b.nontrivial = true;
        b.expect.push(Decoded::DataFrag {
          reader_id: eid_bytes(reid),
          writer_id: eid_bytes(wg.entity_id),
          sn: i64::from(cc.sequence_number),
          frag_start: fnum as u32,
          frags_in_submessage: 1,
          frag_size,
          sample_size,
          inline_qos: iq.map(|v| v.into_iter().map(|(p, x)| (p, pad4(x))).collect()),
          payload: slice,
          key_flag: matches!(cc.data_value, DDSData::DisposeByKey { .. }),
        });
        b.labels.push("datafrag");
        b.desc.push(format!(
          "DATAFRAG({label},sn={:?},frag {fnum}/{total},fsize={frag_size},size={sample_size},rsi={},{e:?})",
          cc.sequence_number,
          cc.write_options.related_sample_identity().is_some()
        ));
      }
      5 => {
        let (base, set) = gen_sn_set(c);
        let weid = gen_entity_id(c);
        let rg = GUID::new(gen_prefix(c), gen_entity_id(c));
        if set.is_empty() {
          // gap_msg refuses an empty set (logs an error, adds nothing)
          continue;
        }
        let sset: BTreeSet<SequenceNumber> = set.iter().map(|s| SequenceNumber::from(*s)).collect();
        mb = mb.gap_msg(&sset, weid, e, rg);
        // reference: contiguous run from the first member, then bitmap of the rest (window 256)
        let start = *set.iter().next().unwrap();
        let mut end = start + 1;
        while set.contains(&end) {
          end += 1;
        }
        let rest: BTreeSet<i64> = set.iter().copied().filter(|s| *s >= end && *s < end + 256).collect();
        let num_bits = rest.iter().next_back().map(|m| (m - end + 1) as u32).unwrap_or(0);
        b.expect.push(Decoded::Gap {
          reader_id: eid_bytes(rg.entity_id),
          writer_id: eid_bytes(weid),
          gap_start: start,
          list: wire::NumSet {
            base: end,
            num_bits,
            words: wire::bitmap_words(end, num_bits, &rest),
          },
        });
        b.nontrivial = true;
        b.labels.push("gap");
        let _ = base;
        b.desc.push(format!(
          "GAP(start={start},run_end={end},rest={} members,{e:?})",
          rest.len()
        ));
      }
      6 => {
        let before = gen_sn(c);
        let weid = gen_entity_id(c);
        let rg = GUID::new(gen_prefix(c), gen_entity_id(c));
        mb = mb.gap_msg_before(SequenceNumber::from(before), weid, e, rg);
        b.expect.push(Decoded::Gap {
          reader_id: eid_bytes(rg.entity_id),
          writer_id: eid_bytes(weid),
          gap_start: 1,
          list: wire::NumSet {
            base: before,
            num_bits: 0,
            words: vec![],
          },
        });
        b.labels.push("gap-before");
        b.desc.push(format!("GAP_BEFORE({before},{e:?})"));
      }
      7 => {
        let weid = gen_entity_id(c);
        let reid = gen_entity_id(c);
        let first = gen_sn(c);
        let last = match c.pick(3) {
          0 => first - 1,
          1 => first,
          _ => first.saturating_add(c.int_in(0, 1000)),
        };
        let count = c.int_in(i64::from(i32::MIN), i64::from(i32::MAX)) as i32;
        let (f, l) = (c.bool(), c.bool());
        mb = mb.heartbeat_msg(
          weid,
          SequenceNumber::from(first),
          SequenceNumber::from(last),
          count,
          e,
          reid,
          f,
          l,
        );
        b.expect.push(Decoded::Heartbeat {
          reader_id: eid_bytes(reid),
          writer_id: eid_bytes(weid),
          first,
          last,
          count,
          final_flag: f,
          liveliness: l,
        });
        b.labels.push("heartbeat");
        b.desc.push(format!("HEARTBEAT({first},{last},count={count},final={f},live={l},{e:?})"));
      }
      8 => {
        let (base, set) = gen_sn_set(c);
        let sset: BTreeSet<SequenceNumber> = set.iter().map(|s| SequenceNumber::from(*s)).collect();
        let reid = gen_entity_id(c);
        let weid = gen_entity_id(c);
        let count = c.int_in(0, i64::from(i32::MAX)) as i32;
        let fin = c.bool();
        let an = AckNack {
          reader_id: reid,
          writer_id: weid,
          reader_sn_state: SequenceNumberSet::from_base_and_set(SequenceNumber::from(base), &sset),
          count,
        };
        let mut flags = BitFlags::<ACKNACK_Flags>::from_endianness(e);
        if fin {
          flags |= ACKNACK_Flags::Final;
        }
        extra.push((count_pos(&mb, &extra), an.create_submessage(flags)));
        let window: BTreeSet<i64> = set.iter().copied().filter(|s| *s < base + 256).collect();
        let num_bits = window.iter().next_back().map(|m| (m - base + 1) as u32).unwrap_or(0);
        b.expect.push(Decoded::AckNack {
          reader_id: eid_bytes(reid),
          writer_id: eid_bytes(weid),
          set: wire::NumSet {
            base,
            num_bits,
            words: wire::bitmap_words(base, num_bits, &window),
          },
          count,
          final_flag: fin,
        });
        if !window.is_empty() {
          b.nontrivial = true;
        }
        b.labels.push("acknack");
        b.desc.push(format!("ACKNACK(base={base},{} members,count={count},final={fin},{e:?})", window.len()));
      }
      9 => {
        let fbase = c.int_in(1, 5000);
        let width = c.int_in(0, 300);
        let mut set = BTreeSet::new();
        for k in 0..width {
          if c.chance(100) {
            set.insert(fbase + k);
          }
        }
        let fset: BTreeSet<FragmentNumber> = set.iter().map(|s| FragmentNumber::new(*s as u32)).collect();
        let reid = gen_entity_id(c);
        let weid = gen_entity_id(c);
        let sn = gen_sn(c);
        let count = c.int_in(0, i64::from(i32::MAX)) as i32;
        let nf = NackFrag {
          reader_id: reid,
          writer_id: weid,
          writer_sn: SequenceNumber::from(sn),
          fragment_number_state: FragmentNumberSet::from_base_and_set(
            FragmentNumber::new(fbase as u32),
            &fset,
          ),
          count,
        };
        let flags = BitFlags::<NACKFRAG_Flags>::from_endianness(e);
        extra.push((count_pos(&mb, &extra), nf.create_submessage(flags)));
        let window: BTreeSet<i64> = set.iter().copied().filter(|s| *s < fbase + 256).collect();
        let num_bits = window.iter().next_back().map(|m| (m - fbase + 1) as u32).unwrap_or(0);
        b.expect.push(Decoded::NackFrag {
          reader_id: eid_bytes(reid),
          writer_id: eid_bytes(weid),
          sn,
          set: wire::NumSet {
            base: fbase,
            num_bits,
            words: wire::bitmap_words(fbase, num_bits, &window),
          },
          count,
        });
        if !window.is_empty() {
          b.nontrivial = true;
        }
        b.labels.push("nackfrag");
        b.desc.push(format!("NACKFRAG(sn={sn},base={fbase},{} members,{e:?})", window.len()));
      }
      10 => {
        // INFO_SRC: no constructor without the security feature; literal with harness-computed header
        let is = InfoSource {
          unused: 0,
          protocol_version: ProtocolVersion {
            major: c.pick(3) as u8,
            minor: c.byte(),
          },
          vendor_id: VendorId {
            vendor_id: [c.byte(), c.byte()],
          },
          guid_prefix: gen_prefix(c),
        };
        let flags = BitFlags::<INFOSOURCE_Flags>::from_endianness(e);
        let sm = Submessage {
          header: SubmessageHeader {
            kind: SubmessageKind::INFO_SRC,
            flags: flags.bits(),
            content_length: 20,
          },
          body: SubmessageBody::Interpreter(InterpreterSubmessage::InfoSource(is, flags)),
          original_bytes: None,
        };
        extra.push((count_pos(&mb, &extra), sm));
        b.expect.push(Decoded::InfoSrc {
          version: (is.protocol_version.major, is.protocol_version.minor),
          vendor: is.vendor_id.vendor_id,
          prefix: is.guid_prefix.bytes,
        });
        b.labels.push("info_src");
        b.desc.push(format!("INFO_SRC({is:?},{e:?})"));
      }
      _ => {
        let hf = HeartbeatFrag {
          reader_id: gen_entity_id(c),
          writer_id: gen_entity_id(c),
          writer_sn: SequenceNumber::from(gen_sn(c)),
          last_fragment_num: FragmentNumber::new(c.u32()),
          count: c.int_in(0, i64::from(i32::MAX)) as i32,
        };
        let flags = BitFlags::<HEARTBEATFRAG_Flags>::from_endianness(e);
        b.expect.push(Decoded::HeartbeatFrag {
          reader_id: eid_bytes(hf.reader_id),
          writer_id: eid_bytes(hf.writer_id),
          sn: i64::from(hf.writer_sn),
          last_frag: u32::from(hf.last_fragment_num),
          count: hf.count,
        });
        let sm = Submessage {
          header: SubmessageHeader {
            kind: SubmessageKind::HEARTBEAT_FRAG,
            flags: flags.bits(),
            content_length: 24,
          },
          body: SubmessageBody::Writer(WriterSubmessage::HeartbeatFrag(hf, flags)),
          original_bytes: None,
        };
        extra.push((count_pos(&mb, &extra), sm));
        b.labels.push("heartbeat_frag");
        b.desc.push(format!("HEARTBEAT_FRAG({e:?})"));
      }
    }
    let _ = (i, le);
    count += 1;
  }
  let _ = count;
  // header
  let prefix = gen_prefix(c);
  let mut m = mb.add_header_and_build(prefix);
  if c.chance(64) {
    m.header = Header {
      protocol_id: ProtocolId::PROTOCOL_RTPS,
      protocol_version: ProtocolVersion {
        major: c.usize_in(0, 2) as u8,
        minor: c.byte(),
      },
      vendor_id: VendorId {
        vendor_id: [c.byte(), c.byte()],
      },
      guid_prefix: prefix,
    };
    b.labels.push("foreign-header");
  }
  // splice literal submessages into their positions
  for (pos, sm) in extra {
    let p = pos.min(m.submessages.len());
    m.submessages.insert(p, sm);
  }
  if m.submessages.len() >= 2 {
    b.nontrivial = true;
  }
  (m, b)
}

/// position at which a literal submessage must be inserted = number of
/// submessages generated so far
fn count_pos(mb: &MessageBuilder, extra: &[(usize, Submessage)]) -> usize {
  mb.clone().add_header_and_build(GuidPrefix::UNKNOWN).submessages.len() + extra.len()
}

fn strip(m: &Message) -> Message {
  let mut m = m.clone();
  for s in &mut m.submessages {
    s.original_bytes = None;
  }
  m
}

/// Compare constructed and parsed submessage bodies up to RTPS zero padding.
fn bodies_equal_mod_padding(a: &Submessage, b: &Submessage) -> Result<(), String> {
  if a.header != b.header {
    return Err(format!("submessage header differs: {:?} vs {:?}", a.header, b.header));
  }
  match (&a.body, &b.body) {
    (
      SubmessageBody::Writer(WriterSubmessage::Data(d1, f1)),
      SubmessageBody::Writer(WriterSubmessage::Data(d2, f2)),
    ) => {
      if f1 != f2 {
        return Err(format!("DATA flags differ {f1:?} vs {f2:?}"));
      }
      let mut d1 = d1.clone();
      let mut d2 = d2.clone();
      // payload up to zero padding
      let norm = |p: &Option<Bytes>| p.as_ref().map(|b| pad4(b.to_vec()));
      if norm(&d1.serialized_payload) != norm(&d2.serialized_payload) {
        return Err(format!(
          "DATA payload differs: {:?} vs {:?}",
          d1.serialized_payload.as_ref().map(|b| hex(&b[..b.len().min(48)])),
          d2.serialized_payload.as_ref().map(|b| hex(&b[..b.len().min(48)]))
        ));
      }
      // a payload present must stay present
      if d1.serialized_payload.is_some() != d2.serialized_payload.is_some() {
        return Err("DATA payload presence differs".into());
      }
      d1.serialized_payload = None;
      d2.serialized_payload = None;
      for d in [&mut d1, &mut d2] {
        if let Some(q) = d.inline_qos.as_mut() {
          for p in &mut q.parameters {
            p.value = pad4(std::mem::take(&mut p.value));
          }
        }
      }
      if d1 != d2 {
        return Err(format!("DATA differs: {d1:?} vs {d2:?}"));
      }
      Ok(())
    }
    (
      SubmessageBody::Writer(WriterSubmessage::DataFrag(d1, f1)),
      SubmessageBody::Writer(WriterSubmessage::DataFrag(d2, f2)),
    ) => {
      if f1 != f2 {
        return Err(format!("DATAFRAG flags differ {f1:?} vs {f2:?}"));
      }
      let mut d1 = d1.clone();
      let mut d2 = d2.clone();
      for d in [&mut d1, &mut d2] {
        if let Some(q) = d.inline_qos.as_mut() {
          for p in &mut q.parameters {
            p.value = pad4(std::mem::take(&mut p.value));
          }
        }
      }
      if d1 != d2 {
        return Err(format!("DATAFRAG differs: {d1:?} vs {d2:?}"));
      }
      Ok(())
    }
    (x, y) => {
      if x != y {
        Err(format!("submessage body differs: {x:?} vs {y:?}"))
      } else {
        Ok(())
      }
    }
  }
}

fn kind_key(s: &Submessage) -> &'static str {
  match &s.body {
    SubmessageBody::Writer(WriterSubmessage::Data(..)) => "DATA",
    SubmessageBody::Writer(WriterSubmessage::DataFrag(..)) => "DATAFRAG",
    SubmessageBody::Writer(WriterSubmessage::Gap(..)) => "GAP",
    SubmessageBody::Writer(WriterSubmessage::Heartbeat(..)) => "HEARTBEAT",
    SubmessageBody::Writer(WriterSubmessage::HeartbeatFrag(..)) => "HEARTBEATFRAG",
    SubmessageBody::Reader(ReaderSubmessage::AckNack(..)) => "ACKNACK",
    SubmessageBody::Reader(ReaderSubmessage::NackFrag(..)) => "NACKFRAG",
    SubmessageBody::Interpreter(InterpreterSubmessage::InfoSource(..)) => "INFO_SRC",
    SubmessageBody::Interpreter(InterpreterSubmessage::InfoDestination(..)) => "INFO_DST",
    SubmessageBody::Interpreter(InterpreterSubmessage::InfoReply(..)) => "INFO_REPLY",
    SubmessageBody::Interpreter(InterpreterSubmessage::InfoTimestamp(..)) => "INFO_TS",
    #[cfg(feature = "security")]
    SubmessageBody::Security(..) => "SEC",
  }
}

fn decoded_kind(d: &Decoded) -> &'static str {
  match d {
    Decoded::Data { .. } => "DATA",
    Decoded::DataFrag { .. } => "DATAFRAG",
    Decoded::Gap { .. } => "GAP",
    Decoded::Heartbeat { .. } => "HEARTBEAT",
    Decoded::HeartbeatFrag { .. } => "HEARTBEATFRAG",
    Decoded::AckNack { .. } => "ACKNACK",
    Decoded::NackFrag { .. } => "NACKFRAG",
    Decoded::InfoTs(_) => "INFO_TS",
    Decoded::InfoDst(_) => "INFO_DST",
    Decoded::InfoSrc { .. } => "INFO_SRC",
    Decoded::Other(_) => "OTHER",
  }
}

fn scenario_roundtrip(c: &mut Choices, o: &mut Outcome) {
  let (m, built) = build(c);
  for l in &built.labels {
    o.label(l);
  }
  o.nontrivial = built.nontrivial;
  let e = gen_endianness(c);
  let bytes = match m.write_to_vec_with_ctx(e) {
    Ok(b) => b,
    Err(err) => {
      o.sample = format!("{:?}", built.desc);
      o.violate("c14.serialize-error", "write", format!("write_to_vec_with_ctx failed: {err:?}"));
      return;
    }
  };
  o.sample = format!(
    "hdr={:?}/{:?} [{}] -> {} bytes",
    m.header.protocol_version,
    m.header.vendor_id,
    built.desc.join("; "),
    bytes.len()
  );
  o.digest = fnv(&bytes);

  // (1) framing, as another implementation would skip through the message
  let walked = match wire::walk(&bytes) {
    Ok(w) => w,
    Err(err) => {
      o.violate("c14.framing", "walk", format!("independent framing walk failed: {err}; bytes={}", hex(&bytes[..bytes.len().min(200)])));
      return;
    }
  };
  if walked.1.len() != m.submessages.len() {
    o.violate(
      "c14.framing",
      "count",
      format!("walker found {} submessages, message has {}", walked.1.len(), m.submessages.len()),
    );
    return;
  }
  for (i, (raw, sm)) in walked.1.iter().zip(m.submessages.iter()).enumerate() {
    if raw.kind != u8::from(sm.header.kind) {
      o.violate(
        "c14.framing",
        kind_key(sm),
        format!("walker lands on kind 0x{:02x} at submessage {i}, expected {:?}", raw.kind, sm.header.kind),
      );
      return;
    }
    let is_last = i + 1 == walked.1.len();
    if raw.body.len() % 4 != 0 && !(is_last && raw.kind == wire::DATA_FRAG) {
      o.violate(
        "c14.framing-alignment",
        kind_key(sm),
        format!("submessage {i} kind 0x{:02x} has length {} (not a multiple of 4)", raw.kind, raw.body.len()),
      );
      return;
    }
    if raw.len_field as usize != raw.body.len() {
      o.violate(
        "c14.framing",
        kind_key(sm),
        format!("octetsToNextHeader {} != actual {}", raw.len_field, raw.body.len()),
      );
      return;
    }
  }
  if walked.0.prefix != m.header.guid_prefix.bytes
    || walked.0.version != (m.header.protocol_version.major, m.header.protocol_version.minor)
    || walked.0.vendor != m.header.vendor_id.vendor_id
  {
    o.violate("c14.header", "header", format!("header bytes differ: {:?}", walked.0));
    return;
  }

  // (2) independent decode equals the constructor arguments
  for (i, (raw, exp)) in walked.1.iter().zip(built.expect.iter()).enumerate() {
    match wire::decode(raw, true) {
      Ok(got) => {
        if got.canon() != exp.canon() {
          o.violate(
            "c14.independent-decode",
            decoded_kind(exp),
            format!("submessage {i}: independent decode {got:?} != constructed {exp:?}"),
          );
          return;
        }
      }
      Err(err) => {
        o.violate(
          "c14.independent-decode",
          decoded_kind(exp),
          format!("submessage {i}: independent decode failed: {err}; body={}", hex(&raw.body[..raw.body.len().min(120)])),
        );
        return;
      }
    }
  }

  // (3) the implementation parses its own output to an equal message
  let valid_header = m.header.protocol_version.major <= 2;
  let parsed = Message::read_from_buffer(&Bytes::from(bytes.clone()));
  let parsed = match parsed {
    Ok(p) => {
      if !valid_header {
        o.violate("c14.header", "accepts-major>2", "message with major version > 2 accepted".into());
        return;
      }
      p
    }
    Err(err) => {
      if valid_header {
        let key = m.submessages.iter().map(kind_key).collect::<Vec<_>>().join("+");
        let _ = key;
        o.violate(
          "c14.parse-own-output",
          built.expect.last().map(decoded_kind).unwrap_or("empty"),
          format!("Message::read_from_buffer failed on own output: {err}"),
        );
      }
      return;
    }
  };
  if parsed.header != m.header {
    o.violate("c14.header", "roundtrip", format!("{:?} vs {:?}", parsed.header, m.header));
    return;
  }
  if parsed.submessages.len() != m.submessages.len() {
    o.violate(
      "c14.roundtrip",
      "count",
      format!("parsed {} submessages, constructed {}", parsed.submessages.len(), m.submessages.len()),
    );
    return;
  }
  for (a, b2) in m.submessages.iter().zip(parsed.submessages.iter()) {
    let mut b3 = b2.clone();
    b3.original_bytes = None;
    if let Err(msg) = bodies_equal_mod_padding(a, &b3) {
      o.violate("c14.roundtrip", kind_key(a), msg);
      return;
    }
  }

  // (4) canonical idempotence
  match strip(&parsed).write_to_vec_with_ctx(e) {
    Ok(b2) => {
      if b2 != bytes {
        let pos = b2.iter().zip(bytes.iter()).position(|(x, y)| x != y).unwrap_or(b2.len().min(bytes.len()));
        o.violate(
          "c14.idempotence",
          "rewrite",
          format!("write(parse(write(m))) differs from write(m) at byte {pos} (len {} vs {})", b2.len(), bytes.len()),
        );
      }
    }
    Err(err) => o.violate("c14.idempotence", "rewrite-error", format!("{err:?}")),
  }
}

fn scenario_numsets(c: &mut Choices, o: &mut Outcome) {
  let (base, set) = gen_sn_set(c);
  let frag = c.bool();
  let e = gen_endianness(c);
  o.sample = format!("{} base={base} members={:?}", if frag { "FragmentNumberSet" } else { "SequenceNumberSet" }, set.iter().take(40).collect::<Vec<_>>());
  o.digest = fnv(o.sample.as_bytes());
  o.nontrivial = !set.is_empty();
  let wide = set.iter().next_back().map_or(false, |m| m - base >= 256);
  o.label(if wide { "wider-than-256" } else if set.is_empty() { "empty" } else { "within-window" });
  let reference: BTreeSet<i64> = set.iter().copied().filter(|s| *s >= base && *s < base + 256).collect();
  if frag {
    let base = (base % 1_000_000).max(1);
    let set: BTreeSet<i64> = set.iter().map(|s| (s % 1_000_000).max(1)).collect();
    let lo = *set.iter().next().unwrap_or(&base);
    let base = base.min(lo);
    let reference: BTreeSet<i64> = set.iter().copied().filter(|s| *s >= base && *s < base + 256).collect();
    let fset: BTreeSet<FragmentNumber> = set.iter().map(|s| FragmentNumber::new(*s as u32)).collect();
    let ns = FragmentNumberSet::from_base_and_set(FragmentNumber::new(base as u32), &fset);
    let got: BTreeSet<i64> = ns.iter().map(|f| i64::from(u32::from(f))).collect();
    check_set("fragment", base, &reference, &got, o);
    let bytes = ns.write_to_vec_with_ctx(e).unwrap();
    if bytes.len() != ns.len_serialized() {
      o.violate("c14.numset-len", "fragment", format!("len_serialized {} != written {}", ns.len_serialized(), bytes.len()));
    }
    let mut d = wire::Dec::new(e == Endianness::LittleEndian, &bytes);
    let wb = i64::from(d.u32().unwrap());
    let nb = d.u32().unwrap();
    let mut words = vec![];
    for _ in 0..(nb + 31) / 32 {
      match d.u32() {
        Ok(w) => words.push(w),
        Err(_) => {
          o.violate("c14.numset-wire", "fragment", "bitmap shorter than numBits says".into());
          return;
        }
      }
    }
    let on_wire = wire::NumSet { base: wb, num_bits: nb, words }.members();
    if nb > 256 || on_wire != reference || d.remaining() != 0 || (wb != base) {
      o.violate("c14.numset-wire", "fragment", format!("wire set base={wb} numBits={nb} members={on_wire:?} != reference base={base} {reference:?}"));
    }
    use speedy::Readable;
    match FragmentNumberSet::read_from_buffer_with_ctx(e, &bytes) {
      Ok(back) => {
        let got2: BTreeSet<i64> = back.iter().map(|f| i64::from(u32::from(f))).collect();
        if got2 != reference || back != ns {
          o.violate("c14.numset-roundtrip", "fragment", format!("parsed back {got2:?} != {reference:?}"));
        }
        // reverse iteration yields the same members
        let rev: BTreeSet<i64> = back.iter().rev().map(|f| i64::from(u32::from(f))).collect();
        if rev != reference {
          o.violate("c14.numset-iter", "fragment-rev", format!("reverse iteration {rev:?} != {reference:?}"));
        }
      }
      Err(err) => o.violate("c14.numset-roundtrip", "fragment", format!("{err:?}")),
    }
    return;
  }
  let sset: BTreeSet<SequenceNumber> = set.iter().map(|s| SequenceNumber::from(*s)).collect();
  let ns = SequenceNumberSet::from_base_and_set(SequenceNumber::from(base), &sset);
  let got: BTreeSet<i64> = ns.iter().map(i64::from).collect();
  check_set("sequence", base, &reference, &got, o);
  if i64::from(ns.base()) != base {
    o.violate("c14.numset-base", "sequence", format!("base {:?} != {base}", ns.base()));
  }
  let bytes = ns.write_to_vec_with_ctx(e).unwrap();
  if bytes.len() != ns.len_serialized() {
    o.violate("c14.numset-len", "sequence", format!("len_serialized {} != written {}", ns.len_serialized(), bytes.len()));
  }
  let mut d = wire::Dec::new(e == Endianness::LittleEndian, &bytes);
  let wb = d.sn().unwrap();
  let nb = d.u32().unwrap();
  let mut words = vec![];
  for _ in 0..(nb + 31) / 32 {
    match d.u32() {
      Ok(w) => words.push(w),
      Err(_) => {
        o.violate("c14.numset-wire", "sequence", "bitmap shorter than numBits says".into());
        return;
      }
    }
  }
  let on_wire = wire::NumSet { base: wb, num_bits: nb, words }.members();
  if nb > 256 || on_wire != reference || d.remaining() != 0 || wb != base {
    o.violate("c14.numset-wire", "sequence", format!("wire set base={wb} numBits={nb} members={on_wire:?} != reference base={base} {reference:?}"));
  }
  use speedy::Readable;
  match SequenceNumberSet::read_from_buffer_with_ctx(e, &bytes) {
    Ok(back) => {
      let got2: BTreeSet<i64> = back.iter().map(i64::from).collect();
      if got2 != reference || back != ns {
        o.violate("c14.numset-roundtrip", "sequence", format!("parsed back {got2:?} != {reference:?}"));
      }
      let rev: BTreeSet<i64> = back.iter().rev().map(i64::from).collect();
      if rev != reference {
        o.violate("c14.numset-iter", "sequence-rev", format!("reverse iteration {rev:?} != {reference:?}"));
      }
    }
    Err(err) => o.violate("c14.numset-roundtrip", "sequence", format!("{err:?}")),
  }
  // a foreign set with garbage in the unused low bits of the last word must not
  // report members outside numBits
  if nb > 0 && nb % 32 != 0 {
    let mut enc = wire::Enc::new(e == Endianness::LittleEndian);
    let mut words = wire::bitmap_words(base, nb, &reference);
    let lastw = words.len() - 1;
    words[lastw] |= (1u32 << (32 - nb % 32)) - 1;
    enc.sn_set_raw(base, nb, &words);
    if let Ok(back) = SequenceNumberSet::read_from_buffer_with_ctx(e, &enc.buf) {
      let got3: BTreeSet<i64> = back.iter().map(i64::from).collect();
      if got3 != reference {
        o.violate("c14.numset-iter", "outside-numbits", format!("set with garbage padding bits iterates {got3:?}, reference {reference:?}"));
      }
    }
  }
}

fn check_set(kind: &str, base: i64, reference: &BTreeSet<i64>, got: &BTreeSet<i64>, o: &mut Outcome) {
  if let Some(m) = got.iter().find(|m| **m < base || **m >= base + 256) {
    o.violate("c14.numset-member-outside-window", kind, format!("member {m} outside [{base},{})", base + 256));
    return;
  }
  if got != reference {
    let missing: Vec<_> = reference.difference(got).take(5).collect();
    let extra: Vec<_> = got.difference(reference).take(5).collect();
    o.violate("c14.numset-membership", kind, format!("base={base}: missing {missing:?}, invented {extra:?}"));
  }
}

fn scenario_rawbytes(c: &mut Choices, o: &mut Outcome) {
  // a structured-then-mutated byte string: start from a constructed message and
  // apply a few byte edits, or take raw bytes after an RTPS header
  let bytes: Vec<u8> = if c.bool() {
    let (m, _) = build(c);
    let mut b = m.write_to_vec_with_ctx(Endianness::LittleEndian).unwrap_or_default();
    let edits = c.pick(4);
    for _ in 0..edits {
      if b.len() > 20 {
        let i = 20 + c.pick(b.len() - 20);
        b[i] = c.byte();
      }
    }
    b
  } else {
    let mut b = wire::rtps_header((2, c.pick(5) as u8), [1, 0x12], &[7u8; 12]);
    let n = c.usize_in(0, 200);
    b.extend(c.bytes(n));
    b
  };
  o.sample = format!("bytes={}", hex(&bytes[..bytes.len().min(160)]));
  o.digest = fnv(&bytes);
  let Ok(m1) = Message::read_from_buffer(&Bytes::from(bytes.clone())) else {
    o.label("unparsable");
    return;
  };
  o.label("parsed");
  o.nontrivial = !m1.submessages.is_empty();
  // Canonical form: the implementation's own serialisation of what it parsed.
  // Only what the implementation itself can construct is in the statement's
  // domain, so the check is on the canonical re-serialisation: it must parse
  // back to an equal message, and be a fixpoint.
  let m1s = strip(&m1);
  let Ok(b2) = m1s.write_to_vec_with_ctx(Endianness::LittleEndian) else {
    return;
  };
  // Skip messages whose parsed form cannot be produced by any constructor:
  // header lengths inconsistent with content (foreign octetsToInlineQos, extra
  // trailing bytes, non-canonical padding bits). We detect that by comparing
  // lengths per submessage: if the canonical body length differs from the
  // header's content_length the value is not canonical.
  // (Each submessage is serialised on its own for this: walking the whole byte string can
  // be fooled - a body shorter than its header says swallows the next submessage, and the
  // leftovers may happen to look like the right number of submessages. Seen once in 15 M cases.)
  let mut canonical = true;
  for (i, sm) in m1s.submessages.iter().enumerate() {
    match sm.write_to_vec_with_ctx(Endianness::LittleEndian) {
      Ok(one) => {
        let body_len = one.len().saturating_sub(4);
        let len_field = usize::from(sm.header.content_length);
        let last = i + 1 == m1s.submessages.len();
        if !(len_field == body_len || (last && len_field == 0)) {
          canonical = false;
        }
      }
      Err(_) => canonical = false,
    }
  }
  let walked_ok = wire::walk(&b2).map_or(false, |(_, raw)| raw.len() == m1s.submessages.len() && raw.iter().all(|r| r.len_field as usize == r.body.len()));
  if !canonical || !walked_ok {
    o.label("noncanonical");
    return;
  }
  match Message::read_from_buffer(&Bytes::from(b2.clone())) {
    Ok(m2) => {
      let m2s = strip(&m2);
      if m2s.header != m1s.header || m2s.submessages.len() != m1s.submessages.len() {
        if std::env::var_os("VERIF_C14_DEBUG").is_some() {
          eprintln!("C14DEBUG b2={}\nm1={:?}\nm2={:?}", hex(&b2), m1s.submessages.iter().map(|s| format!("{:?}", s.body)).collect::<Vec<_>>(), m2s.submessages.iter().map(|s| format!("{:?}", s.body)).collect::<Vec<_>>());
        }
        o.violate("c14.raw-reparse", "shape", format!("re-parse changed shape: {} vs {} submessages", m2s.submessages.len(), m1s.submessages.len()));
        return;
      }
      for (a, b) in m1s.submessages.iter().zip(m2s.submessages.iter()) {
        if let Err(msg) = bodies_equal_mod_padding(a, b) {
          o.violate("c14.raw-reparse", kind_key(a), msg);
          return;
        }
      }
      if let Ok(b3) = m2s.write_to_vec_with_ctx(Endianness::LittleEndian) {
        if b3 != b2 {
          o.violate("c14.raw-idempotence", "rewrite", "canonical form is not a fixpoint".into());
        }
      }
    }
    Err(err) => {
      o.violate(
        "c14.raw-reparse",
        m1s.submessages.last().map(kind_key).unwrap_or("empty"),
        format!("canonical re-serialisation does not parse: {err}"),
      );
    }
  }
}

pub fn run(scenario: u32, choices: &[u8], _strict: bool) -> Outcome {
  let mut c = Choices::new(choices);
  let mut o = Outcome::new();
  match scenario {
    0 => scenario_roundtrip(&mut c, &mut o),
    1 => scenario_numsets(&mut c, &mut o),
    2 => scenario_rawbytes(&mut c, &mut o),
    _ => o.verdict = Verdict::Discard("unknown scenario".into()),
  }
  o
}

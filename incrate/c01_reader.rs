//! C01 — reliable reader hands over each writer's samples in order, once,
//! without holes, unaltered. See rscript.rs for generator, model and clauses.

use super::{rscript, Outcome, Property, Scenario};

pub fn property() -> Property {
  Property {
    id: "C01",
    level: "exploration",
    rule: "histories of 4-60 steps decoded from a choice stream: datagrams carrying DATA / DATAFRAG / \
           HEARTBEAT / GAP submessages (either byte order, explicit or UNKNOWN reader id, 1-3 per \
           datagram) from 1-3 remote writers (matched or not) with sequence numbers drawn from a \
           small window (so loss, duplication and reordering of the same numbers are the norm; 1 case \
           in 6 uses numbers beyond 256), interleaved with take(1|2|all) through DataReader or \
           SimpleDataReader. Non-trivial = at least one sample handed over and the history contains \
           an out-of-order arrival, a duplicate, or a GAP/HEARTBEAT-declared hole below a received \
           sample. Distinct = distinct decoded histories.",
    assumptions: &[
      "a HEARTBEAT whose count is not above the last one accepted from that writer is a duplicate and is ignored (RTPS 2.5, 8.3.8.6.5 / 8.4.15.7); the generator also sends such heartbeats with other contents than the original, which no conforming writer does",
      "reader History KeepAll and roomy resource limits (the statement's proviso)",
      "receive timestamps are unique (virtual clock: strictly increasing Timestamp::now())",
      "the same (writer, sequence number) always carries the same payload and source timestamp, as RTPS requires",
    ],
    scenarios: &[Scenario {
      id: 0,
      name: "reader script vs bookkeeping model",
      quick: 20_000,
      thorough: 3_000_000,
      max_len: 700,
      max_threads: 0,
    }],
    run,
    exhaustive: None,
  }
}

pub fn run(_scenario: u32, choices: &[u8], strict: bool) -> Outcome {
  rscript::run(rscript::Focus::C01, choices, strict)
}

//! C05 — fragmented samples reassemble to exactly the original bytes, once.
//!
//! Scenario 0 (reader side): the reader script (rscript.rs, Focus::C05): DATAFRAG
//! sets of several samples from 1-3 writers in any permutation, with duplicates,
//! interleaving, withheld fragments and multi-fragment submessages.
//! Scenario 1 (writer side): the Writer's own fragmentation, differential
//! against an independent slicing of header||value.
//! Scenario 2 (end to end): writer -> datagrams (permuted, duplicated, one
//! withheld) -> reader.

use std::collections::{BTreeMap, BTreeSet};

use bytes::Bytes;

use super::{
  fnv,
  frontend::{self, Raw, RawAdapter},
  hex, hooks,
  rig::{self, eid_bytes, CaseGuard, Node},
  rscript,
  wire::{self, Decoded},
  Choices, ExhaustiveReport, Outcome, Property, Scenario, Verdict,
};
use crate::{
  dds::{
    ddsdata::DDSData,
    readcondition::ReadCondition,
    with_key::{datasample::Sample, datawriter::WriteOptionsBuilder},
  },
  messages::submessages::elements::serialized_payload::SerializedPayload,
  rtps::writer::WriterCommand,
  structure::{sequence_number::SequenceNumber, time::Timestamp},
  RepresentationIdentifier,
};

pub fn property() -> Property {
  Property {
    id: "C05",
    level: "exploration",
    rule: "scenario 0: reader script with fragmented samples (fragment sizes 8-64, total sizes k*f+r \
           for k=1..5 and r in {0,1,2,3,f-1,f-2,f/2}), fragments in any order with duplicates, \
           several samples and writers interleaved, incomplete sets, multi-fragment submessages \
           (clause prefix c05.multifrag). scenario 1: the Writer fragments a generated payload \
           (fragment size 8..1024, length around multiples of it) and every emitted DATAFRAG is \
           compared with an independent slicing. scenario 2: the Writer's DATAFRAGs are permuted / \
           duplicated / one withheld and fed to a Reader. Non-trivial = a sample of >= 2 fragments \
           completed with a non-identity order, a duplicate or interleaving (scenario 0/2), or >= 2 \
           fragments with a short last fragment or a header-straddling first one (scenario 1). \
           Distinct = distinct decoded cases.",
    assumptions: &[
      "one fragment size per writer, as RTPS requires and the RustDDS writer guarantees",
      "multi-fragment DATAFRAG submessages (legal RTPS, never sent by RustDDS) are reported under their own clause prefix",
    ],
    scenarios: &[
      Scenario {
        id: 0,
        name: "reader side: DATAFRAG permutations vs model",
        quick: 12_000,
        thorough: 2_000_000,
        max_len: 700,
        max_threads: 0,
      },
      Scenario {
        id: 1,
        name: "writer side: emitted DATAFRAGs vs independent slicing",
        quick: 3_000,
        thorough: 300_000,
        max_len: 64,
        max_threads: 0,
      },
      Scenario {
        id: 2,
        name: "end to end: writer fragments -> permuted -> reader",
        quick: 3_000,
        thorough: 300_000,
        max_len: 128,
        max_threads: 0,
      },
    ],
    run,
    exhaustive: Some(exhaustive),
  }
}

fn gen_size(c: &mut Choices, f: usize) -> usize {
  // total serialized size (4-byte header + value)
  let k = c.usize_in(0, 6);
  let r = [0usize, 1, 2, 3, f - 1, f - 2, f / 2, 4, 5][c.pick(9)];
  (k * f + r).max(5)
}

struct Emitted {
  frags: Vec<wire::DataFragSpec>,
  datas: Vec<wire::DataSpec>,
  heartbeats: usize,
  datagrams: Vec<Vec<u8>>,
}

/// Let a real Writer send one sample; returns what it emitted, decoded independently.
fn writer_emit(
  node: &mut Node,
  wi: usize,
  sn: i64,
  payload_with_header: &[u8],
  key: bool,
  ts: Option<u64>,
) -> Result<Emitted, String> {
  let sp = SerializedPayload {
    representation_identifier: RepresentationIdentifier {
      bytes: [payload_with_header[0], payload_with_header[1]],
    },
    representation_options: [payload_with_header[2], payload_with_header[3]],
    value: Bytes::copy_from_slice(&payload_with_header[4..]),
  };
  let ddsdata = if key {
    DDSData::new_disposed_by_key(crate::structure::cache_change::ChangeKind::NotAliveDisposed, sp)
  } else {
    DDSData::new(sp)
  };
  let mut wo = WriteOptionsBuilder::new();
  if let Some(t) = ts {
    wo = wo.source_timestamp(Timestamp::from_ticks(t));
  }
  node.writers[wi]
    .cmd_tx
    .try_send(WriterCommand::DDSData {
      ddsdata,
      write_options: wo.build(),
      sequence_number: SequenceNumber::from(sn),
    })
    .map_err(|e| format!("command queue: {e:?}"))?;
  node.writers[wi].writer.process_writer_command();
  let mut em = Emitted {
    frags: vec![],
    datas: vec![],
    heartbeats: 0,
    datagrams: vec![],
  };
  for (_loc, bytes) in hooks::capture_drain() {
    let (_h, subs) = wire::decode_datagram(&bytes, true).map_err(|e| format!("emitted datagram does not decode: {e}; {}", hex(&bytes[..bytes.len().min(120)])))?;
    for (_raw, d) in subs {
      match d {
        Decoded::DataFrag { reader_id, writer_id, sn, frag_start, frags_in_submessage, frag_size, sample_size, inline_qos, payload, key_flag } => {
          em.frags.push(wire::DataFragSpec { reader_id, writer_id, sn, frag_start, frags_in_submessage, frag_size, sample_size, inline_qos, payload, key_flag });
        }
        Decoded::Data { reader_id, writer_id, sn, inline_qos, payload, key_flag, .. } => {
          em.datas.push(wire::DataSpec { reader_id, writer_id, sn, inline_qos, payload, key_flag });
        }
        Decoded::Heartbeat { .. } => em.heartbeats += 1,
        _ => {}
      }
    }
    em.datagrams.push(bytes);
  }
  Ok(em)
}

fn payload_bytes(n: usize, salt: u8) -> Vec<u8> {
  let mut p = vec![0u8, 1, 0, 0];
  for i in 4..n {
    p.push((i as u8).wrapping_mul(37) ^ salt ^ ((i >> 8) as u8));
  }
  p.truncate(n.max(4));
  p
}

/// scenario 1 core, also used by the exhaustive sweep
fn check_writer_fragmentation(f: usize, n: usize, salt: u8, key: bool, o: &mut Outcome) {
  let _g = CaseGuard::new();
  let mut node = Node::new(0);
  let wi = node.add_writer(rig::user_writer_eid(1, true), "rig_topic", &rig::reliable_qos());
  node.writers[wi].writer.data_max_size_serialized = f;
  // one matched reader so that datagrams have somewhere to go
  let rguid = crate::structure::guid::GUID::new(rig::node_prefix(1), rig::user_reader_eid(1, true));
  node.writers[wi]
    .writer
    .update_reader_proxy(&rig::reader_proxy_for(rguid, rig::node_locator(1), &rig::reliable_qos()), &rig::reliable_qos());
  let _ = hooks::capture_drain();
  let payload = payload_bytes(n, salt);
  let em = match writer_emit(&mut node, wi, 1, &payload, key, None) {
    Ok(e) => e,
    Err(e) => {
      o.violate("c05.writer-emit", "emit", e);
      return;
    }
  };
  let n = payload.len();
  if n <= f {
    // not fragmented: one DATA with the whole payload
    o.label("unfragmented");
    if em.frags.len() != 0 || em.datas.len() != 1 {
      o.violate("c05.split-decision", "small", format!("payload of {n} bytes with fragment size {f}: {} DATAFRAG, {} DATA", em.frags.len(), em.datas.len()));
      return;
    }
    let mut want = payload.clone();
    while want.len() % 4 != 0 {
      want.push(0);
    }
    if em.datas[0].payload.as_deref() != Some(&want[..]) {
      o.violate("c05.data-bytes", "small", "unfragmented DATA payload differs".into());
    }
    return;
  }
  let total = (n + f - 1) / f;
  if total >= 2 {
    o.nontrivial = n % f != 0 || f < 8;
  }
  if n % f != 0 {
    o.label("short-last");
  }
  if f < 4 {
    o.label("header-straddle");
  }
  if em.datas.len() != 0 {
    o.violate("c05.split-decision", "large", format!("payload of {n} bytes > fragment size {f} was sent as DATA"));
    return;
  }
  if em.frags.len() != total {
    o.violate("c05.fragment-count", "count", format!("{n} bytes / fragment size {f}: expected {total} DATAFRAGs, got {}", em.frags.len()));
    return;
  }
  let mut concat = Vec::new();
  for (i, fr) in em.frags.iter().enumerate() {
    let from = i * f;
    let to = ((i + 1) * f).min(n);
    if fr.frag_start as usize != i + 1 || fr.frags_in_submessage != 1 {
      o.violate("c05.fragment-numbering", "num", format!("fragment {i}: starting number {} count {}", fr.frag_start, fr.frags_in_submessage));
      return;
    }
    if fr.frag_size as usize != f || fr.sample_size as usize != n {
      o.violate("c05.fragment-header", "sizes", format!("fragment {}: fragment_size {} data_size {} (expected {f}, {n})", i + 1, fr.frag_size, fr.sample_size));
      return;
    }
    if fr.payload != payload[from..to] {
      o.violate(
        "c05.fragment-bytes",
        if i == 0 { "first" } else if i + 1 == total { "last" } else { "middle" },
        format!("fragment {} of {total} carries {} bytes {}, expected bytes [{from},{to}) {}", i + 1, fr.payload.len(), hex(&fr.payload[..fr.payload.len().min(32)]), hex(&payload[from..to.min(from + 32)])),
      );
      return;
    }
    if fr.key_flag != key {
      o.violate("c05.fragment-header", "keyflag", format!("key flag {} expected {key}", fr.key_flag));
      return;
    }
    concat.extend_from_slice(&fr.payload);
  }
  if concat != payload {
    o.violate("c05.concat", "concat", "concatenation of fragments differs from the payload".into());
  }
}

fn scenario_writer(c: &mut Choices, o: &mut Outcome) {
  let f = match c.pick(6) {
    0 => 1024,
    1 => c.usize_in(8, 64),
    2 => c.usize_in(1, 8),
    3 => [16usize, 32, 100, 255, 256, 257, 1000][c.pick(7)],
    _ => c.usize_in(8, 1024),
  };
  let n = gen_size(c, f.max(3));
  let salt = c.byte();
  let key = c.chance(30);
  o.sample = format!("fragment_size={f} serialized_size={n} key={key} salt={salt}");
  o.digest = fnv(o.sample.as_bytes());
  check_writer_fragmentation(f, n, salt, key, o);
}

fn scenario_end_to_end(c: &mut Choices, o: &mut Outcome) {
  let _g = CaseGuard::new();
  let f = [8usize, 12, 16, 31, 32, 64, 128][c.pick(7)];
  let nsamples = 1 + c.pick(3);
  let withhold = c.chance(70);
  // writer node 1, reader node 0
  let mut wnode = Node::new(1);
  let mut rnode = Node::new(0);
  let wi = wnode.add_writer(rig::user_writer_eid(1, true), "rig_topic", &rig::reliable_qos());
  wnode.writers[wi].writer.data_max_size_serialized = f;
  let ri = rnode.add_reader(rig::user_reader_eid(1, true), "rig_topic", &rig::reliable_qos());
  let wguid = wnode.writers[wi].guid;
  let rguid = rnode.readers[ri].guid;
  wnode.writers[wi]
    .writer
    .update_reader_proxy(&rig::reader_proxy_for(rguid, rnode.locator, &rig::reliable_qos()), &rig::reliable_qos());
  rnode
    .reader_mut(ri)
    .update_writer_proxy(rig::writer_proxy_for(wguid, wnode.locator), &rig::reliable_qos());
  let mut dr = frontend::data_reader::<Raw, RawAdapter>(&mut rnode.readers[ri]);
  let _ = hooks::capture_drain();
  let mut payloads: BTreeMap<i64, Vec<u8>> = BTreeMap::new();
  let mut datagrams: Vec<(i64, Vec<u8>)> = Vec::new();
  for s in 0..nsamples {
    let sn = s as i64 + 1;
    let n = gen_size(c, f).max(f + 1);
    let p = payload_bytes(n, c.byte());
    match writer_emit(&mut wnode, wi, sn, &p, false, Some((3_000_000u64 << 32) + sn as u64)) {
      Ok(em) => {
        for d in em.datagrams {
          datagrams.push((sn, d));
        }
      }
      Err(e) => {
        o.violate("c05.writer-emit", "emit", e);
        return;
      }
    }
    payloads.insert(sn, p);
  }
  // delivery plan: permutation with duplicates; optionally withhold one
  // fragment-carrying datagram of one sample
  let frag_idx: Vec<usize> = datagrams
    .iter()
    .enumerate()
    .filter(|(_, (_, d))| wire::walk(d).map_or(false, |(_, s)| s.iter().any(|x| x.kind == wire::DATA_FRAG)))
    .map(|(i, _)| i)
    .collect();
  let withheld: Option<usize> = if withhold && !frag_idx.is_empty() {
    Some(frag_idx[c.pick(frag_idx.len())])
  } else {
    None
  };
  let perm = c.permutation(datagrams.len());
  let mut order: Vec<usize> = Vec::new();
  for i in perm {
    if Some(i) == withheld {
      continue;
    }
    order.push(i);
    if c.chance(40) {
      order.push(i); // duplicate
    }
  }
  let identity = order.windows(2).all(|w| w[0] < w[1]);
  o.sample = format!(
    "fragment_size={f} samples={:?} datagrams={} order={order:?} withheld={withheld:?}",
    payloads.iter().map(|(s, p)| (*s, p.len())).collect::<Vec<_>>(),
    datagrams.len()
  );
  o.digest = fnv(o.sample.as_bytes());
  let incomplete_sn = withheld.map(|i| datagrams[i].0);
  let mut got: BTreeMap<i64, Raw> = BTreeMap::new();
  for i in order {
    rnode.inject(&datagrams[i].1);
    let _ = hooks::capture_drain();
    match dr.take(usize::MAX, ReadCondition::any()) {
      Ok(v) => {
        for ds in v {
          let sn = i64::from(ds.sample_info().sample_identity().sequence_number);
          let ts = ds.sample_info().source_timestamp().map(|t| t.to_ticks());
          if ts != Some((3_000_000u64 << 32) + sn as u64) {
            o.violate("c05.e2e-timestamp", "ts", format!("sn {sn} source timestamp {ts:?}"));
            return;
          }
          match ds.into_value() {
            Sample::Value(r) => {
              if got.insert(sn, r).is_some() {
                o.violate("c05.e2e-delivered-twice", "dup", format!("sample {sn} delivered twice"));
                return;
              }
            }
            Sample::Dispose(_) => {
              o.violate("c05.e2e-content", "kind", format!("sample {sn} delivered as dispose"));
              return;
            }
          }
        }
      }
      Err(e) => {
        o.violate("c05.e2e-take-error", "take", format!("{e:?}"));
        return;
      }
    }
  }
  frontend::drain_discovery_commands();
  // reliable reader: samples are handed over in order; everything before the
  // incomplete one must have arrived byte-exact, the incomplete one never
  for (sn, p) in &payloads {
    let must_have = incomplete_sn.map_or(true, |inc| *sn < inc);
    match got.get(sn) {
      Some(r) => {
        if Some(*sn) == incomplete_sn {
          o.violate("c05.e2e-incomplete-delivered", "incomplete", format!("sample {sn} delivered although one of its fragments never arrived"));
          return;
        }
        if r.bytes != p[4..] {
          let pos = r.bytes.iter().zip(p[4..].iter()).position(|(a, b)| a != b).unwrap_or(r.bytes.len().min(p.len() - 4));
          o.violate(
            "c05.e2e-content",
            "bytes",
            format!("sample {sn}: reassembled {} bytes, written {}; first difference at value offset {pos}", r.bytes.len(), p.len() - 4),
          );
          return;
        }
      }
      None => {
        if must_have {
          o.violate("c05.e2e-lost", "lost", format!("sample {sn} ({} bytes) was completely delivered but never handed over", p.len()));
          return;
        }
      }
    }
  }
  o.nontrivial = !identity || withheld.is_some();
  if !identity {
    o.label("permuted-or-duplicated");
  }
  if withheld.is_some() {
    o.label("incomplete");
  }
  if nsamples > 1 {
    o.label("several-samples");
  }
}

pub fn run(scenario: u32, choices: &[u8], strict: bool) -> Outcome {
  let mut c = Choices::new(choices);
  let mut o = Outcome::new();
  match scenario {
    0 => return rscript::run(rscript::Focus::C05, choices, strict),
    1 => scenario_writer(&mut c, &mut o),
    2 => scenario_end_to_end(&mut c, &mut o),
    9999 => {
      let idx = c.u64();
      let (f, n) = ((idx >> 32) as usize, (idx & 0xffff_ffff) as usize);
      o.sample = format!("fragment_size={f} serialized_size={n} (exhaustive sweep)");
      check_writer_fragmentation(f, n, 0x5a, false, &mut o);
    }
    _ => o.verdict = Verdict::Discard("unknown scenario".into()),
  }
  o
}

/// all (n, f) with f in 8..=40 (quick: 8..=16) and n in 5..=4f+4
pub fn exhaustive(thorough: bool) -> ExhaustiveReport {
  let mut rep = ExhaustiveReport {
    name: "writer fragmentation for every (size, fragment size): f in 8..=40 (quick: 8..=14), size in 5..=4f+4",
    cases: 0,
    nontrivial: 0,
    complete: true,
    violation: None,
    samples: Vec::new(),
  };
  let fmax = if thorough { 40 } else { 14 };
  for f in 8..=fmax {
    for n in 5..=(4 * f + 4) {
      let mut o = Outcome::new();
      check_writer_fragmentation(f, n, 0x5a, false, &mut o);
      rep.cases += 1;
      if o.nontrivial {
        rep.nontrivial += 1;
      }
      if rep.samples.len() < 3 && n == 3 * f + 1 {
        rep.samples.push(format!("fragment_size={f} serialized_size={n}"));
      }
      if o.is_violation() && rep.violation.is_none() {
        o.sample = format!("fragment_size={f} serialized_size={n} (exhaustive sweep)");
        let idx = ((f as u64) << 32) | n as u64;
        rep.violation = Some((idx.to_be_bytes().to_vec(), 9999, o));
      }
    }
  }
  rep
}

//! C09 — a bad or unintelligible change never wedges a reader.
//!
//! Scenario 0: a queue of 1-12 changes (each good or one of the unintelligible
//! kinds) is placed in the topic cache of a rig reader; one of the read/take
//! forms of the public API drains it. Every call must return within a tick
//! budget; good changes arrive exactly once, in order, unaltered; a bad change
//! yields one Err or nothing; the reader never says "empty" while deliverable
//! changes remain.
//! Scenario 1: end to end - the changes arrive as DATA submessages through the
//! real RTPS Reader (reliable), including DATA that cannot even become a change.

use std::{
  collections::BTreeMap,
  pin::Pin,
  sync::{
    atomic::{AtomicUsize, Ordering},
    Arc,
  },
  task::{Context, Poll, Wake, Waker},
};

use byteorder::LittleEndian;
use bytes::Bytes;
use futures::stream::Stream;
use serde::{Deserialize, Serialize};

use super::{
  fnv, frontend, hex, hooks,
  rig::{self, eid_bytes, CaseGuard, Node},
  wire, Choices, Outcome, Property, Scenario, Verdict,
};
use crate::{
  dds::{
    adapters::no_key::SerializerAdapter as _,
    ddsdata::DDSData,
    key::Key,
    no_key,
    qos::{policy, QosPolicies, QosPolicyBuilder},
    readcondition::ReadCondition,
    with_key::{self, datasample::Sample, datawriter::WriteOptions},
  },
  messages::submessages::elements::serialized_payload::SerializedPayload,
  serialization::{CDRDeserializerAdapter, CDRSerializerAdapter},
  structure::{
    cache_change::{CacheChange, ChangeKind},
    duration::Duration,
    guid::GUID,
    sequence_number::SequenceNumber,
    time::Timestamp,
  },
  Keyed, RepresentationIdentifier,
};

pub fn property() -> Property {
  Property {
    id: "C09",
    level: "exploration",
    rule: "scenario 0: a queue of 1-12 changes from 1-2 writers, each position good or one of: \
           truncated CDR, wrong-type CDR (absurd string length), unknown representation id, empty \
           payload, dispose-by-key with an undecodable key, dispose-by-key-hash of a never-seen \
           instance (and, as good changes, dispose-by-key-hash of a seen or seen-then-taken \
           instance; on no_key topics a dispose is unintelligible too), drained through one of: \
           with_key DataReader take / read(not_read) / take_next_sample / into_iterator / \
           async_sample_stream / async_bare_sample_stream, SimpleDataReader try_take_one / \
           as_async_stream, and the no_key DataReader take / async_sample_stream, SimpleDataReader \
           try_take_one / as_async_stream; reliable or best-effort. scenario 1: the same through \
           DATA submessages into the real RTPS Reader, plus DATA that cannot become a change at all \
           (no payload and no key hash, payload shorter than its header). Non-trivial = >= 1 bad \
           change followed by >= 1 good change of the same writer. Distinct = distinct decoded cases.",
    assumptions: &[
      "bounded time = at most 200 + 20*queue length iterations of the instrumented take loop per call (deterministic stand-in; the tick point unwinds instead of hanging)",
      "DataReader History is KeepAll so that every good change stays deliverable",
      "trailing garbage after a valid CDR value and non-zero representation options decode successfully and count as good changes",
    ],
    scenarios: &[
      Scenario {
        id: 0,
        name: "bad changes in the topic cache, every API form",
        quick: 6_000,
        thorough: 3_000_000,
        max_len: 120,
        max_threads: 0,
      },
      Scenario {
        id: 1,
        name: "bad DATA submessages through the RTPS Reader",
        quick: 3_000,
        thorough: 1_500_000,
        max_len: 120,
        max_threads: 0,
      },
    ],
    run,
    exhaustive: None,
  }
}

#[derive(Clone, Debug, PartialEq, Serialize, Deserialize)]
pub struct Msg {
  pub id: u32,
  pub name: String,
  pub v: u16,
}
impl Keyed for Msg {
  type K = u32;
  fn key(&self) -> u32 {
    self.id
  }
}

#[derive(Clone, Debug, PartialEq, Serialize, Deserialize)]
pub struct Plain {
  pub name: String,
  pub v: u16,
}

#[derive(Clone, Copy, Debug, PartialEq, Eq)]
enum Kind {
  Good,
  GoodTrailing,
  GoodOptions,
  GoodDisposeKey,
  GoodDisposeHash,
  Truncated,
  WrongType,
  UnknownRep,
  Empty,
  BadDisposeKey,
  UnknownHash,
}

impl Kind {
  fn good(self, no_key: bool) -> bool {
    match self {
      Kind::Good | Kind::GoodTrailing | Kind::GoodOptions => true,
      Kind::GoodDisposeKey | Kind::GoodDisposeHash => !no_key,
      _ => false,
    }
  }
  /// a bad change that is reported (Err) rather than skipped silently
  fn may_report(self) -> bool {
    matches!(self, Kind::Truncated | Kind::WrongType | Kind::UnknownRep | Kind::Empty | Kind::BadDisposeKey)
  }
  fn name(self) -> &'static str {
    match self {
      Kind::Good => "good",
      Kind::GoodTrailing => "good-trailing-garbage",
      Kind::GoodOptions => "good-options",
      Kind::GoodDisposeKey => "dispose-key",
      Kind::GoodDisposeHash => "dispose-hash-known",
      Kind::Truncated => "bad:truncated",
      Kind::WrongType => "bad:wrong-type",
      Kind::UnknownRep => "bad:unknown-representation",
      Kind::Empty => "bad:empty-payload",
      Kind::BadDisposeKey => "bad:dispose-undecodable-key",
      Kind::UnknownHash => "bad:dispose-unknown-keyhash",
    }
  }
}

#[derive(Clone, Debug)]
struct Item {
  w: usize,
  sn: i64,
  kind: Kind,
  id: u32,
  v: u16,
  /// the change may or may not become a sample (an otherwise good DATA with a malformed
  /// optional inline-QoS parameter): delivering it is allowed, not demanded
  opt: bool,
}

fn name_for(it: &Item) -> String {
  format!("w{}s{}-{}", it.w, it.sn, "x".repeat((it.sn as usize * 3) % 7))
}

fn encode(it: &Item, no_key: bool) -> DDSData {
  let good_bytes: Vec<u8> = if no_key {
    CDRSerializerAdapter::<Plain, LittleEndian>::to_bytes(&Plain {
      name: name_for(it),
      v: it.v,
    })
    .unwrap()
    .to_vec()
  } else {
    CDRSerializerAdapter::<Msg, LittleEndian>::to_bytes(&Msg {
      id: it.id,
      name: name_for(it),
      v: it.v,
    })
    .unwrap()
    .to_vec()
  };
  let sp = |rep: RepresentationIdentifier, opts: [u8; 2], v: Vec<u8>| SerializedPayload {
    representation_identifier: rep,
    representation_options: opts,
    value: Bytes::from(v),
  };
  let le = RepresentationIdentifier::CDR_LE;
  match it.kind {
    Kind::Good => DDSData::new(sp(le, [0, 0], good_bytes)),
    Kind::GoodTrailing => {
      let mut b = good_bytes;
      b.extend_from_slice(&[0xde, 0xad, 0xbe, 0xef, 1, 2, 3]);
      DDSData::new(sp(le, [0, 0], b))
    }
    Kind::GoodOptions => DDSData::new(sp(le, [0, 3], good_bytes)),
    Kind::Truncated => {
      // cut inside the string's length field / characters, so that it stays
      // undecodable also after DATA's zero padding to 4 bytes
      let cut = (if no_key { 2 } else { 6 }) + 4 * (it.v as usize % 2);
      DDSData::new(sp(le, [0, 0], good_bytes[..cut].to_vec()))
    }
    Kind::WrongType => {
      // string length field says 4 GiB
      let mut b = good_bytes;
      let off = if no_key { 0 } else { 4 };
      b[off..off + 4].copy_from_slice(&0xffff_fff0u32.to_le_bytes());
      DDSData::new(sp(le, [0, 0], b))
    }
    // (bodies of every short length too: 0-3 bytes, less than one CDR word)
    Kind::UnknownRep => DDSData::new(sp(
      RepresentationIdentifier { bytes: [0xab, 0xcd] },
      [0, 0],
      match it.v % 7 {
        0 => vec![],
        1 => vec![0x11],
        2 => vec![0x11, 0x22],
        3 => vec![0x11, 0x22, 0x33],
        _ => good_bytes,
      },
    )),
    Kind::Empty => DDSData::new(sp(le, [0, 0], vec![])),
    Kind::GoodDisposeKey => DDSData::new_disposed_by_key(ChangeKind::NotAliveDisposed, sp(le, [0, 0], it.id.to_le_bytes().to_vec())),
    // (empty key: stays undecodable also after DATA's padding to 4 bytes)
    Kind::BadDisposeKey => DDSData::new_disposed_by_key(ChangeKind::NotAliveDisposed, sp(le, [0, 0], vec![])),
    Kind::GoodDisposeHash | Kind::UnknownHash => DDSData::new_disposed_by_key_hash(ChangeKind::NotAliveDisposed, it.id.hash_key(false)),
  }
}

struct CountWaker(AtomicUsize);
impl Wake for CountWaker {
  fn wake(self: Arc<Self>) {
    self.0.fetch_add(1, Ordering::SeqCst);
  }
}

#[derive(Debug)]
enum Out {
  /// (writer index, sn) identified from the content
  Sample(usize, i64, bool), // bool: is dispose
  Err,
  Empty,
}

fn ident_msg(m: &Msg, items: &[Item]) -> Option<(usize, i64)> {
  items
    .iter()
    .find(|it| it.kind.good(false) && name_for(it) == m.name && it.id == m.id && it.v == m.v && !matches!(it.kind, Kind::GoodDisposeKey | Kind::GoodDisposeHash))
    .map(|it| (it.w, it.sn))
}
fn ident_plain(m: &Plain, items: &[Item]) -> Option<(usize, i64)> {
  items
    .iter()
    .find(|it| it.kind.good(true) && name_for(it) == m.name && it.v == m.v)
    .map(|it| (it.w, it.sn))
}

#[derive(Clone, Copy, Debug, PartialEq, Eq)]
enum Form {
  Take,
  ReadNotRead,
  TakeNextSample,
  IntoIterator,
  SimpleTryTakeOne,
  SimpleStream,
  SampleStream,
  BareStream,
  NoKeyTake,
  NoKeySimple,
  NoKeySimpleStream,
  NoKeySampleStream,
}
const FORMS: [Form; 12] = [
  Form::Take,
  Form::ReadNotRead,
  Form::TakeNextSample,
  Form::IntoIterator,
  Form::SimpleTryTakeOne,
  Form::SimpleStream,
  Form::SampleStream,
  Form::BareStream,
  Form::NoKeyTake,
  Form::NoKeySimple,
  Form::NoKeySimpleStream,
  Form::NoKeySampleStream,
];
impl Form {
  fn label(self) -> &'static str {
    match self {
      Form::Take => "api:take",
      Form::ReadNotRead => "api:read",
      Form::TakeNextSample => "api:take_next_sample",
      Form::IntoIterator => "api:into_iterator",
      Form::SimpleTryTakeOne => "api:simple.try_take_one",
      Form::SimpleStream => "api:simple.as_async_stream",
      Form::SampleStream => "api:async_sample_stream",
      Form::BareStream => "api:async_bare_sample_stream",
      Form::NoKeyTake => "api:no_key.take",
      Form::NoKeySimple => "api:no_key.simple.try_take_one",
      Form::NoKeySimpleStream => "api:no_key.simple.as_async_stream",
      Form::NoKeySampleStream => "api:no_key.async_sample_stream",
    }
  }
  fn no_key(self) -> bool {
    matches!(self, Form::NoKeyTake | Form::NoKeySimple | Form::NoKeySimpleStream | Form::NoKeySampleStream)
  }
  fn per_item(self) -> bool {
    !matches!(self, Form::Take | Form::ReadNotRead | Form::IntoIterator | Form::NoKeyTake)
  }
}

fn reader_qos(reliable: bool) -> QosPolicies {
  let b = QosPolicyBuilder::new().history(policy::History::KeepAll);
  if reliable {
    b.reliability(policy::Reliability::Reliable {
      max_blocking_time: Duration::from_millis(100),
    })
    .build()
  } else {
    b.reliability(policy::Reliability::BestEffort).build()
  }
}

/// Drain with repeated calls. `call` performs one API call and appends its outcomes.
fn drain(
  form: Form,
  items: &[Item],
  nitems: usize,
  o: &mut Outcome,
  mut call: impl FnMut(&mut Vec<Out>) -> Result<(), String>,
) -> Vec<Out> {
  let mut outs: Vec<Out> = Vec::new();
  let budget = 200 + 20 * nitems as u64;
  let max_calls = nitems + 3;
  let mut calls = 0;
  loop {
    calls += 1;
    let before = outs.len();
    hooks::tick_reset(budget);
    let r = call(&mut outs);
    hooks::tick_disarm();
    if let Err(e) = r {
      o.violate("c09.harness", "call", e);
      return outs;
    }
    let new = &outs[before..];
    if new.iter().any(|x| matches!(x, Out::Empty)) || new.is_empty() {
      break;
    }
    if calls >= max_calls {
      o.violate(
        "c09.too-many-calls",
        &format!("{form:?}"),
        format!("{calls} calls did not drain a queue of {nitems} changes: {:?}", &outs[outs.len().saturating_sub(6)..]),
      );
      break;
    }
  }
  let _ = items;
  outs
}

fn evaluate(form: Form, items: &[Item], outs: &[Out], o: &mut Outcome, known_hash_ids: &dyn Fn(&Item, &[Item]) -> bool, reliable: bool) {
  let no_key = form.no_key();
  // classify each item
  let is_good = |it: &Item| match it.kind {
    Kind::GoodDisposeHash | Kind::UnknownHash => !no_key && known_hash_ids(it, items),
    k => k.good(no_key),
  };
  let good: Vec<&Item> = items.iter().filter(|it| is_good(it)).collect();
  // an optional change may be reported as an error once instead of being delivered
  let bad_reporting = items.iter().filter(|it| (!is_good(it) && it.kind.may_report()) || it.opt).count();
  let errs = outs.iter().filter(|x| matches!(x, Out::Err)).count();
  if errs > bad_reporting {
    o.violate(
      "c09.error-repeated",
      &format!("{form:?}"),
      format!("{errs} errors reported for {bad_reporting} unintelligible changes that can be reported: a bad change was reported more than once, or a good one as an error; outcomes {outs:?}"),
    );
    return;
  }
  // delivered samples: exactly the good ones, once, per writer in order
  let mut delivered: BTreeMap<(usize, i64), usize> = BTreeMap::new();
  let mut last: BTreeMap<usize, i64> = BTreeMap::new();
  for x in outs {
    if let Out::Sample(w, sn, is_dispose) = x {
      *delivered.entry((*w, *sn)).or_insert(0) += 1;
      // the bare forms return no sample info: a dispose is attributed to the first unreported
      // dispose of that key, which may be another writer's - no order claim can be made for it
      if *is_dispose && matches!(form, Form::IntoIterator | Form::BareStream) {
        continue;
      }
      if let Some(p) = last.get(w) {
        if *sn <= *p && reliable {
          o.violate("c09.order", &format!("{form:?}"), format!("writer {w}: sn {sn} delivered after sn {p}"));
          return;
        }
      }
      last.insert(*w, *sn);
    }
  }
  if let Some(((w, sn), n)) = delivered.iter().find(|(_, n)| **n > 1) {
    // read(not_read) never returns a sample twice either
    o.violate("c09.delivered-twice", &format!("{form:?}"), format!("writer {w} sn {sn} delivered {n} times"));
    return;
  }
  for ((w, sn), _) in &delivered {
    if !good.iter().any(|it| it.w == *w && it.sn == *sn) {
      o.violate("c09.fabricated", &format!("{form:?}"), format!("writer {w} sn {sn} delivered although that change is unintelligible"));
      return;
    }
  }
  if let Some(missing) = good.iter().filter(|it| !it.opt).find(|it| !delivered.contains_key(&(it.w, it.sn))) {
    // which bad change precedes it?
    let blocker = items
      .iter()
      .filter(|it| (!is_good(it) || it.opt) && (it.w == missing.w && it.sn < missing.sn))
      .map(|it| if it.opt { "bad:malformed-optional-inline-qos" } else { it.kind.name() })
      .last()
      .unwrap_or("none-of-same-writer");
    o.violate(
      "c09.stops-early",
      &format!("{form:?}:{blocker}"),
      format!(
        "{form:?} reported 'nothing more' (or gave up) while the good change writer {} sn {} ({}) was still deliverable; queue {:?}; outcomes {outs:?}",
        missing.w,
        missing.sn,
        missing.kind.name(),
        items.iter().map(|it| (it.w, it.sn, it.kind.name())).collect::<Vec<_>>()
      ),
    );
  }
}

fn gen_items(c: &mut Choices, no_key: bool) -> (Vec<Item>, usize) {
  let nwriters = 1 + usize::from(c.chance(70));
  let n = 1 + c.pick(12);
  let mut next_sn = vec![1i64; nwriters];
  let mut items = Vec::new();
  for _ in 0..n {
    let w = c.pick(nwriters);
    let kind = match c.weighted(&[10, 1, 1, 2, 2, 3, 3, 3, 2, 2, 4]) {
      0 => Kind::Good,
      1 => Kind::GoodTrailing,
      2 => Kind::GoodOptions,
      3 => Kind::GoodDisposeKey,
      4 => Kind::GoodDisposeHash,
      5 => Kind::Truncated,
      6 => Kind::WrongType,
      7 => Kind::UnknownRep,
      8 => Kind::Empty,
      9 => Kind::BadDisposeKey,
      _ => Kind::UnknownHash,
    };
    let id = match kind {
      Kind::UnknownHash => 900 + c.pick(3) as u32,
      _ => c.pick(3) as u32,
    };
    let _ = no_key;
    items.push(Item {
      w,
      sn: next_sn[w],
      kind,
      id,
      v: c.u16(),
      opt: false,
    });
    next_sn[w] += 1;
  }
  (items, nwriters)
}

/// Sometimes a long run of one kind of bad change is spliced in (budgets, counters and buffers
/// in the skipping code have thresholds at powers of two). Drawn after every other choice of
/// the case, so that older replay files decode as before. Returns the inserted range.
fn insert_long_run(c: &mut Choices, items: &mut Vec<Item>, nwriters: usize) -> Option<std::ops::Range<usize>> {
  if !c.chance(50) {
    return None;
  }
  let kind = [Kind::UnknownHash, Kind::UnknownHash, Kind::Truncated, Kind::WrongType, Kind::UnknownRep, Kind::Empty, Kind::BadDisposeKey][c.pick(7)];
  let len = [17usize, 18, 33, 40, 65, 100, 129, 257][c.pick(8)];
  let pos = c.pick(items.len() + 1);
  let w = c.pick(nwriters);
  let run: Vec<Item> = (0..len)
    .map(|k| Item {
      w,
      sn: 0,
      kind,
      id: if kind == Kind::UnknownHash { 900 + (k % 3) as u32 } else { (k % 3) as u32 },
      opt: false,
      v: k as u16,
    })
    .collect();
  items.splice(pos..pos, run);
  // renumber per writer in queue order
  let mut next = vec![1i64; nwriters];
  for it in items.iter_mut() {
    it.sn = next[it.w];
    next[it.w] += 1;
  }
  Some(pos..pos + len)
}

/// is the key hash of this dispose known at the time it is ingested? (a value or
/// key-dispose of the same id was ingested before it, in ingestion order)
fn hash_known(it: &Item, items: &[Item], reliable: bool) -> bool {
  // ingestion order: reliable = per writer then sn; best-effort = queue order
  let mut order: Vec<&Item> = items.iter().collect();
  if reliable {
    order.sort_by_key(|x| (x.w, x.sn));
  }
  for x in order {
    if x.w == it.w && x.sn == it.sn {
      return false;
    }
    let teaches = matches!(x.kind, Kind::Good | Kind::GoodTrailing | Kind::GoodOptions | Kind::GoodDisposeKey);
    if teaches && x.id == it.id {
      return true;
    }
  }
  false
}

fn scenario_cache(c: &mut Choices, o: &mut Outcome) {
  let _g = CaseGuard::new();
  let form = FORMS[c.pick(FORMS.len())];
  let reliable = c.bool();
  let no_key = form.no_key();
  let (mut items, nwriters) = gen_items(c, no_key);
  let _ = insert_long_run(c, &mut items, nwriters);
  let items = items;
  let qos = reader_qos(reliable);
  let mut node = Node::new(0);
  let ri = node.add_reader(rig::user_reader_eid(1, !no_key), if no_key { "rig_topic_nokey" } else { "rig_topic_c09" }, &qos);
  let tc = node.readers[ri].topic_cache.clone();
  let wguids: Vec<GUID> = (0..nwriters)
    .map(|i| GUID::new(rig::node_prefix(50 + i as u8), rig::user_writer_eid(1, !no_key)))
    .collect();
  o.sample = format!(
    "form={form:?} reliable={reliable} queue={:?}",
    items.iter().map(|it| (it.w, it.sn, it.kind.name(), it.id)).collect::<Vec<_>>()
  );
  o.digest = fnv(o.sample.as_bytes());
  o.label(if reliable { "reliable" } else { "best-effort" });
  o.label(form.label());
  for it in &items {
    o.label(it.kind.name());
  }
  // place the changes as the RTPS Reader does
  {
    let mut tcg = tc.lock().unwrap();
    for it in &items {
      let ts = Timestamp::now();
      tcg.add_change(&ts, CacheChange::new(wguids[it.w], SequenceNumber::from(it.sn), WriteOptions::default(), encode(it, no_key)));
      tcg.mark_reliably_received_before(wguids[it.w], SequenceNumber::from(it.sn + 1));
    }
  }
  // a key-hash dispose is intelligible only if an earlier change (in ingestion
  // order) has taught the reader the key behind that hash
  let items: Vec<Item> = items
    .iter()
    .map(|it| {
      let mut x = it.clone();
      if x.kind == Kind::GoodDisposeHash && !hash_known(it, &items, reliable) {
        x.kind = Kind::UnknownHash;
      }
      x
    })
    .collect();
  let n = items.len();
  let waker_count = Arc::new(CountWaker(AtomicUsize::new(0)));
  let waker: Waker = waker_count.clone().into();
  let outs: Vec<Out> = run_form(form, &mut node, ri, &items, n, o, &waker);
  if o.is_violation() {
    return;
  }
  let kh = |it: &Item, _items: &[Item]| it.kind == Kind::GoodDisposeHash;
  evaluate(form, &items, &outs, o, &kh, reliable);
  // non-trivial: a bad change followed by a good one of the same writer
  o.nontrivial = items.iter().enumerate().any(|(i, b)| {
    !b.kind.good(no_key) && items[i + 1..].iter().any(|g| g.w == b.w && g.kind.good(no_key))
  });
  frontend::drain_discovery_commands();
}

fn run_form(form: Form, node: &mut Node, ri: usize, items: &[Item], n: usize, o: &mut Outcome, waker: &Waker) -> Vec<Out> {
  type WK = CDRDeserializerAdapter<Msg>;
  type NK = CDRDeserializerAdapter<Plain>;
  match form {
    Form::Take | Form::ReadNotRead | Form::TakeNextSample | Form::IntoIterator => {
      let mut dr = frontend::data_reader::<Msg, WK>(&mut node.readers[ri]);
      drain(form, items, n, o, |outs| {
        match form {
          Form::Take => match dr.take(usize::MAX, ReadCondition::any()) {
            Ok(v) => {
              if v.is_empty() {
                outs.push(Out::Empty);
              }
              for ds in v {
                let si = ds.sample_info().sample_identity();
                let (w, sn) = widx(si.writer_guid, si.sequence_number);
                outs.push(Out::Sample(w, sn, matches!(ds.value(), Sample::Dispose(_))));
              }
            }
            Err(_) => outs.push(Out::Err),
          },
          Form::ReadNotRead => match dr.read(usize::MAX, ReadCondition::not_read()) {
            Ok(v) => {
              if v.is_empty() {
                outs.push(Out::Empty);
              }
              for ds in v {
                let si = ds.sample_info().sample_identity();
                let (w, sn) = widx(si.writer_guid, si.sequence_number);
                outs.push(Out::Sample(w, sn, matches!(ds.value(), Sample::Dispose(_))));
              }
            }
            Err(_) => outs.push(Out::Err),
          },
          Form::TakeNextSample => match dr.take_next_sample() {
            Ok(Some(ds)) => {
              let si = ds.sample_info().sample_identity();
              let (w, sn) = widx(si.writer_guid, si.sequence_number);
              outs.push(Out::Sample(w, sn, matches!(ds.value(), Sample::Dispose(_))));
            }
            Ok(None) => outs.push(Out::Empty),
            Err(_) => outs.push(Out::Err),
          },
          _ => match dr.into_iterator() {
            Ok(it) => {
              let v: Vec<_> = it.collect();
              if v.is_empty() {
                outs.push(Out::Empty);
              }
              for s in v {
                match s {
                  Sample::Value(m) => match ident_msg(&m, items) {
                    Some((w, sn)) => outs.push(Out::Sample(w, sn, false)),
                    None => return Err(format!("into_iterator returned a value that no good change carries: {m:?}")),
                  },
                  Sample::Dispose(k) => {
                    // identify by key: the first not yet reported good dispose with this id
                    let already: Vec<(usize, i64)> = outs.iter().filter_map(|x| if let Out::Sample(w, s, true) = x { Some((*w, *s)) } else { None }).collect();
                    match items.iter().find(|it| matches!(it.kind, Kind::GoodDisposeKey | Kind::GoodDisposeHash) && it.id == k && !already.contains(&(it.w, it.sn))) {
                      Some(it) => outs.push(Out::Sample(it.w, it.sn, true)),
                      None => return Err(format!("into_iterator returned a dispose of key {k} that no change carries")),
                    }
                  }
                }
              }
            }
            Err(_) => outs.push(Out::Err),
          },
        }
        Ok(())
      })
    }
    Form::SimpleTryTakeOne | Form::SimpleStream => {
      let sdr = frontend::simple_reader::<Msg, WK>(&mut node.readers[ri], true);
      let mut stream = sdr.as_async_stream();
      drain(form, items, n, o, |outs| {
        let r = if form == Form::SimpleTryTakeOne {
          sdr.drain_read_notifications();
          match sdr.try_take_one() {
            Ok(Some(d)) => Some(Ok(d)),
            Ok(None) => None,
            Err(e) => Some(Err(e)),
          }
        } else {
          let mut cx = Context::from_waker(waker);
          match Pin::new(&mut stream).poll_next(&mut cx) {
            Poll::Ready(Some(x)) => Some(x),
            Poll::Ready(None) => return Err("stream ended".into()),
            Poll::Pending => None,
          }
        };
        match r {
          Some(Ok(dcc)) => {
            let (w, sn) = widx(dcc.writer_guid, dcc.sequence_number);
            outs.push(Out::Sample(w, sn, matches!(dcc.sample, Sample::Dispose(_))));
          }
          Some(Err(_)) => outs.push(Out::Err),
          None => outs.push(Out::Empty),
        }
        Ok(())
      })
    }
    Form::SampleStream => {
      let dr = frontend::data_reader::<Msg, WK>(&mut node.readers[ri]);
      let mut stream = dr.async_sample_stream();
      drain(form, items, n, o, |outs| {
        let mut cx = Context::from_waker(waker);
        match Pin::new(&mut stream).poll_next(&mut cx) {
          Poll::Ready(Some(Ok(ds))) => {
            let si = ds.sample_info().sample_identity();
            let (w, sn) = widx(si.writer_guid, si.sequence_number);
            outs.push(Out::Sample(w, sn, matches!(ds.value(), Sample::Dispose(_))));
          }
          Poll::Ready(Some(Err(_))) => outs.push(Out::Err),
          Poll::Ready(None) => return Err("stream ended".into()),
          Poll::Pending => outs.push(Out::Empty),
        }
        Ok(())
      })
    }
    Form::BareStream => {
      let dr = frontend::data_reader::<Msg, WK>(&mut node.readers[ri]);
      let mut stream = dr.async_bare_sample_stream();
      drain(form, items, n, o, |outs| {
        let mut cx = Context::from_waker(waker);
        match Pin::new(&mut stream).poll_next(&mut cx) {
          Poll::Ready(Some(Ok(Sample::Value(m)))) => match ident_msg(&m, items) {
            Some((w, sn)) => outs.push(Out::Sample(w, sn, false)),
            None => return Err(format!("bare stream returned a value that no good change carries: {m:?}")),
          },
          Poll::Ready(Some(Ok(Sample::Dispose(k)))) => {
            let already: Vec<(usize, i64)> = outs.iter().filter_map(|x| if let Out::Sample(w, s, true) = x { Some((*w, *s)) } else { None }).collect();
            match items.iter().find(|it| matches!(it.kind, Kind::GoodDisposeKey | Kind::GoodDisposeHash) && it.id == k && !already.contains(&(it.w, it.sn))) {
              Some(it) => outs.push(Out::Sample(it.w, it.sn, true)),
              None => return Err(format!("bare stream returned a dispose of key {k} that no change carries")),
            }
          }
          Poll::Ready(Some(Err(_))) => outs.push(Out::Err),
          Poll::Ready(None) => return Err("stream ended".into()),
          Poll::Pending => outs.push(Out::Empty),
        }
        Ok(())
      })
    }
    Form::NoKeyTake | Form::NoKeySampleStream => {
      let keyed = frontend::data_reader::<no_key::wrappers::NoKeyWrapper<Plain>, no_key::wrappers::DAWrapper<NK>>(&mut node.readers[ri]);
      let mut dr = no_key::DataReader::<Plain, NK>::from_keyed(keyed);
      if form == Form::NoKeyTake {
        drain(form, items, n, o, |outs| {
          match dr.take(usize::MAX, ReadCondition::any()) {
            Ok(v) => {
              if v.is_empty() {
                outs.push(Out::Empty);
              }
              for ds in v {
                match ident_plain(ds.value(), items) {
                  Some((w, sn)) => outs.push(Out::Sample(w, sn, false)),
                  None => return Err(format!("no_key take returned a value that no good change carries: {:?}", ds.value())),
                }
              }
            }
            Err(_) => outs.push(Out::Err),
          }
          Ok(())
        })
      } else {
        let mut stream = dr.async_sample_stream();
        drain(form, items, n, o, |outs| {
          let mut cx = Context::from_waker(waker);
          match Pin::new(&mut stream).poll_next(&mut cx) {
            Poll::Ready(Some(Ok(ds))) => match ident_plain(ds.value(), items) {
              Some((w, sn)) => outs.push(Out::Sample(w, sn, false)),
              None => return Err("no_key stream returned an unknown value".into()),
            },
            Poll::Ready(Some(Err(_))) => outs.push(Out::Err),
            Poll::Ready(None) => return Err("stream ended".into()),
            Poll::Pending => outs.push(Out::Empty),
          }
          Ok(())
        })
      }
    }
    Form::NoKeySimple | Form::NoKeySimpleStream => {
      let keyed = frontend::simple_reader::<no_key::wrappers::NoKeyWrapper<Plain>, no_key::wrappers::DAWrapper<NK>>(&mut node.readers[ri], false);
      let sdr = no_key::SimpleDataReader::<Plain, NK>::from_keyed(keyed);
      if form == Form::NoKeySimple {
        drain(form, items, n, o, |outs| {
          sdr.drain_read_notifications();
          match sdr.try_take_one() {
            Ok(Some(dcc)) => {
              let (w, sn) = widx(dcc.writer_guid, dcc.sequence_number);
              outs.push(Out::Sample(w, sn, false));
            }
            Ok(None) => outs.push(Out::Empty),
            Err(_) => outs.push(Out::Err),
          }
          Ok(())
        })
      } else {
        let mut stream = Box::pin(sdr.as_async_stream());
        drain(form, items, n, o, |outs| {
          let mut cx = Context::from_waker(waker);
          match stream.as_mut().poll_next(&mut cx) {
            Poll::Ready(Some(Ok(dcc))) => {
              let (w, sn) = widx(dcc.writer_guid, dcc.sequence_number);
              outs.push(Out::Sample(w, sn, false));
            }
            Poll::Ready(Some(Err(_))) => outs.push(Out::Err),
            Poll::Ready(None) => return Err("stream ended".into()),
            Poll::Pending => outs.push(Out::Empty),
          }
          Ok(())
        })
      }
    }
  }
}

fn widx(g: GUID, sn: SequenceNumber) -> (usize, i64) {
  // writer index from the GUID prefix byte set by node_prefix(50 + i) / (60 + i)
  let b = g.prefix.bytes[3];
  (usize::from(if b >= 60 { b - 60 } else { b - 50 }), i64::from(sn))
}

// ------------------------------------------------------------------ scenario 1: through the RTPS Reader

#[derive(Clone, Copy, Debug, PartialEq, Eq)]
enum Wire {
  Item,
  /// DATA with no payload, no key flag, no key hash: e.g. a coherent-set end marker
  NoContents,
  /// DATA whose serialized payload is shorter than its 4-byte header
  ShortPayload,
  /// D and K flags both set
  BothFlags,
}

fn scenario_wire(c: &mut Choices, o: &mut Outcome) {
  let _g = CaseGuard::new();
  let form = [Form::Take, Form::SimpleTryTakeOne, Form::SampleStream, Form::TakeNextSample][c.pick(4)];
  let (mut items, _nw) = gen_items(c, false);
  // one writer, reliable: everything hinges on the sequence numbers
  for (i, it) in items.iter_mut().enumerate() {
    it.w = 0;
    it.sn = i as i64 + 1;
  }
  let wires: Vec<Wire> = items
    .iter()
    .map(|_| match c.weighted(&[12, 2, 2, 1]) {
      0 => Wire::Item,
      1 => Wire::NoContents,
      2 => Wire::ShortPayload,
      _ => Wire::BothFlags,
    })
    .collect();
  // a long run (drawn last); its members go over the wire as they are
  let mut wires = wires;
  if let Some(r) = insert_long_run(c, &mut items, 1) {
    wires.splice(r.start..r.start, std::iter::repeat(Wire::Item).take(r.len()));
    for (i, it) in items.iter_mut().enumerate() {
      it.w = 0;
      it.sn = i as i64 + 1;
    }
  }
  let wires = wires;
  let qos = reader_qos(true);
  let mut node = Node::new(0);
  let ri = node.add_reader(rig::user_reader_eid(1, true), "rig_topic_c09", &qos);
  let wguid = GUID::new(rig::node_prefix(60), rig::user_writer_eid(1, true));
  node
    .reader_mut(ri)
    .update_writer_proxy(rig::writer_proxy_for(wguid, rig::node_locator(60)), &qos);
  o.sample = format!(
    "form={form:?} wire queue={:?}",
    items
      .iter()
      .zip(wires.iter())
      .map(|(it, w)| (it.sn, if *w == Wire::Item { it.kind.name() } else { "undecodable-DATA" }, format!("{w:?}")))
      .collect::<Vec<_>>()
  );
  o.digest = fnv(o.sample.as_bytes());
  // arrival order: usually as sent, sometimes with neighbours swapped or a stretch reversed
  // (UDP reordering, retransmission after loss); drawn last
  let mut order: Vec<usize> = (0..items.len()).collect();
  if items.len() >= 2 && c.chance(110) {
    for _ in 0..1 + c.pick(3) {
      let i = c.pick(items.len() - 1);
      if c.chance(200) {
        order.swap(i, i + 1);
      } else {
        let j = (i + 2 + c.pick(4)).min(items.len());
        order[i..j].reverse();
      }
    }
    if order.windows(2).any(|w| w[0] > w[1]) {
      o.label("arrival-out-of-order");
      o.sample.push_str(&format!(" arrival={order:?}"));
      o.digest = fnv(o.sample.as_bytes());
    }
  }
  // malformed OPTIONAL inline-QoS parameters on otherwise ordinary DATA (drawn after everything
  // else): whether such a change becomes a sample is the implementation's business, but it must
  // not keep the changes behind it from being delivered
  let mut deco: Vec<u8> = vec![0; items.len()];
  if c.chance(90) {
    for _ in 0..1 + c.pick(3) {
      let i = c.pick(items.len());
      if wires[i] == Wire::Item && matches!(encode(&items[i], false), DDSData::Data { .. }) {
        deco[i] = 1 + c.pick(5) as u8;
        items[i].opt = true;
      }
    }
    if deco.iter().any(|d| *d != 0) {
      o.label("malformed-optional-inline-qos");
      o.sample.push_str(&format!(" malformed-inline-qos={:?}", deco.iter().enumerate().filter(|(_, d)| **d != 0).map(|(i, d)| (i + 1, *d)).collect::<Vec<_>>()));
      o.digest = fnv(o.sample.as_bytes());
    }
  }
  let deco_params = |d: u8| -> Option<Vec<(u16, Vec<u8>)>> {
    match d {
      0 => None,
      1 => Some(vec![(0x0083, vec![1, 2, 3, 4, 5, 6, 7, 8])]),          // PID_RELATED_SAMPLE_IDENTITY, 8 of 24 bytes
      2 => Some(vec![(0x800f, vec![9, 9, 9, 9])]),                      // PID_RELATED_SAMPLE_IDENTITY_CUSTOM, 4 of 24 bytes
      3 => Some(vec![(wire::PID_KEY_HASH, vec![7; 8])]),               // key hash of 8 bytes
      4 => Some(vec![(wire::PID_STATUS_INFO, vec![0, 0, 0, 0, 0, 0, 0, 0])]), // status info of 8 bytes
      _ => Some(vec![(0x0083, vec![]), (0x0056, vec![1, 2, 3, 4])]),    // empty related identity + short coherent set
    }
  };
  let rid = eid_bytes(rig::user_reader_eid(1, true));
  let wid = eid_bytes(rig::user_writer_eid(1, true));
  let mut datagrams: Vec<Vec<u8>> = Vec::new();
  for (idx, (it, w)) in items.iter().zip(wires.iter()).enumerate() {
    let mut dg = wire::rtps_header((2, 4), [1, 0x12], &wguid.prefix.bytes);
    let (flags, body) = match w {
      Wire::Item => {
        let d = encode(it, false);
        let spec = match &d {
          DDSData::Data { serialized_payload } => wire::DataSpec {
            reader_id: rid,
            writer_id: wid,
            sn: it.sn,
            inline_qos: deco_params(deco[idx]),
            payload: Some(sp_bytes(serialized_payload)),
            key_flag: false,
          },
          DDSData::DisposeByKey { key, .. } => wire::DataSpec {
            reader_id: rid,
            writer_id: wid,
            sn: it.sn,
            inline_qos: Some(vec![(wire::PID_STATUS_INFO, vec![0, 0, 0, 1])]),
            payload: Some(sp_bytes(key)),
            key_flag: true,
          },
          DDSData::DisposeByKeyHash { key_hash, .. } => wire::DataSpec {
            reader_id: rid,
            writer_id: wid,
            sn: it.sn,
            inline_qos: Some(vec![(wire::PID_KEY_HASH, key_hash.to_vec()), (wire::PID_STATUS_INFO, vec![0, 0, 0, 1])]),
            payload: None,
            key_flag: false,
          },
        };
        wire::data_body(true, &spec)
      }
      Wire::NoContents => wire::data_body(
        true,
        &wire::DataSpec {
          reader_id: rid,
          writer_id: wid,
          sn: it.sn,
          inline_qos: Some(vec![(0x0056, vec![0, 0, 0, 0, 0, 0, 0, 1])]), // PID_COHERENT_SET
          payload: None,
          key_flag: false,
        },
      ),
      Wire::ShortPayload => {
        let (f, mut b) = wire::data_body(
          true,
          &wire::DataSpec {
            reader_id: rid,
            writer_id: wid,
            sn: it.sn,
            inline_qos: None,
            payload: None,
            key_flag: false,
          },
        );
        b.extend_from_slice(&[0, 1]); // two bytes of "payload"
        b.extend_from_slice(&[0, 0]);
        b.truncate(b.len() - 2);
        (f | 0x04, b)
      }
      Wire::BothFlags => {
        let (f, b) = wire::data_body(
          true,
          &wire::DataSpec {
            reader_id: rid,
            writer_id: wid,
            sn: it.sn,
            inline_qos: None,
            payload: Some(vec![0, 1, 0, 0, 1, 2, 3, 4]),
            key_flag: false,
          },
        );
        (f | 0x08, b)
      }
    };
    wire::push_submessage(&mut dg, wire::DATA, flags, &body, None);
    datagrams.push(dg);
  }
  for i in &order {
    node.inject(&datagrams[*i]);
  }
  // the writer announces what it has sent, as every reliable writer does
  let mut hb = wire::rtps_header((2, 4), [1, 0x12], &wguid.prefix.bytes);
  let (f, b) = wire::heartbeat_body(true, rid, wid, 1, items.len() as i64, 1, false, false);
  wire::push_submessage(&mut hb, wire::HEARTBEAT, f, &b, None);
  node.inject(&hb);
  let _ = hooks::capture_drain();
  // effective queue as seen by the application: undecodable DATA are bad changes
  let eff0: Vec<Item> = items
    .iter()
    .zip(wires.iter())
    .map(|(it, w)| {
      let mut it = it.clone();
      if *w != Wire::Item {
        it.kind = Kind::UnknownHash; // silent-bad: neither sample nor error is demanded
        it.id = 999;
      }
      it
    })
    .collect();
  let eff: Vec<Item> = eff0
    .iter()
    .map(|it| {
      let mut x = it.clone();
      if x.kind == Kind::GoodDisposeHash && !hash_known(it, &eff0, true) {
        x.kind = Kind::UnknownHash;
      }
      x
    })
    .collect();
  for (it, w) in eff.iter().zip(wires.iter()) {
    o.label(if *w == Wire::Item { it.kind.name() } else { "bad:undecodable-DATA" });
  }
  let n = eff.len();
  let waker_count = Arc::new(CountWaker(AtomicUsize::new(0)));
  let waker: Waker = waker_count.clone().into();
  let outs = run_form(form, &mut node, ri, &eff, n, o, &waker);
  if o.is_violation() {
    return;
  }
  let kh = |it: &Item, _items: &[Item]| it.kind == Kind::GoodDisposeHash;
  evaluate(form, &eff, &outs, o, &kh, true);
  if let Verdict::Violation { clause, key, .. } = &mut o.verdict {
    if clause == "c09.stops-early" && wires.iter().any(|w| *w != Wire::Item) && key.ends_with("bad:dispose-unknown-keyhash") {
      *key = format!("{form:?}:bad:undecodable-DATA");
    }
  }
  o.nontrivial = eff.iter().enumerate().any(|(i, b)| !b.kind.good(false) && eff[i + 1..].iter().any(|g| g.kind.good(false)));
  frontend::drain_discovery_commands();
}

fn sp_bytes(sp: &SerializedPayload) -> Vec<u8> {
  let mut v = Vec::new();
  v.extend_from_slice(&sp.representation_identifier.bytes);
  v.extend_from_slice(&sp.representation_options);
  v.extend_from_slice(&sp.value);
  v
}

pub fn run(scenario: u32, choices: &[u8], _strict: bool) -> Outcome {
  let mut c = Choices::new(choices);
  let mut o = Outcome::new();
  match scenario {
    0 => scenario_cache(&mut c, &mut o),
    1 => scenario_wire(&mut c, &mut o),
    _ => o.verdict = Verdict::Discard("unknown scenario".into()),
  }
  o
}

//! Application-side front-ends (SimpleDataReader / DataReader / DataWriter) wired
//! to rig-owned Readers and Writers exactly as pubsub.rs wires them, so that the
//! public read/take/write API runs against the deterministic rig.
//!
//! These constructors need a live Subscriber/Publisher, so each harness process
//! owns ONE DomainParticipant (created lazily); its own event loop never sees
//! the rig's readers and writers.

use std::{
  collections::BTreeMap,
  fmt,
  sync::{Mutex, OnceLock},
};

use mio_extras::channel as mio_channel;
use serde::{Deserialize, Serialize};

use super::rig::{ReaderEnds, RigReader};
use crate::{
  dds::{
    adapters::{no_key, with_key},
    participant::DomainParticipant,
    pubsub::{Publisher, Subscriber},
    qos::QosPolicies,
    topic::{Topic, TopicKind},
    with_key::{datareader::DataReader, simpledatareader::SimpleDataReader},
  },
  discovery::discovery::DiscoveryCommand,
  Keyed, RepresentationIdentifier,
};

struct Shared {
  dp: DomainParticipant,
  subscriber: Subscriber,
  publisher: Publisher,
  topics: Mutex<BTreeMap<(String, bool), Topic>>,
  // keeps the receiving end of the discovery command channel alive
  disc_tx: mio_channel::SyncSender<DiscoveryCommand>,
  _disc_rx: Mutex<mio_channel::Receiver<DiscoveryCommand>>,
}

static SHARED: OnceLock<Shared> = OnceLock::new();

fn shared() -> &'static Shared {
  SHARED.get_or_init(|| {
    // domain id from the process id: several harness processes may run at once
    let domain = 60 + (std::process::id() % 120) as u16;
    let mut last_err = String::new();
    for attempt in 0..20u16 {
      match DomainParticipant::new((domain + attempt * 7) % 200) {
        Ok(dp) => {
          let q = QosPolicies::qos_none();
          let subscriber = dp.create_subscriber(&q).expect("rig: subscriber");
          let publisher = dp.create_publisher(&q).expect("rig: publisher");
          let (disc_tx, disc_rx) = mio_channel::sync_channel(1 << 20);
          return Shared {
            dp,
            subscriber,
            publisher,
            topics: Mutex::new(BTreeMap::new()),
            disc_tx,
            _disc_rx: Mutex::new(disc_rx),
          };
        }
        Err(e) => last_err = format!("{e:?}"),
      }
    }
    panic!("rig: cannot create the process-wide DomainParticipant: {last_err}");
  })
}

pub fn participant() -> DomainParticipant {
  shared().dp.clone()
}

pub fn publisher() -> Publisher {
  shared().publisher.clone()
}

pub fn subscriber() -> Subscriber {
  shared().subscriber.clone()
}

pub fn topic(name: &str, with_key: bool) -> Topic {
  let s = shared();
  let mut t = s.topics.lock().unwrap();
  t.entry((name.to_string(), with_key))
    .or_insert_with(|| {
      s.dp
        .create_topic(
          name.to_string(),
          "RigType".to_string(),
          &QosPolicies::qos_none(),
          if with_key {
            TopicKind::WithKey
          } else {
            TopicKind::NoKey
          },
        )
        .expect("rig: create_topic")
    })
    .clone()
}

/// drain the private discovery command channel now and then
pub fn drain_discovery_commands() {
  if let Ok(rx) = shared()._disc_rx.lock() {
    while rx.try_recv().is_ok() {}
  }
}

/// Build a SimpleDataReader on top of a rig reader (takes its application ends).
pub fn simple_reader<D, DA>(r: &mut RigReader, with_key: bool) -> SimpleDataReader<D, DA>
where
  D: Keyed + 'static,
  DA: with_key::DeserializerAdapter<D>,
{
  let ends: ReaderEnds = r.ends.take().expect("rig: reader ends already taken");
  let s = shared();
  SimpleDataReader::<D, DA>::new(
    s.subscriber.clone(),
    r.guid.entity_id,
    topic(&r.topic_name, with_key),
    r.qos.clone(),
    ends.notification_rx,
    r.topic_cache.clone(),
    s.disc_tx.clone(),
    ends.status_rx,
    ends.reader_command_tx,
    ends.waker,
    ends.poll_event_source,
  )
  .expect("rig: SimpleDataReader::new")
}

pub fn data_reader<D, DA>(r: &mut RigReader) -> DataReader<D, DA>
where
  D: Keyed + 'static,
  DA: with_key::DeserializerAdapter<D>,
{
  DataReader::from_simple_data_reader(simple_reader::<D, DA>(r, true))
}

// ---------------------------------------------------------------- Raw sample type
// The decoded form *is* the serialized value, so that "payload bytes equal those
// carried by the submessages" can be checked through the public API.

#[derive(Clone, Debug, PartialEq, Eq, Serialize, Deserialize)]
pub struct Raw {
  pub rep: [u8; 2],
  pub bytes: Vec<u8>,
}

impl Keyed for Raw {
  type K = u8;
  fn key(&self) -> u8 {
    self.bytes.first().copied().unwrap_or(0)
  }
}

#[derive(Debug)]
pub struct RawError(pub String);
impl fmt::Display for RawError {
  fn fmt(&self, f: &mut fmt::Formatter<'_>) -> fmt::Result {
    write!(f, "{}", self.0)
  }
}
impl std::error::Error for RawError {}

pub struct RawAdapter;

#[derive(Clone)]
pub struct RawDecoder;

impl no_key::DeserializerAdapter<Raw> for RawAdapter {
  type Error = RawError;
  type Decoded = Raw;
  fn supported_encodings() -> &'static [RepresentationIdentifier] {
    &[
      RepresentationIdentifier::CDR_LE,
      RepresentationIdentifier::CDR_BE,
      RepresentationIdentifier::PL_CDR_LE,
      RepresentationIdentifier::PL_CDR_BE,
    ]
  }
  fn transform_decoded(decoded: Raw) -> Raw {
    decoded
  }
}

impl with_key::DeserializerAdapter<Raw> for RawAdapter {
  type DecodedKey = u8;
  fn transform_decoded_key(k: u8) -> u8 {
    k
  }
}

impl no_key::Decode<Raw> for RawDecoder {
  type Error = RawError;
  fn decode_bytes(self, input_bytes: &[u8], encoding: RepresentationIdentifier) -> Result<Raw, RawError> {
    Ok(Raw {
      rep: encoding.bytes,
      bytes: input_bytes.to_vec(),
    })
  }
}

impl with_key::Decode<Raw, u8> for RawDecoder {
  fn decode_key_bytes(self, input_key_bytes: &[u8], _encoding: RepresentationIdentifier) -> Result<u8, RawError> {
    input_key_bytes
      .first()
      .copied()
      .ok_or_else(|| RawError("empty key".into()))
  }
}

impl with_key::DefaultDecoder<Raw> for RawAdapter {
  type Decoder = RawDecoder;
  const DECODER: RawDecoder = RawDecoder;
}

impl no_key::DefaultDecoder<Raw> for RawAdapter {
  type Decoder = RawDecoder;
  const DECODER: RawDecoder = RawDecoder;
}

// ---------------------------------------------------------------- DataWriter front-end

use super::rig::WriterEnds;
use crate::dds::with_key::datawriter::DataWriter;

/// Build a DataWriter on top of a rig writer (takes its application ends), wired
/// as pubsub.rs wires it: command channel + waker slot shared with the Writer.
pub fn data_writer<D, SA>(ends: WriterEnds, guid: crate::GUID, topic_name: &str, qos: &QosPolicies) -> DataWriter<D, SA>
where
  D: Keyed,
  SA: with_key::SerializerAdapter<D>,
{
  let s = shared();
  DataWriter::<D, SA>::new(
    s.publisher.clone(),
    topic(topic_name, true),
    qos.clone(),
    guid,
    ends.cmd_tx,
    ends.waker,
    s.disc_tx.clone(),
    ends.status_rx,
  )
  .expect("rig: DataWriter::new")
}

//! C11 — matched-endpoint sets and their status counts track discovery exactly.
//!
//! A real DPEventLoop (constructed, never started: no sockets) holds 1-2 local
//! readers and writers on 1-2 topics, plus a DiscoveryDB. A generated history of
//! discovery events is applied the way Discovery applies it (DiscoveryDB update,
//! then the DPEventLoop handler). A model of the currently announced,
//! QoS-compatible endpoints predicts matched sets and status events.

use std::{
  collections::{BTreeMap, BTreeSet, HashMap},
  sync::{Arc, RwLock},
  time::Duration as StdDuration,
};

use mio_extras::channel as mio_channel;

use super::{
  discovery_rig, fnv, hooks,
  rig::{self, CaseGuard},
  Choices, Outcome, Property, Scenario, Verdict,
};
use crate::{
  dds::{
    qos::{policy, QosPolicies, QosPolicyBuilder},
    statusevents::{sync_status_channel, DataReaderStatus, DataWriterStatus, StatusChannelReceiver},
  },
  discovery::discovery_db::DiscoveryDB,
  rtps::{
    constant::{TokenReceiverPair, ADD_READER_TOKEN, ADD_WRITER_TOKEN, REMOVE_READER_TOKEN, REMOVE_WRITER_TOKEN},
    dp_event_loop::{DPEventLoop, DomainInfo},
  },
  structure::{
    dds_cache::DDSCache,
    duration::Duration,
    entity::RTPSEntity,
    guid::{EntityId, GuidPrefix, GUID},
  },
};

pub fn property() -> Property {
  Property {
    id: "C11",
    level: "exploration",
    rule: "histories of 5-80 discovery events (and the creation of some local endpoints in the middle of the history) over 1-3 remote participants x 1-3 endpoints each (reader \
           or writer, topic A or B, QoS compatible or incompatible, fixed per endpoint): participant \
           announced / re-announced, endpoint announced / re-announced / disposed, participant \
           disposed, participant timed out (participant_cleanup with a virtual clock) and found again; \
           applied to a real DiscoveryDB and a real, never started DPEventLoop with 1-2 local readers \
           and writers on topics A / B. Non-trivial = >= 1 unmatch followed by a re-match, or a \
           participant loss with >= 2 matched endpoints. Distinct = distinct decoded histories.",
    assumptions: &[
      "'currently announced' = announced by SEDP since the last loss of its participant and not disposed since; endpoints restored from the DiscoveryDB attic are known again (C12) but matched again only when re-announced",
      "status channels have capacity >= history length, so 'channel full' never hides an event",
      "a re-announcement of an incompatible endpoint may raise the incompatible-QoS count again",
    ],
    scenarios: &[Scenario {
      id: 0,
      name: "discovery events vs model of announced endpoints",
      quick: 8_000,
      thorough: 600_000,
      max_len: 360,
      max_threads: 0,
    }],
    run,
    exhaustive: None,
  }
}

#[derive(Clone, Debug)]
enum Ev {
  ParticipantAnnounce(usize),
  EndpointAnnounce(usize, usize),
  EndpointDispose(usize, usize),
  ParticipantDispose(usize),
  ParticipantTimeout(usize),
  /// a local reader / writer is created only now, in the middle of the history
  AddLocal(usize),
}

#[derive(Clone, Debug)]
struct REndpoint {
  guid: GUID,
  is_reader: bool,
  topic: usize,
  compatible: bool,
  /// a compatible endpoint whose announcement leaves every policy unspecified
  sparse: bool,
  announced: bool,
  /// model of the DiscoveryDB: in the table of external endpoints / in the attic
  in_db: bool,
  in_attic: bool,
  /// its participant was disposed while this endpoint sat in the attic: whether a later
  /// reappearance makes it known again is not defined by the statement
  uncertain: bool,
}

struct Local {
  guid: GUID,
  eid: EntityId,
  is_reader: bool,
  topic: usize,
  reader_status: Option<StatusChannelReceiver<DataReaderStatus>>,
  writer_status: Option<StatusChannelReceiver<DataWriterStatus>>,
  total: i32,
  incompat: i32,
  /// the remote endpoints this local endpoint must be matched with (model)
  matched: BTreeSet<GUID>,
  // keep application ends alive
  _keep: Box<dyn std::any::Any>,
}

fn make_local(dp: &mut DPEventLoop, my_prefix: GuidPrefix, i: usize, is_reader: bool, topic: usize) -> Local {
  let cap = 512;
  if is_reader {
    let eid = rig::user_reader_eid(i as u8 + 1, true);
    let guid = GUID::new(my_prefix, eid);
    let (ing, mut rr) = rig::reader_ingredients(guid, TOPICS[topic], &local_qos(), false, cap);
    dp.verif_add_local_reader(ing);
    let mut ends = rr.ends.take().unwrap();
    let status_rx = std::mem::replace(&mut ends.status_rx, sync_status_channel(1).unwrap().1);
    Local {
      guid,
      eid,
      is_reader,
      topic,
      reader_status: Some(status_rx),
      writer_status: None,
      total: 0,
      incompat: 0,
      matched: BTreeSet::new(),
      _keep: Box::new((ends, rr)),
    }
  } else {
    let eid = rig::user_writer_eid(i as u8 + 1, true);
    let guid = GUID::new(my_prefix, eid);
    let (ing, ends) = rig::writer_ingredients(guid, TOPICS[topic], &local_qos(), 16, cap);
    dp.verif_add_local_writer(ing);
    let rig::WriterEnds { cmd_tx, status_rx, waker } = ends;
    Local {
      guid,
      eid,
      is_reader,
      topic,
      reader_status: None,
      writer_status: Some(status_rx),
      total: 0,
      incompat: 0,
      matched: BTreeSet::new(),
      _keep: Box::new((cmd_tx, waker)),
    }
  }
}

const TOPICS: [&str; 2] = ["rig_topic_a", "rig_topic_b"];

fn local_qos() -> QosPolicies {
  QosPolicyBuilder::new()
    .reliability(policy::Reliability::Reliable {
      max_blocking_time: Duration::from_millis(100),
    })
    .durability(policy::Durability::TransientLocal)
    .build()
}

/// a remote reader requesting more than we offer / a remote writer offering less than we request
fn remote_qos(is_reader: bool, compatible: bool, sparse: bool) -> QosPolicies {
  match (is_reader, compatible) {
    // an announcement without any QoS policy is compatible with everything
    (_, true) if sparse => QosPolicies::qos_none(),
    (_, true) => local_qos(),
    // remote reader requests Persistent durability: our TransientLocal writer cannot serve it
    (true, false) => QosPolicyBuilder::new()
      .reliability(policy::Reliability::Reliable {
        max_blocking_time: Duration::from_millis(100),
      })
      .durability(policy::Durability::Persistent)
      .build(),
    // remote writer offers best effort: our reliable reader cannot accept it
    (false, false) => QosPolicyBuilder::new().reliability(policy::Reliability::BestEffort).build(),
  }
}

pub fn run(_scenario: u32, choices: &[u8], _strict: bool) -> Outcome {
  let mut c = Choices::new(choices);
  let mut o = Outcome::new();
  let _guard = CaseGuard::new();
  hooks::instant_start();
  struct G;
  impl Drop for G {
    fn drop(&mut self) {
      hooks::instant_stop();
    }
  }
  let _g = G;

  // ---------------------------------------------------------------- the event loop object
  let my_prefix = rig::node_prefix(0);
  let my_guid = GUID::new(my_prefix, EntityId::PARTICIPANT);
  let (ttx, _trx) = mio_channel::sync_channel::<()>(8192);
  let (ptx, prx) = sync_status_channel(16384).expect("status channel");
  let db = Arc::new(RwLock::new(DiscoveryDB::new(my_guid, ttx, ptx.clone())));
  let (_art, arr) = mio_channel::sync_channel(4);
  let (_rrt, rrr) = mio_channel::sync_channel(4);
  let (_awt, awr) = mio_channel::sync_channel(4);
  let (_rwt, rwr) = mio_channel::sync_channel(4);
  let (_stop_tx, stop_rx) = mio_channel::channel();
  let (_dun_tx, dun_rx) = mio_channel::sync_channel(4);
  let (dc_tx, _dc_rx) = mio_channel::sync_channel(4096);
  let (spdp_tx, _spdp_rx) = mio_channel::sync_channel(4096);
  let mut dp = DPEventLoop::new(
    DomainInfo {
      domain_participant_guid: my_guid,
      domain_id: 0,
      participant_id: 0,
    },
    Arc::new(RwLock::new(DDSCache::new())),
    HashMap::new(),
    db.clone(),
    my_prefix,
    TokenReceiverPair { token: ADD_READER_TOKEN, receiver: arr },
    TokenReceiverPair { token: REMOVE_READER_TOKEN, receiver: rrr },
    TokenReceiverPair { token: ADD_WRITER_TOKEN, receiver: awr },
    TokenReceiverPair { token: REMOVE_WRITER_TOKEN, receiver: rwr },
    stop_rx,
    dun_rx,
    dc_tx,
    spdp_tx,
    ptx,
    None,
  );

  // ---------------------------------------------------------------- local endpoints
  let nlocal = 1 + c.pick(4);
  // (is_reader, topic, created late)
  let local_plan: Vec<(bool, usize, bool)> = (0..nlocal).map(|_| (c.bool(), c.pick(2), c.chance(90))).collect();
  let mut locals: Vec<Option<Local>> = Vec::new();
  for (i, (is_reader, topic, late)) in local_plan.iter().enumerate() {
    locals.push(if *late { None } else { Some(make_local(&mut dp, my_prefix, i, *is_reader, *topic)) });
  }
  if nlocal >= 2 {
    o.label("several-local-endpoints");
  }

  // ---------------------------------------------------------------- remote population + history
  let np = 1 + c.pick(3);
  let lease_us: u64 = 1_000_000;
  let mut remotes: Vec<Vec<REndpoint>> = Vec::new();
  for p in 0..np {
    let ne = 1 + c.pick(3);
    let mut v = Vec::new();
    for e in 0..ne {
      let is_reader = c.bool();
      let prefix = rig::node_prefix(80 + p as u8);
      v.push(REndpoint {
        guid: GUID::new(
          prefix,
          if is_reader {
            rig::peer_eid(e as u8, true)
          } else {
            rig::peer_eid(e as u8, false)
          },
        ),
        is_reader,
        topic: c.pick(2),
        compatible: !c.chance(70),
        sparse: false,
        announced: false,
        in_db: false,
        in_attic: false,
        uncertain: false,
      });
    }
    remotes.push(v);
  }
  let nev = c.usize_in(5, 80);
  let mut evs = Vec::new();
  for p in 0..np {
    if c.chance(200) {
      evs.push(Ev::ParticipantAnnounce(p));
    }
  }
  for _ in 0..nev {
    let p = c.pick(np);
    let e = c.pick(remotes[p].len());
    evs.push(match c.weighted(&[3, 12, 5, 2, 2]) {
      0 => Ev::ParticipantAnnounce(p),
      1 => Ev::EndpointAnnounce(p, e),
      2 => Ev::EndpointDispose(p, e),
      3 => Ev::ParticipantDispose(p),
      _ => Ev::ParticipantTimeout(p),
    });
  }
  for (li, (_, _, late)) in local_plan.iter().enumerate() {
    if *late {
      let pos = c.pick(evs.len() + 1);
      evs.insert(pos, Ev::AddLocal(li));
    }
  }
  // (drawn last: stored inputs keep decoding)
  for v in remotes.iter_mut() {
    for r in v.iter_mut() {
      r.sparse = c.chance(100);
      if r.sparse && r.compatible {
        o.label("compatible-endpoint-announces-no-policies");
      }
    }
  }
  o.sample = format!(
    "local={:?} remote={:?} events={evs:?}",
    local_plan,
    remotes
      .iter()
      .map(|v| v.iter().map(|e| (e.is_reader, e.topic, e.compatible, e.sparse)).collect::<Vec<_>>())
      .collect::<Vec<_>>()
  );
  o.digest = fnv(o.sample.as_bytes());

  let mut participant_known = vec![false; np];
  let mut unmatched_once: BTreeSet<(usize, GUID)> = BTreeSet::new(); // (local idx, remote)
  let mut nontrivial = false;

  for (evno, ev) in evs.iter().enumerate() {
    // expected events per local endpoint for this one discovery event
    #[derive(Debug, PartialEq)]
    enum Exp {
      Matched(GUID),
      Unmatched(GUID),
      Incompatible(GUID),
    }
    let mut expect: Vec<Vec<Exp>> = (0..locals.len()).map(|_| Vec::new()).collect();
    let matches = |l: &Local, r: &REndpoint| l.is_reader != r.is_reader && l.topic == r.topic;
    match ev {
      Ev::ParticipantAnnounce(p) => {
        let prefix = rig::node_prefix(80 + *p as u8);
        db.write().unwrap().update_participant(&discovery_rig::participant_data(
          prefix,
          80 + *p as u8,
          Some(Duration::from_secs(1)),
        ));
        dp.verif_update_participant(prefix);
        if !participant_known[*p] && evno > np {
          o.label("participant-found-again");
        }
        if !participant_known[*p] {
          for r in remotes[*p].iter_mut() {
            if r.in_attic {
              r.in_attic = false;
              r.in_db = true;
            }
          }
        }
        participant_known[*p] = true;
      }
      Ev::EndpointAnnounce(p, e) => {
        let r = remotes[*p][*e].clone();
        let q = remote_qos(r.is_reader, r.compatible, r.sparse);
        if r.is_reader {
          let drd = db
            .write()
            .unwrap()
            .update_subscription(&discovery_rig::reader_data(r.guid, TOPICS[r.topic], &q, vec![rig::node_locator(80 + *p as u8)]));
          dp.verif_remote_reader_discovered(&drd);
        } else {
          let dwd = db
            .write()
            .unwrap()
            .update_publication(&discovery_rig::writer_data(r.guid, TOPICS[r.topic], &q, vec![rig::node_locator(80 + *p as u8)]));
          dp.verif_remote_writer_discovered(&dwd);
        }
        for (li, l) in locals.iter_mut().enumerate() {
          let Some(l) = l else { continue };
          if matches(l, &r) {
            if r.compatible {
              if l.matched.insert(r.guid) {
                expect[li].push(Exp::Matched(r.guid));
                if unmatched_once.contains(&(li, r.guid)) {
                  o.label("re-match");
                  nontrivial = true;
                }
              } else {
                o.label("re-announce-no-event");
              }
            } else {
              expect[li].push(Exp::Incompatible(r.guid));
              o.label("incompatible");
            }
          }
        }
        remotes[*p][*e].in_db = true;
        remotes[*p][*e].uncertain = false;
        remotes[*p][*e].announced = true;
      }
      Ev::AddLocal(li) => {
        let (is_reader, topic, _) = local_plan[*li];
        if remotes.iter().flatten().any(|r| r.uncertain && r.in_db && r.is_reader != is_reader && r.topic == topic) {
          o.label("stopped-at-undefined-reappearance");
          break;
        }
        let mut l = make_local(&mut dp, my_prefix, *li, is_reader, topic);
        // every endpoint the DiscoveryDB holds on this topic, in GUID order
        let mut known: Vec<&REndpoint> = remotes.iter().flatten().filter(|r| r.in_db && matches(&l, r)).collect();
        known.sort_by_key(|r| r.guid);
        for r in known {
          if r.compatible {
            l.matched.insert(r.guid);
            expect[*li].push(Exp::Matched(r.guid));
            o.label("late-local-endpoint-matches-known-remote");
            nontrivial = true;
          } else {
            expect[*li].push(Exp::Incompatible(r.guid));
          }
        }
        o.label("late-local-endpoint");
        locals[*li] = Some(l);
      }
      Ev::EndpointDispose(p, e) => {
        let r = remotes[*p][*e].clone();
        if r.in_attic {
          // SEDP traffic of a participant that is considered lost is not processed
          // (its built-in writers are unmatched): this event cannot happen here
          o.label("dispose-while-in-attic-skipped");
          continue;
        }
        if r.is_reader {
          db.write().unwrap().remove_topic_reader(r.guid);
          dp.verif_remote_reader_lost(r.guid);
        } else {
          db.write().unwrap().remove_topic_writer(r.guid);
          dp.verif_remote_writer_lost(r.guid);
        }
        for (li, l) in locals.iter_mut().enumerate() {
          let Some(l) = l else { continue };
          if l.matched.remove(&r.guid) {
            expect[li].push(Exp::Unmatched(r.guid));
            unmatched_once.insert((li, r.guid));
          }
        }
        remotes[*p][*e].in_db = false;
        remotes[*p][*e].announced = false;
      }
      Ev::ParticipantDispose(p) | Ev::ParticipantTimeout(p) => {
        let prefix = rig::node_prefix(80 + *p as u8);
        let lost: bool = match ev {
          Ev::ParticipantDispose(_) => {
            db.write().unwrap().remove_participant(prefix, true);
            dp.verif_remote_participant_lost(prefix);
            o.label("participant-dispose");
            true
          }
          _ => {
            // silence beyond the lease, then the periodic clean-up as Discovery runs it
            if participant_known[*p] {
              // keep the others alive
              for (q, k) in participant_known.iter().enumerate() {
                if *k && q != *p {
                  hooks::instant_advance(StdDuration::from_micros(0));
                }
              }
              hooks::instant_advance(StdDuration::from_micros(lease_us + 1_000));
              for (q, k) in participant_known.iter().enumerate() {
                if *k && q != *p {
                  db.write().unwrap().participant_is_alive(rig::node_prefix(80 + q as u8));
                }
              }
            }
            let removed = db.write().unwrap().participant_cleanup();
            let mut hit = false;
            for (gp, _) in removed {
              dp.verif_remote_participant_lost(gp);
              if gp == prefix {
                hit = true;
              } else {
                o.violate("c11.wrong-participant-lost", "cleanup", format!("event {evno}: clean-up lost {gp:?} while only participant {p} was silent"));
                return o;
              }
            }
            if participant_known[*p] && !hit {
              o.violate("c11.timeout-not-detected", "cleanup", format!("event {evno}: participant {p} silent beyond its lease was not reported by participant_cleanup"));
              return o;
            }
            if hit {
              o.label("participant-timeout");
            }
            hit
          }
        };
        if lost {
          participant_known[*p] = false;
          for (li, l) in locals.iter_mut().enumerate() {
            let Some(l) = l else { continue };
            let mut n = 0;
            for r in remotes[*p].iter() {
              if l.matched.remove(&r.guid) {
                expect[li].push(Exp::Unmatched(r.guid));
                unmatched_once.insert((li, r.guid));
                n += 1;
              }
            }
            if n >= 2 {
              nontrivial = true;
              o.label("participant-loss-with-several-matches");
            }
          }
          let timed_out = matches!(ev, Ev::ParticipantTimeout(_));
          for r in remotes[*p].iter_mut() {
            if !timed_out && r.in_attic {
              r.uncertain = true;
            }
            if r.in_db && timed_out {
              r.in_attic = true;
            }
            r.in_db = false;
          }
          for r in remotes[*p].iter_mut() {
            r.announced = false;
          }
        }
      }
    }

    // ---- matched sets
    for (li, l) in locals.iter_mut().enumerate() {
      let Some(l) = l else { continue };
      let want: BTreeSet<GUID> = l.matched.clone();
      let got: BTreeSet<GUID> = if l.is_reader {
        match dp.verif_reader(l.eid) {
          Some(r) => r.verif_matched_writers().into_iter().collect(),
          None => {
            o.violate("c11.local-endpoint-vanished", "reader", format!("event {evno}: local reader {li} vanished"));
            return o;
          }
        }
      } else {
        match dp.verif_writer(l.eid) {
          Some(w) => w.verif_readers().into_iter().collect(),
          None => {
            o.violate("c11.local-endpoint-vanished", "writer", format!("event {evno}: local writer {li} vanished"));
            return o;
          }
        }
      };
      if got != want {
        let extra: Vec<_> = got.difference(&want).collect();
        let missing: Vec<_> = want.difference(&got).collect();
        o.violate(
          if !extra.is_empty() { "c11.matched-but-not-announced" } else { "c11.announced-but-not-matched" },
          match ev {
            Ev::ParticipantAnnounce(_) => "participant-announce",
            Ev::EndpointAnnounce(..) => "endpoint-announce",
            Ev::EndpointDispose(..) => "endpoint-dispose",
            Ev::ParticipantDispose(_) => "participant-dispose",
            Ev::ParticipantTimeout(_) => "participant-timeout",
            Ev::AddLocal(_) => "local-endpoint-created",
          },
          format!(
            "event {evno} {ev:?}: local {} {li} on topic {}: matched with {extra:?} that are not announced/compatible, not matched with {missing:?}",
            if l.is_reader { "reader" } else { "writer" },
            TOPICS[l.topic]
          ),
        );
        return o;
      }
      // ---- status events: exactly the expected ones, with consistent counts
      let mut evs_got: Vec<(&'static str, GUID, i32, i32, i32, i32)> = Vec::new(); // kind, remote, total, total change, current, current change
      if l.is_reader {
        while let Ok(s) = l.reader_status.as_ref().unwrap().try_recv() {
          match s {
            DataReaderStatus::SubscriptionMatched { total, current, writer } => {
              evs_got.push((if current.count_change() >= 0 { "matched" } else { "unmatched" }, writer, total.count(), total.count_change(), current.count(), current.count_change()))
            }
            DataReaderStatus::RequestedIncompatibleQos { count, writer, .. } => evs_got.push(("incompatible", writer, count.count(), count.count_change(), 0, 0)),
            _ => {}
          }
        }
      } else {
        while let Ok(s) = l.writer_status.as_ref().unwrap().try_recv() {
          match s {
            DataWriterStatus::PublicationMatched { total, current, reader } => {
              evs_got.push((if current.count_change() >= 0 { "matched" } else { "unmatched" }, reader, total.count(), total.count_change(), current.count(), current.count_change()))
            }
            DataWriterStatus::OfferedIncompatibleQos { count, reader, .. } => evs_got.push(("incompatible", reader, count.count(), count.count_change(), 0, 0)),
            _ => {}
          }
        }
      }
      let want_evs = &expect[li];
      if evs_got.len() != want_evs.len() {
        o.violate(
          if evs_got.len() > want_evs.len() { "c11.spurious-status-event" } else { "c11.missing-status-event" },
          if l.is_reader { "reader" } else { "writer" },
          format!("event {evno} {ev:?}: local endpoint {li} got status events {evs_got:?}, expected {want_evs:?}"),
        );
        return o;
      }
      // the current count after the whole event is the set size; walk the events
      let mut current_before = want.len() as i32
        - want_evs.iter().filter(|e| matches!(e, Exp::Matched(_))).count() as i32
        + want_evs.iter().filter(|e| matches!(e, Exp::Unmatched(_))).count() as i32;
      for (g, w) in evs_got.iter().zip(want_evs.iter()) {
        match w {
          Exp::Matched(guid) => {
            l.total += 1;
            current_before += 1;
            if g.0 != "matched" || g.1 != *guid || g.2 != l.total || g.3 != 1 || g.4 != current_before || g.5 != 1 {
              o.violate("c11.matched-event-counts", "matched", format!("event {evno}: local {li}: event {g:?}, expected matched {guid:?} total {} (+1) current {current_before} (+1)", l.total));
              return o;
            }
          }
          Exp::Unmatched(guid) => {
            current_before -= 1;
            // (participant loss removes endpoints in GUID order: accept any order of the same set)
            let ok_guid = want_evs.iter().any(|x| matches!(x, Exp::Unmatched(g2) if *g2 == g.1));
            if g.0 != "unmatched" || !ok_guid || g.2 != l.total || g.3 != 0 || g.4 != current_before || g.5 != -1 {
              o.violate("c11.unmatched-event-counts", "unmatched", format!("event {evno}: local {li}: event {g:?}, expected unmatched {guid:?} total {} (+0) current {current_before} (-1)", l.total));
              return o;
            }
          }
          Exp::Incompatible(guid) => {
            l.incompat += 1;
            if g.0 != "incompatible" || g.1 != *guid || g.2 != l.incompat || g.3 != 1 {
              o.violate("c11.incompatible-event-counts", "incompatible", format!("event {evno}: local {li}: event {g:?}, expected incompatible {guid:?} count {} (+1)", l.incompat));
              return o;
            }
          }
        }
      }
    }
  }
  while prx.try_recv().is_ok() {}
  o.nontrivial = nontrivial;
  o
}

//! The harness's own, independent RTPS wire codec (written from RTPS 2.5
//! chapter 9, not from the implementation): used to craft datagrams for the
//! rigs and to decode what RustDDS emits, so that an oracle never compares the
//! implementation only with itself.

use std::collections::BTreeSet;

pub const DATA: u8 = 0x15;
pub const DATA_FRAG: u8 = 0x16;
pub const GAP: u8 = 0x08;
pub const HEARTBEAT: u8 = 0x07;
pub const ACKNACK: u8 = 0x06;
pub const NACK_FRAG: u8 = 0x12;
pub const HEARTBEAT_FRAG: u8 = 0x13;
pub const INFO_TS: u8 = 0x09;
pub const INFO_DST: u8 = 0x0e;
pub const INFO_SRC: u8 = 0x0c;
pub const INFO_REPLY: u8 = 0x0f;
pub const PAD: u8 = 0x01;

pub const PID_SENTINEL: u16 = 0x0001;
pub const PID_KEY_HASH: u16 = 0x0070;
pub const PID_STATUS_INFO: u16 = 0x0071;

// ------------------------------------------------------------------ encoder

pub struct Enc {
  pub le: bool,
  pub buf: Vec<u8>,
}

impl Enc {
  pub fn new(le: bool) -> Self {
    Enc {
      le,
      buf: Vec::new(),
    }
  }
  pub fn u8(&mut self, v: u8) {
    self.buf.push(v);
  }
  pub fn u16(&mut self, v: u16) {
    if self.le {
      self.buf.extend_from_slice(&v.to_le_bytes());
    } else {
      self.buf.extend_from_slice(&v.to_be_bytes());
    }
  }
  pub fn u32(&mut self, v: u32) {
    if self.le {
      self.buf.extend_from_slice(&v.to_le_bytes());
    } else {
      self.buf.extend_from_slice(&v.to_be_bytes());
    }
  }
  pub fn i32(&mut self, v: i32) {
    self.u32(v as u32);
  }
  pub fn sn(&mut self, v: i64) {
    self.i32((v >> 32) as i32);
    self.u32(v as u32);
  }
  pub fn bytes(&mut self, b: &[u8]) {
    self.buf.extend_from_slice(b);
  }
  /// SequenceNumberSet with explicit numBits and words
  pub fn sn_set_raw(&mut self, base: i64, num_bits: u32, words: &[u32]) {
    self.sn(base);
    self.u32(num_bits);
    for w in words {
      self.u32(*w);
    }
  }
  pub fn fn_set_raw(&mut self, base: u32, num_bits: u32, words: &[u32]) {
    self.u32(base);
    self.u32(num_bits);
    for w in words {
      self.u32(*w);
    }
  }
}

/// bitmap words for `members` relative to `base` over `num_bits` bits (MSB first)
pub fn bitmap_words(base: i64, num_bits: u32, members: &BTreeSet<i64>) -> Vec<u32> {
  let mut words = vec![0u32; ((num_bits + 31) / 32) as usize];
  for m in members {
    let off = m - base;
    if off >= 0 && (off as u64) < u64::from(num_bits) {
      words[(off / 32) as usize] |= 1u32 << (31 - (off % 32));
    }
  }
  words
}

pub fn rtps_header(version: (u8, u8), vendor: [u8; 2], prefix: &[u8; 12]) -> Vec<u8> {
  let mut v = Vec::with_capacity(20);
  v.extend_from_slice(b"RTPS");
  v.push(version.0);
  v.push(version.1);
  v.extend_from_slice(&vendor);
  v.extend_from_slice(prefix);
  v
}

/// Append a submessage (header + body). `len_override` replaces octetsToNextHeader.
pub fn push_submessage(out: &mut Vec<u8>, kind: u8, flags: u8, body: &[u8], len_override: Option<u16>) {
  let le = flags & 1 == 1;
  out.push(kind);
  out.push(flags);
  let l = len_override.unwrap_or(body.len() as u16);
  if le {
    out.extend_from_slice(&l.to_le_bytes());
  } else {
    out.extend_from_slice(&l.to_be_bytes());
  }
  out.extend_from_slice(body);
}

pub fn param(e: &mut Enc, pid: u16, value: &[u8]) {
  let pad = (4 - value.len() % 4) % 4;
  e.u16(pid);
  e.u16((value.len() + pad) as u16);
  e.bytes(value);
  for _ in 0..pad {
    e.u8(0);
  }
}

pub fn sentinel(e: &mut Enc) {
  e.u16(PID_SENTINEL);
  e.u16(0);
}

#[derive(Clone, Debug, PartialEq, Eq)]
pub struct DataSpec {
  pub reader_id: [u8; 4],
  pub writer_id: [u8; 4],
  pub sn: i64,
  /// inline QoS parameters (pid, value); None = no InlineQos flag
  pub inline_qos: Option<Vec<(u16, Vec<u8>)>>,
  /// serialized payload incl. 4-byte encapsulation header
  pub payload: Option<Vec<u8>>,
  pub key_flag: bool,
}

pub fn data_body(le: bool, d: &DataSpec) -> (u8, Vec<u8>) {
  let mut e = Enc::new(le);
  e.u16(0);
  e.u16(16);
  e.bytes(&d.reader_id);
  e.bytes(&d.writer_id);
  e.sn(d.sn);
  let mut flags = u8::from(le);
  if let Some(q) = &d.inline_qos {
    flags |= 0x02;
    for (pid, v) in q {
      param(&mut e, *pid, v);
    }
    sentinel(&mut e);
  }
  if let Some(p) = &d.payload {
    flags |= if d.key_flag { 0x08 } else { 0x04 };
    e.bytes(p);
    while e.buf.len() % 4 != 0 {
      e.u8(0);
    }
  }
  (flags, e.buf)
}

#[derive(Clone, Debug, PartialEq, Eq)]
pub struct DataFragSpec {
  pub reader_id: [u8; 4],
  pub writer_id: [u8; 4],
  pub sn: i64,
  pub frag_start: u32,
  pub frags_in_submessage: u16,
  pub frag_size: u16,
  pub sample_size: u32,
  pub inline_qos: Option<Vec<(u16, Vec<u8>)>>,
  pub payload: Vec<u8>,
  pub key_flag: bool,
}

pub fn data_frag_body(le: bool, d: &DataFragSpec) -> (u8, Vec<u8>) {
  let mut e = Enc::new(le);
  e.u16(0);
  e.u16(28);
  e.bytes(&d.reader_id);
  e.bytes(&d.writer_id);
  e.sn(d.sn);
  e.u32(d.frag_start);
  e.u16(d.frags_in_submessage);
  e.u16(d.frag_size);
  e.u32(d.sample_size);
  let mut flags = u8::from(le);
  if let Some(q) = &d.inline_qos {
    flags |= 0x02;
    for (pid, v) in q {
      param(&mut e, *pid, v);
    }
    sentinel(&mut e);
  }
  if d.key_flag {
    flags |= 0x04;
  }
  e.bytes(&d.payload);
  (flags, e.buf)
}

pub fn heartbeat_body(
  le: bool,
  reader_id: [u8; 4],
  writer_id: [u8; 4],
  first: i64,
  last: i64,
  count: i32,
  final_flag: bool,
  liveliness: bool,
) -> (u8, Vec<u8>) {
  let mut e = Enc::new(le);
  e.bytes(&reader_id);
  e.bytes(&writer_id);
  e.sn(first);
  e.sn(last);
  e.i32(count);
  let mut flags = u8::from(le);
  if final_flag {
    flags |= 0x02;
  }
  if liveliness {
    flags |= 0x04;
  }
  (flags, e.buf)
}

pub fn gap_body(
  le: bool,
  reader_id: [u8; 4],
  writer_id: [u8; 4],
  gap_start: i64,
  list_base: i64,
  num_bits: u32,
  words: &[u32],
) -> (u8, Vec<u8>) {
  let mut e = Enc::new(le);
  e.bytes(&reader_id);
  e.bytes(&writer_id);
  e.sn(gap_start);
  e.sn_set_raw(list_base, num_bits, words);
  (u8::from(le), e.buf)
}

pub fn acknack_body(
  le: bool,
  reader_id: [u8; 4],
  writer_id: [u8; 4],
  base: i64,
  num_bits: u32,
  words: &[u32],
  count: i32,
  final_flag: bool,
) -> (u8, Vec<u8>) {
  let mut e = Enc::new(le);
  e.bytes(&reader_id);
  e.bytes(&writer_id);
  e.sn_set_raw(base, num_bits, words);
  e.i32(count);
  (u8::from(le) | if final_flag { 2 } else { 0 }, e.buf)
}

pub fn nackfrag_body(
  le: bool,
  reader_id: [u8; 4],
  writer_id: [u8; 4],
  sn: i64,
  base: u32,
  num_bits: u32,
  words: &[u32],
  count: i32,
) -> (u8, Vec<u8>) {
  let mut e = Enc::new(le);
  e.bytes(&reader_id);
  e.bytes(&writer_id);
  e.sn(sn);
  e.fn_set_raw(base, num_bits, words);
  e.i32(count);
  (u8::from(le), e.buf)
}

pub fn info_ts_body(le: bool, ts: Option<(u32, u32)>) -> (u8, Vec<u8>) {
  let mut e = Enc::new(le);
  match ts {
    Some((s, f)) => {
      e.u32(s);
      e.u32(f);
      (u8::from(le), e.buf)
    }
    None => (u8::from(le) | 2, e.buf),
  }
}

pub fn info_dst_body(le: bool, prefix: &[u8; 12]) -> (u8, Vec<u8>) {
  (u8::from(le), prefix.to_vec())
}

// ------------------------------------------------------------------ decoder

pub struct Dec<'a> {
  pub le: bool,
  pub b: &'a [u8],
  pub pos: usize,
}

impl<'a> Dec<'a> {
  pub fn new(le: bool, b: &'a [u8]) -> Self {
    Dec { le, b, pos: 0 }
  }
  pub fn remaining(&self) -> usize {
    self.b.len().saturating_sub(self.pos)
  }
  pub fn take(&mut self, n: usize) -> Result<&'a [u8], String> {
    if self.pos + n > self.b.len() {
      return Err(format!(
        "short read: need {n} at {} of {}",
        self.pos,
        self.b.len()
      ));
    }
    let s = &self.b[self.pos..self.pos + n];
    self.pos += n;
    Ok(s)
  }
  pub fn u8(&mut self) -> Result<u8, String> {
    Ok(self.take(1)?[0])
  }
  pub fn u16(&mut self) -> Result<u16, String> {
    let s = self.take(2)?;
    Ok(if self.le {
      u16::from_le_bytes([s[0], s[1]])
    } else {
      u16::from_be_bytes([s[0], s[1]])
    })
  }
  pub fn u32(&mut self) -> Result<u32, String> {
    let s = self.take(4)?;
    let a = [s[0], s[1], s[2], s[3]];
    Ok(if self.le {
      u32::from_le_bytes(a)
    } else {
      u32::from_be_bytes(a)
    })
  }
  pub fn i32(&mut self) -> Result<i32, String> {
    Ok(self.u32()? as i32)
  }
  pub fn sn(&mut self) -> Result<i64, String> {
    let hi = self.i32()?;
    let lo = self.u32()?;
    Ok((i64::from(hi) << 32) + i64::from(lo))
  }
  pub fn id4(&mut self) -> Result<[u8; 4], String> {
    let s = self.take(4)?;
    Ok([s[0], s[1], s[2], s[3]])
  }
}

#[derive(Clone, Debug, PartialEq, Eq)]
pub struct RawSub {
  pub kind: u8,
  pub flags: u8,
  pub len_field: u16,
  pub offset: usize,
  pub body: Vec<u8>,
}

impl RawSub {
  pub fn le(&self) -> bool {
    self.flags & 1 == 1
  }
}

#[derive(Clone, Debug, PartialEq, Eq)]
pub struct RawHeader {
  pub version: (u8, u8),
  pub vendor: [u8; 2],
  pub prefix: [u8; 12],
}

/// Strict framing walk using only octetsToNextHeader, as another
/// implementation would skip through the message.
pub fn walk(bytes: &[u8]) -> Result<(RawHeader, Vec<RawSub>), String> {
  if bytes.len() < 20 {
    return Err("shorter than RTPS header".into());
  }
  if &bytes[0..4] != b"RTPS" {
    return Err("no RTPS magic".into());
  }
  let mut prefix = [0u8; 12];
  prefix.copy_from_slice(&bytes[8..20]);
  let h = RawHeader {
    version: (bytes[4], bytes[5]),
    vendor: [bytes[6], bytes[7]],
    prefix,
  };
  let mut subs = Vec::new();
  let mut pos = 20;
  while pos < bytes.len() {
    if pos + 4 > bytes.len() {
      return Err(format!("truncated submessage header at {pos}"));
    }
    let kind = bytes[pos];
    let flags = bytes[pos + 1];
    let l = if flags & 1 == 1 {
      u16::from_le_bytes([bytes[pos + 2], bytes[pos + 3]])
    } else {
      u16::from_be_bytes([bytes[pos + 2], bytes[pos + 3]])
    };
    let body_len = if l == 0 && kind != PAD && kind != INFO_TS {
      bytes.len() - pos - 4
    } else {
      l as usize
    };
    if pos + 4 + body_len > bytes.len() {
      return Err(format!(
        "submessage 0x{kind:02x} at {pos} declares {body_len} bytes but only {} remain",
        bytes.len() - pos - 4
      ));
    }
    subs.push(RawSub {
      kind,
      flags,
      len_field: l,
      offset: pos,
      body: bytes[pos + 4..pos + 4 + body_len].to_vec(),
    });
    pos += 4 + body_len;
  }
  Ok((h, subs))
}

#[derive(Clone, Debug, PartialEq, Eq)]
pub struct NumSet {
  pub base: i64,
  pub num_bits: u32,
  pub words: Vec<u32>,
}

impl NumSet {
  /// canonical form: numBits = offset of the highest member + 1 (membership and
  /// base are what a number set means; numBits itself is not prescribed)
  pub fn canon(&self) -> NumSet {
    let m = self.members();
    let num_bits = m.iter().next_back().map(|x| (x - self.base + 1) as u32).unwrap_or(0);
    NumSet {
      base: self.base,
      num_bits,
      words: bitmap_words(self.base, num_bits, &m),
    }
  }
  pub fn members(&self) -> BTreeSet<i64> {
    let mut s = BTreeSet::new();
    for i in 0..self.num_bits.min(self.words.len() as u32 * 32) {
      if self.words[(i / 32) as usize] & (1u32 << (31 - (i % 32))) != 0 {
        s.insert(self.base + i64::from(i));
      }
    }
    s
  }
}

#[derive(Clone, Debug, PartialEq, Eq)]
pub enum Decoded {
  Data {
    reader_id: [u8; 4],
    writer_id: [u8; 4],
    sn: i64,
    inline_qos: Option<Vec<(u16, Vec<u8>)>>,
    payload: Option<Vec<u8>>,
    data_flag: bool,
    key_flag: bool,
  },
  DataFrag {
    reader_id: [u8; 4],
    writer_id: [u8; 4],
    sn: i64,
    frag_start: u32,
    frags_in_submessage: u16,
    frag_size: u16,
    sample_size: u32,
    inline_qos: Option<Vec<(u16, Vec<u8>)>>,
    payload: Vec<u8>,
    key_flag: bool,
  },
  Gap {
    reader_id: [u8; 4],
    writer_id: [u8; 4],
    gap_start: i64,
    list: NumSet,
  },
  Heartbeat {
    reader_id: [u8; 4],
    writer_id: [u8; 4],
    first: i64,
    last: i64,
    count: i32,
    final_flag: bool,
    liveliness: bool,
  },
  HeartbeatFrag {
    reader_id: [u8; 4],
    writer_id: [u8; 4],
    sn: i64,
    last_frag: u32,
    count: i32,
  },
  AckNack {
    reader_id: [u8; 4],
    writer_id: [u8; 4],
    set: NumSet,
    count: i32,
    final_flag: bool,
  },
  NackFrag {
    reader_id: [u8; 4],
    writer_id: [u8; 4],
    sn: i64,
    set: NumSet,
    count: i32,
  },
  InfoTs(Option<(u32, u32)>),
  InfoDst([u8; 12]),
  InfoSrc {
    version: (u8, u8),
    vendor: [u8; 2],
    prefix: [u8; 12],
  },
  Other(u8),
}

fn read_params(d: &mut Dec) -> Result<Vec<(u16, Vec<u8>)>, String> {
  let mut v = Vec::new();
  loop {
    let pid = d.u16()?;
    let len = d.u16()? as usize;
    if pid == PID_SENTINEL {
      return Ok(v);
    }
    v.push((pid, d.take(len)?.to_vec()));
  }
}

fn read_sn_set(d: &mut Dec) -> Result<NumSet, String> {
  let base = d.sn()?;
  let num_bits = d.u32()?;
  if num_bits > 256 {
    return Err(format!("numBits {num_bits} > 256"));
  }
  let mut words = Vec::new();
  for _ in 0..(num_bits + 31) / 32 {
    words.push(d.u32()?);
  }
  Ok(NumSet {
    base,
    num_bits,
    words,
  })
}

fn read_fn_set(d: &mut Dec) -> Result<NumSet, String> {
  let base = i64::from(d.u32()?);
  let num_bits = d.u32()?;
  if num_bits > 256 {
    return Err(format!("numBits {num_bits} > 256"));
  }
  let mut words = Vec::new();
  for _ in 0..(num_bits + 31) / 32 {
    words.push(d.u32()?);
  }
  Ok(NumSet {
    base,
    num_bits,
    words,
  })
}

/// Decode one submessage body. `strict_end` demands that the body is consumed
/// exactly (used for what RustDDS emits).
pub fn decode(s: &RawSub, strict_end: bool) -> Result<Decoded, String> {
  let mut d = Dec::new(s.le(), &s.body);
  let r = match s.kind {
    DATA => {
      let _extra = d.u16()?;
      let otq = d.u16()? as usize;
      let reader_id = d.id4()?;
      let writer_id = d.id4()?;
      let sn = d.sn()?;
      if otq < 16 {
        return Err("octetsToInlineQos < 16".into());
      }
      d.take(otq - 16)?;
      let inline_qos = if s.flags & 0x02 != 0 {
        Some(read_params(&mut d)?)
      } else {
        None
      };
      let data_flag = s.flags & 0x04 != 0;
      let key_flag = s.flags & 0x08 != 0;
      let payload = if data_flag || key_flag {
        let n = d.remaining();
        Some(d.take(n)?.to_vec())
      } else {
        None
      };
      Decoded::Data {
        reader_id,
        writer_id,
        sn,
        inline_qos,
        payload,
        data_flag,
        key_flag,
      }
    }
    DATA_FRAG => {
      let _extra = d.u16()?;
      let otq = d.u16()? as usize;
      let reader_id = d.id4()?;
      let writer_id = d.id4()?;
      let sn = d.sn()?;
      let frag_start = d.u32()?;
      let frags_in_submessage = d.u16()?;
      let frag_size = d.u16()?;
      let sample_size = d.u32()?;
      if otq < 28 {
        return Err("octetsToInlineQos < 28".into());
      }
      d.take(otq - 28)?;
      let inline_qos = if s.flags & 0x02 != 0 {
        Some(read_params(&mut d)?)
      } else {
        None
      };
      let n = d.remaining();
      let payload = d.take(n)?.to_vec();
      Decoded::DataFrag {
        reader_id,
        writer_id,
        sn,
        frag_start,
        frags_in_submessage,
        frag_size,
        sample_size,
        inline_qos,
        payload,
        key_flag: s.flags & 0x04 != 0,
      }
    }
    GAP => Decoded::Gap {
      reader_id: d.id4()?,
      writer_id: d.id4()?,
      gap_start: d.sn()?,
      list: read_sn_set(&mut d)?,
    },
    HEARTBEAT => Decoded::Heartbeat {
      reader_id: d.id4()?,
      writer_id: d.id4()?,
      first: d.sn()?,
      last: d.sn()?,
      count: d.i32()?,
      final_flag: s.flags & 0x02 != 0,
      liveliness: s.flags & 0x04 != 0,
    },
    HEARTBEAT_FRAG => Decoded::HeartbeatFrag {
      reader_id: d.id4()?,
      writer_id: d.id4()?,
      sn: d.sn()?,
      last_frag: d.u32()?,
      count: d.i32()?,
    },
    ACKNACK => Decoded::AckNack {
      reader_id: d.id4()?,
      writer_id: d.id4()?,
      set: read_sn_set(&mut d)?,
      count: d.i32()?,
      final_flag: s.flags & 0x02 != 0,
    },
    NACK_FRAG => Decoded::NackFrag {
      reader_id: d.id4()?,
      writer_id: d.id4()?,
      sn: d.sn()?,
      set: read_fn_set(&mut d)?,
      count: d.i32()?,
    },
    INFO_TS => {
      if s.flags & 0x02 != 0 {
        Decoded::InfoTs(None)
      } else {
        Decoded::InfoTs(Some((d.u32()?, d.u32()?)))
      }
    }
    INFO_DST => {
      let mut p = [0u8; 12];
      p.copy_from_slice(d.take(12)?);
      Decoded::InfoDst(p)
    }
    INFO_SRC => {
      let _unused = d.u32()?;
      let version = (d.u8()?, d.u8()?);
      let vendor = [d.u8()?, d.u8()?];
      let mut p = [0u8; 12];
      p.copy_from_slice(d.take(12)?);
      Decoded::InfoSrc {
        version,
        vendor,
        prefix: p,
      }
    }
    k => {
      return Ok(Decoded::Other(k));
    }
  };
  if strict_end && d.remaining() != 0 {
    return Err(format!(
      "submessage 0x{:02x}: {} undecoded trailing bytes (header length disagrees with content)",
      s.kind,
      d.remaining()
    ));
  }
  Ok(r)
}

impl Decoded {
  /// number sets brought to canonical form
  pub fn canon(&self) -> Decoded {
    let mut d = self.clone();
    match &mut d {
      Decoded::Gap { list, .. } => *list = list.canon(),
      Decoded::AckNack { set, .. } | Decoded::NackFrag { set, .. } => *set = set.canon(),
      _ => {}
    }
    d
  }
}

/// Convenience: decode a whole datagram independently.
pub fn decode_datagram(bytes: &[u8], strict: bool) -> Result<(RawHeader, Vec<(RawSub, Decoded)>), String> {
  let (h, subs) = walk(bytes)?;
  let mut out = Vec::new();
  for s in subs {
    let d = decode(&s, strict)?;
    out.push((s, d));
  }
  Ok((h, out))
}

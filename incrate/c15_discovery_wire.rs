//! C15 — discovery data and QoS survive the wire and tolerate unknown parameters.
//!
//! Values of the discovery types with every optional field independently present
//! or absent are serialised (PL_CDR_LE / PL_CDR_BE) and parsed back. Metamorphic
//! variants of the wire form: foreign parameters inserted, parameter order
//! permuted, optional parameters deleted (must yield the default).

use std::collections::BTreeMap;

use bytes::Bytes;
use chrono::Utc;

use super::{c10_qos, fnv, hex, wire, Choices, Outcome, Property, Scenario, Verdict};
use crate::{
  dds::qos::{policy, QosPolicies},
  discovery::{
    builtin_endpoint::{BuiltinEndpointQos, BuiltinEndpointSet},
    content_filter_property::ContentFilterProperty,
    sedp_messages::{
      DiscoveredReaderData, DiscoveredTopicData, DiscoveredWriterData, ParticipantMessageData,
      ParticipantMessageDataKind, PublicationBuiltinTopicData, ReaderProxy, SubscriptionBuiltinTopicData,
      TopicBuiltinTopicData, WriterProxy,
    },
    spdp_participant_data::SpdpDiscoveredParticipantData,
  },
  messages::{protocol_version::ProtocolVersion, vendor_id::VendorId},
  serialization::pl_cdr_adapters::{PlCdrDeserialize, PlCdrSerialize},
  structure::{
    duration::Duration,
    guid::{EntityId, EntityKind, GuidPrefix, GUID},
    locator::Locator,
  },
  RepresentationIdentifier,
};

pub fn property() -> Property {
  Property {
    id: "C15",
    level: "exploration",
    rule: "values of SpdpDiscoveredParticipantData, DiscoveredReaderData, DiscoveredWriterData, \
           DiscoveredTopicData, ParticipantMessageData and QosPolicies decoded from a choice stream: \
           every optional field independently present or absent, 0-3 locators per list (UDPv4, \
           UDPv6, other kinds), strings of length 0-9, all enum values, durations incl. INFINITE; \
           PL_CDR_LE / PL_CDR_BE. Wire-form variants: 1-5 foreign parameters (unknown standard PIDs, \
           vendor-specific PIDs, lengths 0-24) inserted anywhere; parameter order permuted (order \
           within one PID kept); one optional parameter deleted. Non-trivial = >= 3 optional fields \
           present and >= 1 absent, or >= 1 foreign parameter inserted, or a deletion. Distinct = \
           distinct serialised forms.",
    assumptions: &[
      "updated_time / last_updated are receive metadata and are not compared",
      "an unknown parameter with the must-understand bit (0x4000) set may be rejected or skipped (RTPS allows discarding); it must never change a known field",
      "an absent lease duration / QoS policy decodes to None (the representation of 'use the default')",
      "History and ResourceLimits are not part of publication/subscription data on the wire; they are generated only for topic data and QosPolicies",
    ],
    scenarios: &[
      Scenario {
        id: 0,
        name: "round trip + foreign parameters + permutation + deletion",
        quick: 8_000,
        thorough: 8_000_000,
        max_len: 400,
        max_threads: 0,
      },
      Scenario {
        id: 1,
        name: "arbitrary parameter-list bytes: parse, re-serialise, re-parse is stable",
        quick: 4_000,
        thorough: 4_000_000,
        max_len: 300,
        max_threads: 0,
      },
      Scenario {
        id: 2,
        name: "ParticipantMessageData (CDR, both byte orders) and QosPolicies (parameter list) round trips",
        quick: 6_000,
        thorough: 5_000_000,
        max_len: 120,
        max_threads: 0,
      },
    ],
    run,
    exhaustive: None,
  }
}

fn scenario_small(c: &mut Choices, o: &mut Outcome) {
  use byteorder::{BigEndian, LittleEndian};

  use crate::{
    dds::adapters::no_key::{DeserializerAdapter, SerializerAdapter},
    messages::submessages::elements::parameter::Parameter,
    serialization::{CDRDeserializerAdapter, CDRSerializerAdapter},
    structure::parameter_id::ParameterId,
  };
  if c.bool() {
    // ParticipantMessageData travels as plain CDR
    let kind = [
      ParticipantMessageDataKind::UNKNOWN,
      ParticipantMessageDataKind::AUTOMATIC_LIVELINESS_UPDATE,
      ParticipantMessageDataKind::MANUAL_LIVELINESS_UPDATE,
    ][c.pick(3)];
    let n = [0usize, 0, 1, 3, 4, 9][c.pick(6)];
    let v = ParticipantMessageData {
      guid: GuidPrefix::new(&c.bytes(12)),
      kind,
      data: c.bytes(n),
    };
    let be = c.bool();
    o.label("participant-message-data");
    o.label(if be { "CDR_BE" } else { "CDR_LE" });
    o.sample = format!("{v:?} be={be}");
    o.digest = fnv(o.sample.as_bytes());
    o.nontrivial = n > 0;
    let bytes = if be {
      CDRSerializerAdapter::<ParticipantMessageData, BigEndian>::to_bytes(&v)
    } else {
      CDRSerializerAdapter::<ParticipantMessageData, LittleEndian>::to_bytes(&v)
    };
    let bytes = match bytes {
      Ok(b) => b,
      Err(e) => {
        o.violate("c15.serialize-error", "participant-message-data", format!("{e:?}"));
        return;
      }
    };
    let rep = if be { RepresentationIdentifier::CDR_BE } else { RepresentationIdentifier::CDR_LE };
    match CDRDeserializerAdapter::<ParticipantMessageData>::from_bytes(&bytes, rep) {
      Ok(back) => {
        if back != v {
          o.violate("c15.roundtrip", "participant-message-data", format!("{v:?} came back as {back:?}"));
        }
      }
      Err(e) => o.violate("c15.roundtrip-parse-error", "participant-message-data", format!("{e:?}; bytes={}", hex(&bytes))),
    }
  } else {
    let q = c10_qos::gen_qos(c, true);
    let e = if c.bool() { speedy::Endianness::BigEndian } else { speedy::Endianness::LittleEndian };
    o.label("qos-policies");
    o.sample = format!("{q:?} {e:?}");
    o.digest = fnv(o.sample.as_bytes());
    o.nontrivial = q != QosPolicies::qos_none();
    let pl: Vec<Parameter> = match q.to_parameter_list(e) {
      Ok(p) => p,
      Err(err) => {
        o.violate("c15.serialize-error", "qos", format!("{err:?}"));
        return;
      }
    };
    let mut map: BTreeMap<ParameterId, Vec<&Parameter>> = BTreeMap::new();
    for p in &pl {
      map.entry(p.parameter_id).or_default().push(p);
    }
    match QosPolicies::from_parameter_list(e, &map) {
      Ok(back) => {
        if back != q {
          o.violate("c15.roundtrip", "qos", diff(&format!("{q:?}"), &format!("{back:?}")));
        }
      }
      Err(err) => o.violate("c15.roundtrip-parse-error", "qos", format!("{err:?}")),
    }
  }
}

fn gen_string(c: &mut Choices) -> String {
  let n = c.pick(10);
  // mostly letters; now and then a character that takes 2, 3 or 4 bytes in UTF-8 (the CDR length
  // prefix counts bytes, not characters)
  const WIDE: [char; 8] = ['é', 'ü', 'ß', 'Ω', '温', '度', '€', '😀'];
  (0..n)
    .map(|i| {
      let b = c.byte() as usize;
      if b >= 232 {
        WIDE[(b - 232) % 8]
      } else {
        (b'a' + ((b + i) % 26) as u8) as char
      }
    })
    .collect()
}

fn gen_nonempty_string(c: &mut Choices) -> String {
  let mut s = gen_string(c);
  if s.is_empty() {
    s.push('t');
  }
  s
}

fn gen_locator(c: &mut Choices) -> Locator {
  use std::net::{Ipv4Addr, Ipv6Addr, SocketAddrV4, SocketAddrV6};
  // ports and addresses from boundary pools as well as arbitrary ones: the wire format carries
  // any 32-bit port and any 16 address bytes
  let port = |c: &mut Choices| -> u16 {
    match c.pick(6) {
      0 => 0,
      1 => 1,
      2 => 65535,
      3 => 7400 + u16::from(c.byte()),
      _ => c.u16(),
    }
  };
  match c.pick(6) {
    0 | 1 => {
      let a = match c.pick(8) {
        0 => Ipv4Addr::new(0, 0, 0, 0),
        1 => Ipv4Addr::new(255, 255, 255, 255),
        2 => Ipv4Addr::new(127, 0, 0, 1),
        3 => Ipv4Addr::new(239, 255, 0, 1),
        4 => Ipv4Addr::new(c.byte(), c.byte(), c.byte(), c.byte()),
        _ => Ipv4Addr::new(10, c.byte(), c.byte(), 1 + c.byte() % 250),
      };
      Locator::UdpV4(SocketAddrV4::new(a, port(c)))
    }
    2 | 3 => {
      let a = match c.pick(6) {
        0 => Ipv6Addr::UNSPECIFIED,
        1 => Ipv6Addr::LOCALHOST,
        2 => Ipv6Addr::new(0xff02, 0, 0, 0, 0, 0, 0, 1),
        3 => Ipv6Addr::new(c.u16(), c.u16(), c.u16(), c.u16(), c.u16(), c.u16(), c.u16(), c.u16()),
        // an IPv4-mapped address
        4 => Ipv6Addr::new(0, 0, 0, 0, 0, 0xffff, c.u16(), c.u16()),
        _ => Ipv6Addr::new(0xfe80, 0, 0, 0, u16::from(c.byte()), 1, 2, 3),
      };
      Locator::UdpV6(SocketAddrV6::new(a, port(c), 0, 0))
    }
    4 => match c.pick(3) {
      0 => Locator::Invalid,
      1 => Locator::Reserved,
      _ => Locator::Other {
        kind: [0x0100_0000i32, 3, 16, -2, i32::MAX][c.pick(5)],
        port: [0u32, 1, 65535, 65536, u32::MAX][c.pick(5)],
        address: [if c.bool() { 0u8 } else { 0xff }; 16],
      },
    },
    _ => Locator::Other {
      kind: 0x0100_0000 + i32::from(c.byte()),
      port: c.u32(),
      address: {
        let mut a = [0u8; 16];
        for x in a.iter_mut() {
          *x = c.byte();
        }
        a
      },
    },
  }
}

fn gen_locators(c: &mut Choices) -> Vec<Locator> {
  (0..c.pick(4)).map(|_| gen_locator(c)).collect()
}

fn gen_guid(c: &mut Choices) -> GUID {
  GUID::new(
    GuidPrefix::new(&c.bytes(12)),
    EntityId::new([c.byte(), c.byte(), c.byte()], EntityKind::from(c.byte())),
  )
}

/// QoS as carried by publication / subscription data (no history, no resource limits)
fn gen_endpoint_qos(c: &mut Choices) -> QosPolicies {
  let mut q = c10_qos::gen_qos(c, true);
  q.history = None;
  q.resource_limits = None;
  q
}

#[derive(Clone, Debug, PartialEq)]
enum Value {
  Spdp(Box<SpdpDiscoveredParticipantData>),
  Reader(Box<DiscoveredReaderData>),
  Writer(Box<DiscoveredWriterData>),
  Topic(Box<DiscoveredTopicData>),
}

fn gen_value(c: &mut Choices) -> (Value, u32, u32) {
  // returns (value, optional fields present, optional fields absent)
  let mut present = 0;
  let mut absent = 0;
  let mut opt = |c: &mut Choices| {
    if c.bool() {
      present += 1;
      true
    } else {
      absent += 1;
      false
    }
  };
  let v = match c.pick(4) {
    0 => {
      let lease = if opt(c) {
        Some(match c.pick(8) {
          0 => Duration::from_secs(1),
          1 => Duration::from_millis(250),
          2 => Duration::from_secs(100),
          3 => Duration::INFINITE,
          4 => Duration::ZERO,
          5 => Duration::from_secs(i32::MAX),
          // any seconds / fraction pair the wire format can carry
          6 => {
            use speedy::Readable;
            let mut b = (c.u32() & 0x7fff_ffff).to_le_bytes().to_vec();
            b.extend_from_slice(&c.u32().to_le_bytes());
            Duration::read_from_buffer_with_ctx(speedy::Endianness::LittleEndian, &b).unwrap_or(Duration::ZERO)
          }
          _ => Duration::from_nanos(i64::from(c.u32()) * 1000 + 1),
        })
      } else {
        None
      };
      let beq = if opt(c) { {
        // private field: build it through its own (derived) wire format
        use speedy::Readable;
        Some(BuiltinEndpointQos::read_from_buffer(&(c.pick(2) as u32).to_le_bytes()).unwrap())
      } } else { None };
      let name = if opt(c) { Some(gen_string(c)) } else { None };
      Value::Spdp(Box::new(SpdpDiscoveredParticipantData {
        updated_time: Utc::now(),
        protocol_version: if c.chance(40) { ProtocolVersion { major: c.byte(), minor: c.byte() } } else { ProtocolVersion { major: 2, minor: c.pick(6) as u8 } },
        vendor_id: if c.chance(40) { VendorId { vendor_id: [c.byte(), c.byte()] } } else { VendorId { vendor_id: [1, c.byte()] } },
        expects_inline_qos: c.bool(),
        participant_guid: GUID::new(GuidPrefix::new(&c.bytes(12)), EntityId::PARTICIPANT),
        metatraffic_unicast_locators: gen_locators(c),
        metatraffic_multicast_locators: gen_locators(c),
        default_unicast_locators: gen_locators(c),
        default_multicast_locators: gen_locators(c),
        available_builtin_endpoints: BuiltinEndpointSet::from_u32(c.u32()),
        lease_duration: lease,
        manual_liveliness_count: [0i32, 1, -1, i32::MAX, i32::MIN, c.int_in(0, 1000) as i32, c.u32() as i32][c.pick(7)],
        builtin_endpoint_qos: beq,
        entity_name: name,
        #[cfg(feature = "security")]
        identity_token: None,
        #[cfg(feature = "security")]
        permissions_token: None,
        #[cfg(feature = "security")]
        property: None,
        #[cfg(feature = "security")]
        security_info: None,
      }))
    }
    1 => {
      let guid = gen_guid(c);
      let q = gen_endpoint_qos(c);
      let pk = if opt(c) { Some(gen_guid(c)) } else { None };
      let cf = if opt(c) {
        Some(ContentFilterProperty {
          content_filtered_topic_name: gen_nonempty_string(c),
          related_topic_name: gen_nonempty_string(c),
          filter_class_name: gen_nonempty_string(c),
          filter_expression: gen_string(c),
          expression_parameters: (0..[0usize, 1, 2, 3, 3, 4, 5, 7][c.pick(8)]).map(|_| gen_string(c)).collect(),
        })
      } else {
        None
      };
      Value::Reader(Box::new(DiscoveredReaderData {
        reader_proxy: ReaderProxy::new(guid, c.bool(), gen_locators(c), gen_locators(c)),
        subscription_topic_data: SubscriptionBuiltinTopicData::new(guid, pk, gen_nonempty_string(c), gen_nonempty_string(c), &q, None),
        content_filter: cf,
      }))
    }
    2 => {
      let guid = gen_guid(c);
      let q = gen_endpoint_qos(c);
      let pk = if opt(c) { Some(gen_guid(c)) } else { None };
      let mut wp = WriterProxy::new(guid, gen_locators(c), gen_locators(c));
      wp.data_max_size_serialized = if opt(c) { Some(c.u32()) } else { None };
      let mut ptd = PublicationBuiltinTopicData::new_with_qos(guid, pk, gen_nonempty_string(c), gen_nonempty_string(c), &q, None);
      if c.chance(40) {
        ptd.service_instance_name = Some(gen_string(c));
        present += 1;
      }
      if c.chance(40) {
        ptd.related_datareader_key = Some(gen_guid(c));
        present += 1;
      }
      if c.chance(40) {
        ptd.topic_aliases = Some((0..1 + c.pick(2)).map(|_| gen_string(c)).collect());
        present += 1;
      }
      Value::Writer(Box::new(DiscoveredWriterData {
        last_updated: std::time::Instant::now(),
        writer_proxy: wp,
        publication_topic_data: ptd,
      }))
    }
    _ => {
      let q = c10_qos::gen_qos(c, true);
      let key = if opt(c) { Some(gen_guid(c)) } else { None };
      Value::Topic(Box::new(DiscoveredTopicData::new(
        Utc::now(),
        TopicBuiltinTopicData::new(key, gen_nonempty_string(c), gen_nonempty_string(c), &q),
      )))
    }
  };
  // QoS policies count as optional fields too
  let q = match &v {
    Value::Reader(r) => Some(r.subscription_topic_data.qos()),
    Value::Writer(w) => Some(w.publication_topic_data.qos()),
    _ => None,
  };
  if let Some(q) = q {
    for p in [q.durability.is_some(), q.deadline.is_some(), q.latency_budget.is_some(), q.liveliness.is_some(), q.reliability.is_some(), q.ownership.is_some(), q.destination_order.is_some(), q.presentation.is_some(), q.lifespan.is_some(), q.time_based_filter.is_some()] {
      if p {
        present += 1;
      } else {
        absent += 1;
      }
    }
  }
  (v, present, absent)
}

fn serialize(v: &Value, rep: RepresentationIdentifier) -> Result<Bytes, String> {
  match v {
    Value::Spdp(x) => x.to_pl_cdr_bytes(rep),
    Value::Reader(x) => x.to_pl_cdr_bytes(rep),
    Value::Writer(x) => x.to_pl_cdr_bytes(rep),
    Value::Topic(x) => x.to_pl_cdr_bytes(rep),
  }
  .map_err(|e| format!("{e:?}"))
}

fn parse_like(v: &Value, bytes: &[u8], rep: RepresentationIdentifier) -> Result<Value, String> {
  match v {
    Value::Spdp(_) => SpdpDiscoveredParticipantData::from_pl_cdr_bytes(bytes, rep).map(|x| Value::Spdp(Box::new(x))),
    Value::Reader(_) => DiscoveredReaderData::from_pl_cdr_bytes(bytes, rep).map(|x| Value::Reader(Box::new(x))),
    Value::Writer(_) => DiscoveredWriterData::from_pl_cdr_bytes(bytes, rep).map(|x| Value::Writer(Box::new(x))),
    Value::Topic(_) => DiscoveredTopicData::from_pl_cdr_bytes(bytes, rep).map(|x| Value::Topic(Box::new(x))),
  }
  .map_err(|e| format!("{e:?}"))
}

/// equality modulo receive metadata
fn same(a: &Value, b: &Value) -> Result<(), String> {
  match (a, b) {
    (Value::Spdp(x), Value::Spdp(y)) => {
      let mut y2 = (**y).clone();
      y2.updated_time = x.updated_time;
      if **x == y2 {
        Ok(())
      } else {
        Err(diff(&format!("{x:?}"), &format!("{y2:?}")))
      }
    }
    (Value::Reader(x), Value::Reader(y)) => {
      if x == y {
        Ok(())
      } else {
        Err(diff(&format!("{x:?}"), &format!("{y:?}")))
      }
    }
    (Value::Writer(x), Value::Writer(y)) => {
      if x.writer_proxy == y.writer_proxy && x.publication_topic_data == y.publication_topic_data {
        Ok(())
      } else {
        Err(diff(
          &format!("{:?} {:?}", x.writer_proxy, x.publication_topic_data),
          &format!("{:?} {:?}", y.writer_proxy, y.publication_topic_data),
        ))
      }
    }
    (Value::Topic(x), Value::Topic(y)) => {
      if x.topic_data == y.topic_data {
        Ok(())
      } else {
        Err(diff(&format!("{:?}", x.topic_data), &format!("{:?}", y.topic_data)))
      }
    }
    _ => Err("different kinds".into()),
  }
}

fn diff(a: &str, b: &str) -> String {
  let pos = a.bytes().zip(b.bytes()).position(|(x, y)| x != y).unwrap_or(a.len().min(b.len()));
  let from = pos.saturating_sub(60);
  format!(
    "first difference at char {pos}: original ...{}... decoded ...{}...",
    &a[from..(pos + 80).min(a.len())],
    &b[from..(pos + 80).min(b.len())]
  )
}

fn kind_name(v: &Value) -> &'static str {
  match v {
    Value::Spdp(_) => "spdp",
    Value::Reader(_) => "reader-data",
    Value::Writer(_) => "writer-data",
    Value::Topic(_) => "topic-data",
  }
}

/// split a serialised parameter list into (pid, value) pairs
fn split_params(bytes: &[u8], le: bool) -> Result<Vec<(u16, Vec<u8>)>, String> {
  let mut d = wire::Dec::new(le, bytes);
  let mut out = Vec::new();
  loop {
    let pid = d.u16()?;
    let len = d.u16()? as usize;
    if pid == wire::PID_SENTINEL {
      return Ok(out);
    }
    out.push((pid, d.take(len)?.to_vec()));
  }
}

fn join_params(params: &[(u16, Vec<u8>)], le: bool) -> Vec<u8> {
  let mut e = wire::Enc::new(le);
  for (pid, v) in params {
    e.u16(*pid);
    e.u16(v.len() as u16);
    e.bytes(v);
  }
  wire::sentinel(&mut e);
  e.buf
}

const FOREIGN_STANDARD: [u16; 6] = [0x0003, 0x0008, 0x0009, 0x0054, 0x0079, 0x00f3];
const FOREIGN_VENDOR: [u16; 5] = [0x8001, 0x8002, 0x8e00, 0xbfff, 0x8700];

/// reset the field that a deleted parameter carries to its default; None = PID is not optional here
fn apply_default(v: &Value, pid: u16) -> Option<Value> {
  let mut v = v.clone();
  let qos_reset = |q: &mut QosPolicies, pid: u16| -> bool {
    match pid {
      0x001d => q.durability = None,
      0x0023 => q.deadline = None,
      0x0027 => q.latency_budget = None,
      0x001b => q.liveliness = None,
      0x001a => q.reliability = None,
      0x001f | 0x0006 => q.ownership = None,
      0x0025 => q.destination_order = None,
      0x0021 => q.presentation = None,
      0x002b => q.lifespan = None,
      0x0004 => q.time_based_filter = None,
      0x0040 => q.history = None,
      0x0041 => q.resource_limits = None,
      _ => return false,
    }
    true
  };
  match &mut v {
    Value::Spdp(x) => match pid {
      0x0043 => x.expects_inline_qos = false,
      0x0002 => x.lease_duration = None,
      0x0034 => x.manual_liveliness_count = 0,
      0x0077 => x.builtin_endpoint_qos = None,
      0x0062 => x.entity_name = None,
      0x0032 => x.metatraffic_unicast_locators.clear(),
      0x0033 => x.metatraffic_multicast_locators.clear(),
      0x0031 => x.default_unicast_locators.clear(),
      0x0048 => x.default_multicast_locators.clear(),
      _ => return None,
    },
    Value::Reader(x) => {
      let mut q = x.subscription_topic_data.qos();
      match pid {
        0x0043 => x.reader_proxy.expects_inline_qos = false,
        0x002f => x.reader_proxy.unicast_locator_list.clear(),
        0x0030 => x.reader_proxy.multicast_locator_list.clear(),
        0x0035 => x.content_filter = None,
        0x0050 => {
          x.subscription_topic_data = SubscriptionBuiltinTopicData::new(
            x.subscription_topic_data.key(),
            None,
            x.subscription_topic_data.topic_name().clone(),
            x.subscription_topic_data.type_name().clone(),
            &q,
            None,
          )
        }
        p => {
          if !qos_reset(&mut q, p) {
            return None;
          }
          // set_qos overwrites every carried policy
          x.subscription_topic_data.set_qos(&q);
        }
      }
    }
    Value::Writer(x) => {
      let mut q = x.publication_topic_data.qos();
      match pid {
        0x002f => x.writer_proxy.unicast_locator_list.clear(),
        0x0030 => x.writer_proxy.multicast_locator_list.clear(),
        0x0060 => x.writer_proxy.data_max_size_serialized = None,
        0x0050 => x.publication_topic_data.participant_key = None,
        0x0080 => x.publication_topic_data.service_instance_name = None,
        0x0081 => x.publication_topic_data.related_datareader_key = None,
        0x0082 => x.publication_topic_data.topic_aliases = None,
        p => {
          if !qos_reset(&mut q, p) {
            return None;
          }
          x.publication_topic_data.set_qos(&q);
        }
      }
    }
    Value::Topic(x) => {
      let t = &mut x.topic_data;
      match pid {
        0x005a => t.key = None,
        0x001d => t.durability = None,
        0x0023 => t.deadline = None,
        0x0027 => t.latency_budget = None,
        0x001b => t.liveliness = None,
        0x001a => t.reliability = None,
        0x001f | 0x0006 => t.ownership = None,
        0x0025 => t.destination_order = None,
        0x0021 => t.presentation = None,
        0x002b => t.lifespan = None,
        0x0040 => t.history = None,
        0x0041 => t.resource_limits = None,
        _ => return None,
      }
    }
  }
  Some(v)
}

fn scenario_roundtrip(c: &mut Choices, o: &mut Outcome) {
  let (v, present, absent) = gen_value(c);
  let le = c.bool();
  let rep = if le {
    RepresentationIdentifier::PL_CDR_LE
  } else {
    RepresentationIdentifier::PL_CDR_BE
  };
  let kind = kind_name(&v);
  o.label(kind);
  o.label(if le { "PL_CDR_LE" } else { "PL_CDR_BE" });
  o.sample = format!("{v:?} ({})", if le { "LE" } else { "BE" });
  let bytes = match serialize(&v, rep) {
    Ok(b) => b,
    Err(e) => {
      o.violate("c15.serialize-error", kind, format!("to_pl_cdr_bytes failed: {e}"));
      return;
    }
  };
  o.digest = fnv(&bytes);
  o.nontrivial = present >= 3 && absent >= 1;
  // (1) plain round trip
  match parse_like(&v, &bytes, rep) {
    Ok(back) => {
      if let Err(d) = same(&v, &back) {
        o.violate("c15.roundtrip", kind, format!("value changed by serialise/deserialise: {d}"));
        return;
      }
    }
    Err(e) => {
      o.violate("c15.roundtrip-parse-error", kind, format!("own serialisation does not parse: {e}; bytes={}", hex(&bytes[..bytes.len().min(200)])));
      return;
    }
  }
  // the wire form must be a well-formed parameter list for an independent reader
  let params = match split_params(&bytes, le) {
    Ok(p) => p,
    Err(e) => {
      o.violate("c15.malformed-parameter-list", kind, format!("independent walk of the parameter list fails: {e}"));
      return;
    }
  };
  if let Some((pid, v2)) = params.iter().find(|(_, v2)| v2.len() % 4 != 0) {
    o.violate("c15.malformed-parameter-list", kind, format!("parameter 0x{pid:04x} has length {} (not a multiple of 4)", v2.len()));
    return;
  }
  // (2) metamorphic variants
  match c.pick(3) {
    0 => {
      // foreign parameters anywhere
      let mut p2 = params.clone();
      let n = 1 + c.pick(5);
      let mut must_understand = false;
      for _ in 0..n {
        let pid = match c.pick(3) {
          0 => FOREIGN_STANDARD[c.pick(FOREIGN_STANDARD.len())],
          1 => FOREIGN_VENDOR[c.pick(FOREIGN_VENDOR.len())],
          _ => {
            must_understand = true;
            0x4000 | FOREIGN_STANDARD[c.pick(FOREIGN_STANDARD.len())]
          }
        };
        let len = 4 * c.pick(7);
        let val = c.bytes(len);
        let at = c.pick(p2.len() + 1);
        p2.insert(at, (pid, val));
      }
      o.label(if must_understand { "foreign-must-understand" } else { "foreign-parameters" });
      o.nontrivial = true;
      let b2 = join_params(&p2, le);
      match parse_like(&v, &b2, rep) {
        Ok(back) => {
          if let Err(d) = same(&v, &back) {
            o.violate("c15.foreign-parameter-disturbs", kind, format!("unknown parameters changed a known field: {d}"));
          }
        }
        Err(e) => {
          if !must_understand {
            o.violate("c15.foreign-parameter-rejected", kind, format!("unknown parameters (no must-understand bit) made the data unparsable: {e}"));
          }
        }
      }
    }
    1 => {
      // permutation that keeps the order within one PID
      let perm = c.permutation(params.len());
      let mut by_pid: BTreeMap<u16, Vec<Vec<u8>>> = BTreeMap::new();
      for (pid, v2) in &params {
        by_pid.entry(*pid).or_default().push(v2.clone());
      }
      let mut taken: BTreeMap<u16, usize> = BTreeMap::new();
      let mut p2 = Vec::new();
      for i in perm {
        let pid = params[i].0;
        let k = taken.entry(pid).or_insert(0);
        p2.push((pid, by_pid[&pid][*k].clone()));
        *k += 1;
      }
      o.label("permuted");
      let b2 = join_params(&p2, le);
      match parse_like(&v, &b2, rep) {
        Ok(back) => {
          if let Err(d) = same(&v, &back) {
            o.violate("c15.order-dependence", kind, format!("parameter order changed the decoded value: {d}"));
          }
        }
        Err(e) => o.violate("c15.order-dependence", kind, format!("permuted parameter list does not parse: {e}")),
      }
    }
    _ => {
      // delete all parameters of one optional PID
      let pids: Vec<u16> = {
        let mut s: Vec<u16> = params.iter().map(|(p, _)| *p).collect();
        s.sort_unstable();
        s.dedup();
        s
      };
      let candidates: Vec<u16> = pids.into_iter().filter(|p| apply_default(&v, *p).is_some()).collect();
      if candidates.is_empty() {
        return;
      }
      let pid = candidates[c.pick(candidates.len())];
      let expected = apply_default(&v, pid).unwrap();
      let p2: Vec<(u16, Vec<u8>)> = params.iter().filter(|(p, _)| *p != pid).cloned().collect();
      o.label("optional-deleted");
      o.nontrivial = true;
      let b2 = join_params(&p2, le);
      match parse_like(&v, &b2, rep) {
        Ok(back) => {
          if let Err(d) = same(&expected, &back) {
            o.violate(
              "c15.default-for-absent",
              &format!("{kind}:0x{pid:04x}"),
              format!("without parameter 0x{pid:04x} the decoded value is not 'original with that field at its default': {d}"),
            );
          }
        }
        Err(e) => o.violate(
          "c15.optional-parameter-required",
          &format!("{kind}:0x{pid:04x}"),
          format!("without the optional parameter 0x{pid:04x} the data does not parse: {e}"),
        ),
      }
    }
  }
}

fn scenario_stability(c: &mut Choices, o: &mut Outcome) {
  // plausible PIDs with arbitrary contents: whatever parses must re-serialise to
  // something that parses back to the same value
  let le = c.bool();
  let rep = if le {
    RepresentationIdentifier::PL_CDR_LE
  } else {
    RepresentationIdentifier::PL_CDR_BE
  };
  // start from a valid value, then overwrite some parameter values with bytes
  let (v, _, _) = gen_value(c);
  let Ok(bytes) = serialize(&v, rep) else { return };
  let Ok(mut params) = split_params(&bytes, le) else { return };
  let edits = 1 + c.pick(3);
  for _ in 0..edits {
    if params.is_empty() {
      break;
    }
    let i = c.pick(params.len());
    let n = params[i].1.len();
    if n > 0 {
      let j = c.pick(n);
      params[i].1[j] = c.byte();
    }
  }
  let b2 = join_params(&params, le);
  o.sample = format!("{} {}", kind_name(&v), hex(&b2[..b2.len().min(160)]));
  o.digest = fnv(&b2);
  o.label(kind_name(&v));
  let Ok(v1) = parse_like(&v, &b2, rep) else {
    o.label("rejected");
    return;
  };
  o.label("parsed");
  o.nontrivial = true;
  let b3 = match serialize(&v1, rep) {
    Ok(b) => b,
    Err(e) => {
      o.violate("c15.reserialize-error", kind_name(&v), format!("a value that was parsed from the wire cannot be serialised: {e}"));
      return;
    }
  };
  match parse_like(&v, &b3, rep) {
    Ok(v2) => {
      if let Err(d) = same(&v1, &v2) {
        o.violate("c15.unstable", kind_name(&v), format!("parse -> serialise -> parse changed the value: {d}"));
      }
    }
    Err(e) => o.violate("c15.unstable", kind_name(&v), format!("re-serialised form does not parse: {e}")),
  }
}

pub fn run(scenario: u32, choices: &[u8], _strict: bool) -> Outcome {
  let mut c = Choices::new(choices);
  let mut o = Outcome::new();
  match scenario {
    0 => scenario_roundtrip(&mut c, &mut o),
    1 => scenario_stability(&mut c, &mut o),
    2 => scenario_small(&mut c, &mut o),
    _ => o.verdict = Verdict::Discard("unknown scenario".into()),
  }
  o
}

//! C18 — access is granted exactly as the signed permissions and governance say.
//!
//! Documents are generated from a small grammar (AST), rendered to XML, signed
//! in-process with the Permissions CA key shipped with the repository (openssl
//! crate, S/MIME as `sign-test-configurations.sh` produces it) and loaded
//! through the real AccessControlBuiltin via `data:` URIs. Decisions of
//! check_create_datawriter / datareader / topic are compared with a reference
//! evaluator that works on the AST with its own pattern matcher.
//! Scenario 1 alters the signed documents.

use openssl::{
  asn1::Asn1Time,
  bn::BigNum,
  ec::{EcGroup, EcKey},
  hash::MessageDigest,
  nid::Nid,
  pkcs7::{Pkcs7, Pkcs7Flags},
  pkey::{PKey, Private},
  stack::Stack,
  x509::{X509Builder, X509NameBuilder, X509},
};

use super::{fnv, sec_stubs::StubAuth, Choices, Outcome, Property, Scenario};
use crate::{
  dds::qos::{policy, QosPolicies, QosPolicyBuilder},
  security::{
    access_control::{
      access_control_builtin::AccessControlBuiltin,
      access_control_plugin::{LocalEntityAccessControl, ParticipantAccessControl, RemoteEntityAccessControl},
    },
    authentication::types::AuthenticatedPeerCredentialToken,
    types::{BinaryProperty, DataHolder, Property as SecProperty, PublicationBuiltinTopicDataSecure, SubscriptionBuiltinTopicDataSecure},
  },
  discovery::sedp_messages::TopicBuiltinTopicData,
};
use super::{discovery_rig, rig};

pub(super) const CA_CERT: &str = include_str!("/repo/examples/security_configuration_files/permissions_ca.cert.pem");
const CA_KEY: &str = include_str!("/repo/examples/security_configuration_files/permissions_ca_private_key.pem");
const ID_CERT: &str = include_str!("/repo/examples/security_configuration_files/cert.pem");
pub(super) const ME: &str = "CN=participant1_common_name,O=Example Organization";
const SOMEBODY_ELSE: &str = "CN=participant2_common_name,O=Example Organization";

pub fn property() -> Property {
  Property {
    id: "C18",
    level: "exploration",
    rule: "scenario 0: a governance document (1-3 domain rules with id / range / open-range domain sets, \
           1-4 topic rules with a topic pattern and read / write access control flags) and a permissions \
           document (1-3 grants for this or another subject, valid now / expired / not yet valid, 1-4 \
           allow / deny rules with domain sets and 0-2 publish and subscribe criteria of 1-3 topic \
           patterns over [a-c_1] with * ? and [a-c] classes, optional partition lists, default ALLOW / \
           DENY), both signed with the shipped Permissions CA key and loaded by the real plugin for a \
           participant in domain 0-6, a second permissions document presented by a remote participant and validated through validate_remote_permissions, then 16 queries (topic name; create local or match remote writer / reader / topic). \
           scenario 1: a validly signed pair in which one byte of one document is altered (any \
           position), or a document is signed by another CA, or the content of one signed document is \
           put under the signature of the other. Non-trivial = >= 2 rules applicable to a query with \
           different verdicts, or a query decided by the default, or by the governance flags, or a \
           domain id on a range boundary; for scenario 1 an alteration inside the signed content. \
           Distinct = distinct documents and queries.",
    assumptions: &[
      "the plugin API passes no partitions (documented as unsupported), so every entity is in the default (empty string) partition: a criterion without a <partitions> list applies to it, one with a list applies iff one of its patterns matches the empty string",
      "Topic entity kind: asserted only when the topic rule's read and write access control flags agree (specification and code read the mixed case differently)",
      "an alteration outside the signed content (MIME preamble, boundary lines, base64 of the signature block, which also carries unsigned material) may be accepted or rejected; it is counted separately",
      "the wall clock is read by the plugin (validity windows): generated bounds are either decades away from now, or written relative to the clock read at the start of the case with a margin of at least 45 minutes and an explicit UTC offset, so the verdict does not depend on when the case runs",
    ],
    scenarios: &[
      Scenario {
        id: 0,
        name: "decisions vs reference evaluator over the generator's AST",
        quick: 2_000,
        thorough: 200_000,
        max_len: 400,
        max_threads: 0,
      },
      Scenario {
        id: 1,
        name: "altered, foreign-signed and swapped signed documents",
        quick: 2_000,
        thorough: 200_000,
        max_len: 60,
        max_threads: 0,
      },
    ],
    run,
    exhaustive: None,
  }
}

// ---------------------------------------------------------------- signing

pub(super) struct Signer {
  cert: X509,
  key: PKey<Private>,
}

pub(super) fn shipped_ca() -> Signer {
  Signer {
    cert: X509::from_pem(CA_CERT.as_bytes()).expect("C18: shipped permissions CA certificate"),
    key: PKey::private_key_from_pem_passphrase(CA_KEY.as_bytes(), b"password123").expect("C18: shipped permissions CA key"),
  }
}

/// a second, unrelated CA with the same subject name
fn foreign_ca() -> Signer {
  let group = EcGroup::from_curve_name(Nid::X9_62_PRIME256V1).expect("curve");
  let key = PKey::from_ec_key(EcKey::generate(&group).expect("ec key")).expect("pkey");
  let mut name = X509NameBuilder::new().expect("name");
  name.append_entry_by_text("O", "Example Organization").expect("O");
  name.append_entry_by_text("CN", "permissions_ca_common_name").expect("CN");
  let name = name.build();
  let mut b = X509Builder::new().expect("x509 builder");
  b.set_version(2).expect("version");
  b.set_serial_number(&BigNum::from_u32(7).expect("bn").to_asn1_integer().expect("serial")).expect("serial");
  b.set_subject_name(&name).expect("subject");
  b.set_issuer_name(&name).expect("issuer");
  b.set_pubkey(&key).expect("pubkey");
  b.set_not_before(&Asn1Time::days_from_now(0).expect("t")).expect("nb");
  b.set_not_after(&Asn1Time::days_from_now(3650).expect("t")).expect("na");
  b.sign(&key, MessageDigest::sha256()).expect("self-sign");
  Signer { cert: b.build(), key }
}

pub(super) fn sign(s: &Signer, content: &str) -> Vec<u8> {
  let flags = Pkcs7Flags::TEXT | Pkcs7Flags::DETACHED;
  let certs = Stack::new().expect("stack");
  let p7 = Pkcs7::sign(&s.cert, &s.key, &certs, content.as_bytes(), flags).expect("C18: PKCS7 sign");
  p7.to_smime(content.as_bytes(), flags).expect("C18: to_smime")
}

// ---------------------------------------------------------------- AST

#[derive(Clone, Debug)]
enum Dom {
  Value(u16),
  Range(u16, u16),
  Min(u16),
  Max(u16),
}

impl Dom {
  fn matches(&self, d: u16) -> bool {
    match self {
      Dom::Value(v) => *v == d,
      Dom::Range(a, b) => *a <= d && d <= *b,
      Dom::Min(a) => *a <= d,
      Dom::Max(b) => d <= *b,
    }
  }
  fn boundary(&self, d: u16) -> bool {
    match self {
      Dom::Value(_) => false,
      Dom::Range(a, b) => d == *a || d == *b || d + 1 == *a || d == *b + 1,
      Dom::Min(a) => d == *a || d + 1 == *a,
      Dom::Max(b) => d == *b || d == *b + 1,
    }
  }
  fn xml(&self) -> String {
    match self {
      Dom::Value(v) => format!("<id>{v}</id>"),
      Dom::Range(a, b) => format!("<id_range><min>{a}</min><max>{b}</max></id_range>"),
      Dom::Min(a) => format!("<id_range><min>{a}</min></id_range>"),
      Dom::Max(b) => format!("<id_range><max>{b}</max></id_range>"),
    }
  }
}

#[derive(Clone, Debug)]
struct Crit {
  topics: Vec<String>,
  partitions: Option<Vec<String>>,
}

#[derive(Clone, Debug)]
struct Rule {
  allow: bool,
  domains: Vec<Dom>,
  publish: Vec<Crit>,
  subscribe: Vec<Crit>,
}

#[derive(Clone, Copy, Debug, PartialEq, Eq)]
enum Validity {
  Now,
  Expired,
  NotYet,
}

#[derive(Clone, Debug)]
struct Grant {
  me: bool,
  validity: Validity,
  /// Some((UTC offset in minutes, margin in minutes)): the bound that decides the validity is
  /// written `margin` away from the current time, in a time zone with that offset
  zone: Option<(i32, i64)>,
  rules: Vec<Rule>,
  default_allow: bool,
}

#[derive(Clone, Debug)]
struct TopicRule {
  pattern: String,
  read_ac: bool,
  write_ac: bool,
}

#[derive(Clone, Debug)]
struct DomainRule {
  domains: Vec<Dom>,
  topics: Vec<TopicRule>,
}

fn gen_dom(c: &mut Choices) -> Dom {
  match c.pick(4) {
    0 => Dom::Value(c.pick(7) as u16),
    1 => {
      let a = c.pick(6) as u16;
      Dom::Range(a, a + c.pick(4) as u16)
    }
    2 => Dom::Min(c.pick(7) as u16),
    _ => Dom::Max(c.pick(7) as u16),
  }
}

const NAMES: [&str; 10] = ["a", "ab", "abc", "b", "ba", "c1", "a_1", "cab", "bb", "ac"];
const PATTERNS: [&str; 14] = ["a", "ab", "a*", "*", "?b", "[a-c]b", "*c", "a?c", "b*", "[a-b]*", "c1", "*_1", "??", "[!a]*"];

fn gen_pattern(c: &mut Choices) -> String {
  PATTERNS[c.pick(PATTERNS.len())].to_string()
}

fn gen_crit(c: &mut Choices) -> Crit {
  let n = 1 + c.pick(3);
  Crit {
    topics: (0..n).map(|_| gen_pattern(c)).collect(),
    partitions: match c.pick(6) {
      0 => Some(vec!["*".to_string()]),
      1 => Some(vec!["P*".to_string(), "*".to_string()]),
      2 => Some(vec!["P1".to_string()]),
      _ => None,
    },
  }
}

/// own matcher for the restricted pattern language: literal characters, * ? [x-y] [!x]
fn glob(p: &[u8], s: &[u8]) -> bool {
  match p.first() {
    None => s.is_empty(),
    Some(b'*') => (0..=s.len()).any(|k| glob(&p[1..], &s[k..])),
    Some(b'?') => !s.is_empty() && glob(&p[1..], &s[1..]),
    Some(b'[') => {
      let Some(close) = p.iter().position(|b| *b == b']') else {
        return false;
      };
      if s.is_empty() {
        return false;
      }
      let mut set = &p[1..close];
      let negate = set.first() == Some(&b'!');
      if negate {
        set = &set[1..];
      }
      let mut hit = false;
      let mut i = 0;
      while i < set.len() {
        if i + 2 < set.len() && set[i + 1] == b'-' {
          if set[i] <= s[0] && s[0] <= set[i + 2] {
            hit = true;
          }
          i += 3;
        } else {
          if set[i] == s[0] {
            hit = true;
          }
          i += 1;
        }
      }
      hit != negate && glob(&p[close + 1..], &s[1..])
    }
    Some(ch) => s.first() == Some(ch) && glob(&p[1..], &s[1..]),
  }
}

fn validity_xml(v: Validity, zone: Option<(i32, i64)>) -> String {
  let (nb, na) = match zone {
    None => match v {
      Validity::Now => ("2001-01-01T00:00:00".to_string(), "2200-01-01T00:00:00".to_string()),
      Validity::Expired => ("2001-01-01T00:00:00".to_string(), "2002-01-01T00:00:00".to_string()),
      Validity::NotYet => ("2190-01-01T00:00:00".to_string(), "2200-01-01T00:00:00".to_string()),
    },
    Some((offset_min, margin_min)) => {
      let tz = chrono::FixedOffset::east_opt(offset_min * 60).expect("offset");
      let now = chrono::Utc::now();
      let at = |minutes: i64| {
        (now + chrono::Duration::minutes(minutes))
          .with_timezone(&tz)
          .to_rfc3339_opts(chrono::SecondsFormat::Secs, false)
      };
      match v {
        Validity::Now => (at(-margin_min), at(margin_min)),
        Validity::Expired => ("2001-01-01T00:00:00".to_string(), at(-margin_min)),
        Validity::NotYet => (at(margin_min), "2200-01-01T00:00:00".to_string()),
      }
    }
  };
  format!("<validity><not_before>{nb}</not_before><not_after>{na}</not_after></validity>")
}

/// Not a draw of its own (the documents are written before the last draws, and stored inputs must
/// keep decoding): a function of what was drawn for the grant.
fn zone_for(rules: &[Rule], index: usize) -> Option<(i32, i64)> {
  let h = fnv(format!("{rules:?}{index}").as_bytes());
  if h % 5 < 2 {
    return None;
  }
  let offset = [330, -480, 840, -720, 60, -210, 540, -300, 0, 765][(h >> 8) as usize % 10];
  let margin = [45, 45, 120, 600][(h >> 16) as usize % 4];
  Some((offset, margin))
}

fn crit_xml(tag: &str, cr: &Crit) -> String {
  let mut s = format!("<{tag}><topics>");
  for t in &cr.topics {
    s.push_str(&format!("<topic>{t}</topic>"));
  }
  s.push_str("</topics>");
  if let Some(ps) = &cr.partitions {
    s.push_str("<partitions>");
    for p in ps {
      s.push_str(&format!("<partition>{p}</partition>"));
    }
    s.push_str("</partitions>");
  }
  s.push_str(&format!("</{tag}>"));
  s
}

fn permissions_xml(grants: &[Grant]) -> String {
  let mut s = String::from("<?xml version=\"1.0\" encoding=\"UTF-8\"?>\n<dds>\n<permissions>\n");
  for (i, g) in grants.iter().enumerate() {
    s.push_str(&format!("<grant name=\"g{i}\">\n<subject_name>{}</subject_name>\n{}\n", if g.me { ME } else { SOMEBODY_ELSE }, validity_xml(g.validity, g.zone)));
    for r in &g.rules {
      let tag = if r.allow { "allow_rule" } else { "deny_rule" };
      s.push_str(&format!("<{tag}><domains>"));
      for d in &r.domains {
        s.push_str(&d.xml());
      }
      s.push_str("</domains>");
      for cr in &r.publish {
        s.push_str(&crit_xml("publish", cr));
      }
      for cr in &r.subscribe {
        s.push_str(&crit_xml("subscribe", cr));
      }
      s.push_str(&format!("</{tag}>\n"));
    }
    s.push_str(&format!("<default>{}</default>\n</grant>\n", if g.default_allow { "ALLOW" } else { "DENY" }));
  }
  s.push_str("</permissions>\n</dds>\n");
  s
}

fn governance_xml(rules: &[DomainRule]) -> String {
  let mut s = String::from("<?xml version=\"1.0\" encoding=\"UTF-8\"?>\n<dds>\n<domain_access_rules>\n");
  for r in rules {
    s.push_str("<domain_rule><domains>");
    for d in &r.domains {
      s.push_str(&d.xml());
    }
    s.push_str(
      "</domains>\n<allow_unauthenticated_participants>false</allow_unauthenticated_participants>\n<enable_join_access_control>true</enable_join_access_control>\n\
       <discovery_protection_kind>NONE</discovery_protection_kind>\n<liveliness_protection_kind>NONE</liveliness_protection_kind>\n<rtps_protection_kind>NONE</rtps_protection_kind>\n<topic_access_rules>\n",
    );
    for t in &r.topics {
      s.push_str(&format!(
        "<topic_rule><topic_expression>{}</topic_expression><enable_discovery_protection>false</enable_discovery_protection><enable_liveliness_protection>false</enable_liveliness_protection>\
         <enable_read_access_control>{}</enable_read_access_control><enable_write_access_control>{}</enable_write_access_control>\
         <metadata_protection_kind>NONE</metadata_protection_kind><data_protection_kind>NONE</data_protection_kind></topic_rule>\n",
        t.pattern, t.read_ac, t.write_ac
      ));
    }
    s.push_str("</topic_access_rules>\n</domain_rule>\n");
  }
  s.push_str("</domain_access_rules>\n</dds>\n");
  s
}

pub(super) fn qos(governance: &[u8], permissions: &[u8], ca_pem: &str) -> QosPolicies {
  let p = |name: &str, value: String| SecProperty {
    name: name.to_string(),
    value,
    propagate: false,
  };
  QosPolicyBuilder::new()
    .property(policy::Property {
      value: vec![
        p("dds.sec.access.permissions_ca", format!("data:{ca_pem}")),
        p("dds.sec.access.governance", format!("data:{}", String::from_utf8_lossy(governance))),
        p("dds.sec.access.permissions", format!("data:{}", String::from_utf8_lossy(permissions))),
        p("dds.sec.auth.identity_certificate", format!("data:{ID_CERT}")),
      ],
      binary_value: vec![],
    })
    .build()
}

#[derive(Clone, Copy, Debug, PartialEq, Eq)]
enum Kind {
  Writer,
  Reader,
  Topic,
}

pub fn run(scenario: u32, choices: &[u8], _strict: bool) -> Outcome {
  let mut c = Choices::new(choices);
  let mut o = Outcome::new();
  if scenario == 1 {
    tamper(&mut c, &mut o);
    return o;
  }
  let ca = shipped_ca();
  // ---------------------------------------------------------------- documents
  let domain = c.pick(7) as u16;
  let ndr = 1 + c.pick(3);
  let covering = |c: &mut Choices| if c.chance(150) { Dom::Min(0) } else { gen_dom(c) };
  let gov: Vec<DomainRule> = (0..ndr)
    .map(|_| DomainRule {
      domains: (0..1 + c.pick(2)).map(|_| covering(&mut c)).collect(),
      topics: (0..1 + c.pick(4))
        .map(|_| TopicRule {
          pattern: gen_pattern(&mut c),
          read_ac: c.bool(),
          write_ac: c.bool(),
        })
        .collect(),
    })
    .collect();
  let ng = 1 + c.pick(3);
  let grants: Vec<Grant> = (0..ng)
    .map(|_| Grant {
      me: !c.chance(50),
      validity: [Validity::Now, Validity::Now, Validity::Now, Validity::Now, Validity::Now, Validity::Expired, Validity::NotYet][c.pick(7)],
      zone: None,
      rules: (0..1 + c.pick(4))
        .map(|_| Rule {
          allow: c.bool(),
          domains: (0..1 + c.pick(2)).map(|_| covering(&mut c)).collect(),
          publish: (0..c.pick(3)).map(|_| gen_crit(&mut c)).collect(),
          subscribe: (0..c.pick(3)).map(|_| gen_crit(&mut c)).collect(),
        })
        .collect(),
      default_allow: c.bool(),
    })
    .collect();
  // the permissions document a remote participant (same subject) presents
  let remote_grants: Vec<Grant> = (0..1 + c.pick(2))
    .map(|_| Grant {
      me: !c.chance(40),
      validity: [Validity::Now, Validity::Now, Validity::Now, Validity::Now, Validity::Expired, Validity::NotYet][c.pick(6)],
      zone: None,
      rules: (0..1 + c.pick(3))
        .map(|_| Rule {
          allow: c.bool(),
          domains: (0..1 + c.pick(2)).map(|_| covering(&mut c)).collect(),
          publish: (0..c.pick(3)).map(|_| gen_crit(&mut c)).collect(),
          subscribe: (0..c.pick(3)).map(|_| gen_crit(&mut c)).collect(),
        })
        .collect(),
      default_allow: c.bool(),
    })
    .collect();
  let zoned = |gs: Vec<Grant>, base: usize| -> Vec<Grant> {
    gs.into_iter()
      .enumerate()
      .map(|(i, mut g)| {
        g.zone = zone_for(&g.rules, base + i);
        g
      })
      .collect()
  };
  let grants = zoned(grants, 0);
  let remote_grants = zoned(remote_grants, 10);
  if grants.iter().chain(remote_grants.iter()).any(|g| g.me && matches!(g.zone, Some((z, _)) if z != 0)) {
    o.label("validity-bound-near-now-with-utc-offset");
  }
  let gxml = governance_xml(&gov);
  let pxml = permissions_xml(&grants);
  o.sample = format!("domain={domain} governance={gov:?} grants={grants:?} remote_grants={remote_grants:?}");
  let gsigned = sign(&ca, &gxml);
  let psigned = sign(&ca, &pxml);
  let q = qos(&gsigned, &psigned, CA_CERT);

  // ---------------------------------------------------------------- load
  let mut ac = AccessControlBuiltin::new();
  let auth = StubAuth { local: 1 };
  let loaded = ac.validate_local_permissions(&auth, 1, domain, &q);
  let domain_rule = gov.iter().find(|r| r.domains.iter().any(|d| d.matches(domain)));
  let grant = grants.iter().find(|g| g.me && g.validity == Validity::Now);
  let handle = match (loaded, domain_rule.is_some() && grant.is_some()) {
    (Ok(h), true) => h,
    (Err(_), false) => {
      o.label(if domain_rule.is_none() { "no-domain-rule" } else { "no-valid-grant" });
      o.digest = fnv(o.sample.as_bytes());
      o.nontrivial = grants.iter().any(|g| g.me && g.validity != Validity::Now);
      return o;
    }
    (Ok(_), false) => {
      o.violate(
        "c18.accepted-without-grant",
        if domain_rule.is_none() { "no-domain-rule" } else { "no-valid-grant" },
        format!("validate_local_permissions succeeded for domain {domain} although {}", if domain_rule.is_none() { "no domain rule covers the domain" } else { "no currently valid grant names the subject" }),
      );
      return o;
    }
    (Err(e), true) => {
      o.violate("c18.rejected-valid-documents", "load", format!("validate_local_permissions failed on validly signed, well-formed documents: {e:?}"));
      return o;
    }
  };
  let (domain_rule, grant) = (domain_rule.unwrap(), grant.unwrap());

  // ---------------------------------------------------------------- the remote participant's permissions
  let remote_signed = sign(&ca, &permissions_xml(&remote_grants));
  let remote_grant = remote_grants.iter().find(|g| g.me && g.validity == Validity::Now);
  let remote_handle = {
    let token = match ac.get_permissions_token(handle) {
      Ok(t) => t,
      Err(e) => {
        o.violate("c18.query-error", "get_permissions_token", format!("{e:?}"));
        return o;
      }
    };
    let cred = AuthenticatedPeerCredentialToken::from(DataHolder {
      class_id: "DDS:Auth:PKI-DH:1.0".to_string(),
      properties: vec![],
      binary_properties: vec![
        BinaryProperty {
          name: "c.id".to_string(),
          value: bytes::Bytes::from_static(ID_CERT.as_bytes()),
          propagate: true,
        },
        BinaryProperty {
          name: "c.perm".to_string(),
          value: bytes::Bytes::from(remote_signed),
          propagate: true,
        },
      ],
    });
    match (ac.validate_remote_permissions(&auth, 1, 2, &token, &cred), remote_grant.is_some()) {
      (Ok(h), true) => Some(h),
      (Err(_), false) => {
        o.label("remote-without-valid-grant-rejected");
        None
      }
      (Ok(_), false) => {
        o.violate("c18.accepted-without-grant", "remote-no-valid-grant", "validate_remote_permissions succeeded although no currently valid grant names the remote subject".into());
        return o;
      }
      (Err(e), true) => {
        o.violate("c18.rejected-valid-documents", "remote-load", format!("validate_remote_permissions failed on a validly signed document with a valid grant: {e:?}"));
        return o;
      }
    }
  };

  // ---------------------------------------------------------------- queries
  let mut nontrivial = false;
  let plain_qos = QosPolicies::qos_none();
  for qn in 0..16 {
    let topic = NAMES[c.pick(NAMES.len())];
    let kind = [Kind::Writer, Kind::Reader, Kind::Topic][c.pick(3)];
    let remote = remote_handle.is_some() && c.chance(110);
    let grant = if remote { remote_grant.unwrap() } else { grant };
    // ---- reference evaluation
    let trule = domain_rule.topics.iter().find(|t| glob(t.pattern.as_bytes(), topic.as_bytes()));
    let unprotected = match (trule, kind) {
      (None, _) => false,
      (Some(t), Kind::Writer) => !t.write_ac,
      (Some(t), Kind::Reader) => !t.read_ac,
      (Some(t), Kind::Topic) => !(t.read_ac && t.write_ac),
    };
    let mut undefined = matches!((trule, kind), (Some(t), Kind::Topic) if t.read_ac != t.write_ac);
    let mut partition_dependent = false;
    let mut decide = |publish: bool| -> bool {
      let mut applicable: Vec<bool> = Vec::new();
      for r in &grant.rules {
        if !r.domains.iter().any(|d| d.matches(domain)) {
          continue;
        }
        let crits = if publish { &r.publish } else { &r.subscribe };
        let mut applies = false;
        for cr in crits {
          if !cr.topics.iter().any(|p| glob(p.as_bytes(), topic.as_bytes())) {
            continue;
          }
          // the plugin API has no partitions: every entity is in the default partition "",
          // which a criterion without a <partitions> list names and which * matches
          match &cr.partitions {
            None => applies = true,
            Some(ps) => {
              partition_dependent = true;
              if ps.iter().any(|p| glob(p.as_bytes(), b"")) {
                applies = true;
              }
            }
          }
        }
        if applies {
          applicable.push(r.allow);
        }
      }
      if applicable.len() >= 2 && applicable.iter().any(|a| *a != applicable[0]) {
        nontrivial = true;
        o.label("first-match-decides");
      }
      match applicable.first() {
        Some(v) => *v,
        None => {
          o.label("default-decides");
          nontrivial = true;
          grant.default_allow
        }
      }
    };
    // for a remote reader: Some(true) = it may only relay, Some(false) = it may read
    let mut relay_only_expected: Option<bool> = None;
    let permitted = match kind {
      Kind::Writer => decide(true),
      // a remote reader that may not subscribe may still be matched for relaying; no relay
      // criteria are generated, so the grant's default decides that
      Kind::Reader if remote => {
        let may_read = decide(false);
        if may_read || unprotected {
          relay_only_expected = Some(false);
        } else if grant.default_allow {
          relay_only_expected = Some(true);
        }
        may_read || grant.default_allow
      }
      Kind::Reader => decide(false),
      Kind::Topic => {
        let w = decide(true);
        let r = decide(false);
        w || r
      }
    };
    if partition_dependent {
      o.label("criterion-with-partition-list");
    }
    let expected = unprotected || permitted;
    if unprotected {
      o.label("governance-leaves-unprotected");
      nontrivial = true;
    }
    if grant.rules.iter().any(|r| r.domains.iter().any(|d| d.boundary(domain))) {
      o.label("domain-range-boundary");
      nontrivial = true;
    }
    // ---- the plugin
    let mut relay_only_got: Option<bool> = None;
    let got = if remote {
      let h = remote_handle.unwrap();
      let guid_w = crate::GUID::new(rig::node_prefix(60), rig::user_writer_eid(1, true));
      let guid_r = crate::GUID::new(rig::node_prefix(60), rig::user_reader_eid(1, true));
      o.label("remote-query");
      match kind {
        Kind::Writer => ac.check_remote_datawriter(h, domain, &PublicationBuiltinTopicDataSecure::from(discovery_rig::writer_data(guid_w, topic, &rig::reliable_qos(), vec![]))),
        Kind::Reader => ac
          .check_remote_datareader(h, domain, &SubscriptionBuiltinTopicDataSecure::from(discovery_rig::reader_data(guid_r, topic, &rig::reliable_qos(), vec![])))
          .map(|(ok, relay_only)| {
            relay_only_got = Some(relay_only);
            ok
          }),
        Kind::Topic => ac.check_remote_topic(h, domain, &TopicBuiltinTopicData::new(None, topic.to_string(), "T".to_string(), &plain_qos)),
      }
    } else {
      match kind {
        Kind::Writer => ac.check_create_datawriter(handle, domain, topic.to_string(), &plain_qos),
        Kind::Reader => ac.check_create_datareader(handle, domain, topic.to_string(), &plain_qos),
        Kind::Topic => ac.check_create_topic(handle, domain, topic.to_string(), &plain_qos),
      }
    };
    let got = match got {
      Ok(b) => b,
      Err(e) => {
        o.violate("c18.query-error", "check_create", format!("query {qn} ({kind:?} on {topic:?}): {e:?}"));
        return o;
      }
    };
    if undefined {
      o.label("topic-kind-mixed-flags-not-asserted");
      continue;
    }
    if got != expected {
      o.violate(
        if got { "c18.granted-wrongly" } else { "c18.denied-wrongly" },
        &format!("{kind:?}:{}", if unprotected { "governance" } else if permitted { "rule-or-default-allows" } else { "rule-or-default-denies" }),
        format!(
          "query {qn}: {} {kind:?} on topic {topic:?} in domain {domain}: plugin says {got}, documents say {expected} (governance topic rule {trule:?}; grant {grant:?})",
          if remote { "match remote" } else { "create" }
        ),
      );
      return o;
    }
    // matched: as a full reader or only as a relay? A reader that may read must not be demoted
    // to a relay (it gets no payload keys then), one that may only relay must not be promoted
    if let (true, Some(want), Some(have)) = (got, relay_only_expected, relay_only_got) {
      if want != have {
        o.violate(
          if have { "c18.denied-wrongly" } else { "c18.granted-wrongly" },
          if have { "Reader:demoted-to-relay-only" } else { "Reader:relay-only-promoted-to-reader" },
          format!(
            "query {qn}: match remote Reader on topic {topic:?} in domain {domain}: plugin says relay_only={have}, documents say {} (governance topic rule {trule:?}; grant {grant:?})",
            if want { "it may only relay (subscribe denied, relay falls to the default ALLOW)" } else { "it may read" }
          ),
        );
        return o;
      }
      o.label(if have { "remote-reader-relay-only" } else { "remote-reader-full" });
    }
    o.label(if got { "allowed" } else { "denied" });
  }
  o.digest = fnv(o.sample.as_bytes());
  o.nontrivial = nontrivial;
  o
}

// ---------------------------------------------------------------- scenario 1: signatures

fn find(hay: &[u8], needle: &[u8], from: usize) -> Option<usize> {
  hay[from..].windows(needle.len()).position(|w| w == needle).map(|p| p + from)
}

/// [start, end) of the signed content inside an S/MIME multipart/signed document:
/// everything between the first boundary line and the line break before the second
fn content_region(smime: &[u8]) -> Option<(usize, usize)> {
  let b = find(smime, b"boundary=\"", 0)? + 10;
  let e = find(smime, b"\"", b)?;
  let mut delim = b"--".to_vec();
  delim.extend_from_slice(&smime[b..e]);
  let first = find(smime, &delim, e)?;
  let start = find(smime, b"\n", first)? + 1;
  let second = find(smime, &delim, start)?;
  // the line break that precedes the boundary belongs to the framing
  let mut end = second;
  if end > start && smime[end - 1] == b'\n' {
    end -= 1;
  }
  if end > start && smime[end - 1] == b'\r' {
    end -= 1;
  }
  Some((start, end))
}

fn tamper(c: &mut Choices, o: &mut Outcome) {
  let ca = shipped_ca();
  let gov = vec![DomainRule {
    domains: vec![Dom::Range(0, 10)],
    topics: vec![TopicRule {
      pattern: "*".into(),
      read_ac: true,
      write_ac: true,
    }],
  }];
  let grants = vec![Grant {
    me: true,
    validity: Validity::Now,
    zone: None,
    rules: vec![Rule {
      allow: true,
      domains: vec![Dom::Value(0)],
      publish: vec![Crit {
        topics: vec![format!("a{}", c.pick(1000))],
        partitions: None,
      }],
      subscribe: vec![],
    }],
    default_allow: false,
  }];
  let gsigned = sign(&ca, &governance_xml(&gov));
  let psigned = sign(&ca, &permissions_xml(&grants));
  let auth = StubAuth { local: 1 };
  let load = |g: &[u8], p: &[u8]| AccessControlBuiltin::new().validate_local_permissions(&auth, 1, 0, &qos(g, p, CA_CERT)).is_ok();
  if !load(&gsigned, &psigned) {
    o.violate("c18.rejected-valid-documents", "load", "the untouched signed pair was rejected".into());
    return;
  }
  let which_doc = c.bool();
  let form = c.weighted(&[10, 2, 2]);
  match form {
    0 => {
      // one byte altered
      let doc = if which_doc { &gsigned } else { &psigned };
      let Some((cs, ce)) = content_region(doc) else {
        panic!("C18: cannot find the content part of the S/MIME document");
      };
      let inside = c.chance(190);
      let pos = if inside { cs + c.pick(ce - cs) } else { c.pick(doc.len()) };
      let mask = [0x01u8, 0x20, 0x80, 0xff, 0x02][c.pick(5)];
      let mut alt = doc.clone();
      alt[pos] ^= mask;
      let in_content = pos >= cs && pos < ce;
      let accepted = if which_doc { load(&alt, &psigned) } else { load(&gsigned, &alt) };
      o.sample = format!(
        "{} document, byte {pos} of {} ({}) ^ {mask:#x}: {}",
        if which_doc { "governance" } else { "permissions" },
        doc.len(),
        if in_content { "inside the signed content" } else { "outside the signed content" },
        if accepted { "accepted" } else { "rejected" }
      );
      if in_content {
        o.nontrivial = true;
        o.label("content-byte-altered");
        if accepted {
          o.violate(
            "c18.altered-document-accepted",
            if which_doc { "governance-content" } else { "permissions-content" },
            format!("{} (original byte {:?})", o.sample, doc[pos] as char),
          );
          return;
        }
      } else {
        o.label(if accepted { "framing-or-signature-block-altered-accepted" } else { "framing-or-signature-block-altered-rejected" });
      }
    }
    1 => {
      // signed by another CA with the same name
      let other = foreign_ca();
      let g2 = sign(&other, &governance_xml(&gov));
      let p2 = sign(&other, &permissions_xml(&grants));
      let accepted = if which_doc { load(&g2, &psigned) } else { load(&gsigned, &p2) };
      o.sample = format!("{} document signed by another CA", if which_doc { "governance" } else { "permissions" });
      o.nontrivial = true;
      o.label("foreign-ca");
      if accepted {
        o.violate("c18.foreign-signature-accepted", if which_doc { "governance" } else { "permissions" }, o.sample.clone());
        return;
      }
    }
    _ => {
      // content of another validly signed document under this document's signature
      let mut grants2 = grants.clone();
      grants2[0].default_allow = true;
      let donor = if which_doc {
        let mut gov2 = gov.clone();
        gov2[0].topics[0].read_ac = false;
        sign(&ca, &governance_xml(&gov2))
      } else {
        sign(&ca, &permissions_xml(&grants2))
      };
      let victim = if which_doc { &gsigned } else { &psigned };
      let (vs, ve) = content_region(victim).expect("content region");
      let (ds, de) = content_region(&donor).expect("content region");
      let mut spliced = victim[..vs].to_vec();
      spliced.extend_from_slice(&donor[ds..de]);
      spliced.extend_from_slice(&victim[ve..]);
      let accepted = if which_doc { load(&spliced, &psigned) } else { load(&gsigned, &spliced) };
      o.sample = format!("{} document: content of another signed document under this signature", if which_doc { "governance" } else { "permissions" });
      o.nontrivial = true;
      o.label("content-swapped");
      if accepted {
        o.violate("c18.swapped-content-accepted", if which_doc { "governance" } else { "permissions" }, o.sample.clone());
        return;
      }
    }
  }
  o.digest = fnv(o.sample.as_bytes());
}

//! C06 — no datagram can crash, hang or bloat a participant.
//!
//! Scenario 0: structured hostile messages. A node (MessageReceiver + reliable
//! with_key reader + best-effort no_key reader + reliable Writer with history) is
//! brought into a generated protocol state by valid traffic; then 1-20 well-framed
//! RTPS messages whose fields come from boundary pools are injected. Per datagram:
//! no panic, tick budget, allocation budget. Then the survival clause: fresh valid
//! traffic from a different, well-behaved peer must be processed exactly as on a
//! node that never saw the hostile messages.
//! Scenario 1: raw / mutated bytes into handle_received_packet of the same node.
//! Scenario 2: discovery payloads (PL_CDR) of the four discovery types.
//! Scenarios 3 / 4: the stateful reader / writer scripts of C01 / C04, survival only.
//! Scenario 5 (security build only, see c17_gate::run_hostile): mutated protected
//! traffic into a security-enabled MessageReceiver.

use std::collections::BTreeSet;

use bytes::Bytes;

use super::{
  fnv,
  frontend::{self, Raw, RawAdapter},
  hex, hooks,
  rig::{self, eid_bytes, CaseGuard, Node},
  wire::{self, Decoded, Enc},
  Choices, Outcome, Property, Scenario, Verdict,
};
use crate::{
  dds::{
    ddsdata::DDSData, readcondition::ReadCondition, with_key::datasample::Sample,
    with_key::datawriter::WriteOptionsBuilder,
  },
  messages::submessages::elements::serialized_payload::SerializedPayload,
  rtps::writer::WriterCommand,
  structure::{
    guid::{EntityId, GUID},
    sequence_number::SequenceNumber,
  },
  RepresentationIdentifier,
};

pub fn property() -> Property {
  Property {
    id: "C06",
    level: "exploration",
    rule: "scenario 0: a node with two readers and a reliable writer in a generated protocol state \
           receives 1-20 well-framed RTPS datagrams whose submessage fields are drawn from \
           boundary pools (sequence numbers <=0, 1, 2^31+-1, 2^32+-1, 2^40, near i64::MAX, UNKNOWN; \
           numBits 0..256 with mismatching bitmaps; fragment numbers 0,1,total,total+1,u32::MAX; \
           fragmentsInSubmessage 0,1,total,65535; fragment sizes changing between samples; data \
           sizes; octetsToInlineQos; lengths 0/too long/too short; all flag bits; known, unknown \
           and built-in entity ids; INFO_* with odd contents; bad parameter lists); ACKNACK/NACKFRAG \
           go to the writer. scenario 1: mutated valid datagrams and raw bytes. scenario 2: \
           discovery (PL_CDR) payload bytes. scenarios 3 / 4: the stateful reader / writer scripts of \
           C01 / C04, for survival only. scenario 5 (run by ./check in the security build): a \
           MessageReceiver with real SecurityPlugins and generated protection receives protected and \
           unprotected datagrams of a key-exchanged peer, each first in 1-3 mutated forms (bytes, \
           submessage lengths, 32-bit fields of the secure submessages, truncation, insertion, \
           splices); then a second correctly protecting peer must still get through to every reader. \
           Per datagram: no panic/abort, <= 2000+64*len loop \
           iterations in the instrumented value-driven loops, <= 1 MiB + 256*len bytes of peak \
           allocation; afterwards valid traffic of a different peer is delivered and answered as on \
           a fresh node. Non-trivial = the datagram parsed and at least one submessage reached a \
           Reader/Writer handler. Distinct = distinct datagram sequences.",
    assumptions: &[
      "loop iterations are counted at guarded tick points (missing_seqnums, irrelevant_changes_range, advance_ack_base, insert_frags, GAP list, try_take_one_with); other loops are seen only by the wall-clock watchdog",
      "allocation is measured per thread by the harness allocator; a single request above 1 GiB is refused (abort), which the supervisor reports as a violation",
      "hostile datagrams never carry the GUID prefix of the well-behaved peer used by the survival clause",
    ],
    scenarios: &[
      Scenario {
        id: 0,
        name: "structured hostile messages + survival",
        quick: 6_000,
        thorough: 1_500_000,
        max_len: 900,
        max_threads: 0,
      },
      Scenario {
        id: 1,
        name: "mutated / raw bytes + survival",
        quick: 4_000,
        thorough: 1_000_000,
        max_len: 600,
        max_threads: 0,
      },
      Scenario {
        id: 2,
        name: "discovery payload bytes (from_pl_cdr_bytes of the discovery types)",
        quick: 4_000,
        thorough: 1_000_000,
        max_len: 400,
        max_threads: 0,
      },
      Scenario {
        id: 3,
        name: "well-formed but odd traffic against a reader with history (the C01 reader scripts: stale, reversed and far heartbeats, gaps, duplicates, regrouped fragments) - survival only",
        quick: 6_000,
        thorough: 1_000_000,
        max_len: 700,
        max_threads: 0,
      },
      Scenario {
        id: 4,
        name: "well-formed but odd ACKNACK / NACKFRAG traffic against a writer with history (the C04 writer scripts) - survival only",
        quick: 600,
        thorough: 60_000,
        max_len: 700,
        max_threads: 0,
      },
      #[cfg(feature = "security")]
      Scenario {
        id: 5,
        name: "security-enabled participant (build with the security feature): byte-mutated protected and unprotected datagrams into a MessageReceiver with real SecurityPlugins, then a well-behaved protecting peer",
        quick: 3_000,
        thorough: 300_000,
        max_len: 500,
        max_threads: 0,
      },
    ],
    run,
    exhaustive: None,
  }
}

const H_NODE: u8 = 20; // hostile peer
const V_NODE: u8 = 21; // well-behaved peer
const X_NODE: u8 = 22; // unknown peer

fn sn_pool(c: &mut Choices) -> i64 {
  let near_max_excluded = hooks::excluded("c06.sn-near-i64-max");
  let k = c.pick(16);
  match k {
    0 => 0,
    1 => -1,
    2 => 1,
    3 => 2,
    4 => c.int_in(1, 12),
    5 => (1i64 << 31) - 1,
    6 => 1i64 << 31,
    7 => (1i64 << 32) - 1,
    8 => 1i64 << 32,
    9 => 1i64 << 40,
    10 => -(1i64 << 32), // SEQUENCENUMBER_UNKNOWN
    11 => c.int_in(1, 300),
    12 | 13 => {
      if near_max_excluded {
        (1i64 << 62) + c.int_in(0, 3)
      } else {
        i64::MAX - c.int_in(0, 2)
      }
    }
    14 => i64::MIN + c.int_in(0, 1),
    _ => c.int_in(1, 40),
  }
}

fn u32_pool(c: &mut Choices) -> u32 {
  match c.pick(8) {
    0 => 0,
    1 => 1,
    2 => 2,
    3 => c.int_in(0, 40) as u32,
    4 => 255 + c.int_in(0, 2) as u32,
    5 => 65535,
    6 => u32::MAX,
    _ => u32::MAX - c.int_in(0, 2) as u32,
  }
}

fn reader_id_pool(c: &mut Choices) -> [u8; 4] {
  match c.pick(6) {
    0 | 1 => eid_bytes(rig::user_reader_eid(1, true)),
    2 => eid_bytes(rig::user_reader_eid(2, false)),
    3 => eid_bytes(EntityId::UNKNOWN),
    4 => eid_bytes(EntityId::SPDP_BUILTIN_PARTICIPANT_READER),
    _ => [c.byte(), c.byte(), c.byte(), c.byte()],
  }
}

fn writer_id_pool(c: &mut Choices) -> [u8; 4] {
  match c.pick(6) {
    0 | 1 | 2 => eid_bytes(rig::user_writer_eid(1, true)), // the matched hostile writer
    3 => eid_bytes(rig::user_writer_eid(2, false)),
    4 => eid_bytes(EntityId::SPDP_BUILTIN_PARTICIPANT_WRITER),
    _ => [c.byte(), c.byte(), c.byte(), c.byte()],
  }
}

fn bad_params(c: &mut Choices, e: &mut Enc) {
  let n = c.pick(4);
  for _ in 0..n {
    let pid = match c.pick(6) {
      0 => wire::PID_KEY_HASH,
      1 => wire::PID_STATUS_INFO,
      2 => 0x0083,
      3 => 0x800f,
      4 => wire::PID_SENTINEL,
      _ => c.u16(),
    };
    let declared = match c.pick(5) {
      0 => 0u16,
      1 => 4,
      2 => 16,
      3 => 24,
      _ => c.u16(),
    };
    e.u16(pid);
    e.u16(declared);
    let actual = match c.pick(4) {
      0 => declared as usize,
      1 => 0,
      _ => c.usize_in(0, 24),
    };
    for _ in 0..actual.min(64) {
      let b = c.byte();
      e.u8(b);
    }
  }
  if c.chance(200) {
    wire::sentinel(e);
  }
}

/// one hostile submessage; returns (kind, flags, body, length override, recipe name)
fn hostile_sub(c: &mut Choices, recipes: &mut Vec<&'static str>) -> (u8, u8, Vec<u8>, Option<u16>) {
  let le = c.bool();
  let mut e = Enc::new(le);
  let cap_data_size = hooks::excluded("c06.datafrag-data-size");
  let cap_hb_range = hooks::excluded("c06.heartbeat-range");
  let cap_gap_range = hooks::excluded("c06.gap-range");
  let (kind, mut flags): (u8, u8) = match c.pick(14) {
    0 | 1 => {
      recipes.push("data");
      e.u16(c.u16() & if c.chance(200) { 0 } else { 0xffff });
      let otq = [16u16, 16, 16, 0, 15, 17, 20, 65535, 28][c.pick(9)];
      e.u16(otq);
      e.bytes(&reader_id_pool(c));
      e.bytes(&writer_id_pool(c));
      e.sn(sn_pool(c));
      let mut f = u8::from(le);
      if c.chance(90) {
        f |= 0x02;
        bad_params(c, &mut e);
      }
      match c.pick(5) {
        0 => {}
        1 => f |= 0x04,
        2 => f |= 0x08,
        3 => f |= 0x0c,
        _ => f |= 0x04 | (c.byte() & 0xf0),
      }
      let plen = [0usize, 1, 3, 4, 5, 8, 40][c.pick(7)];
      let p = c.bytes(plen);
      e.bytes(&p);
      (wire::DATA, f)
    }
    2 | 3 | 4 => {
      recipes.push("datafrag");
      e.u16(0);
      e.u16([28u16, 28, 28, 0, 27, 32, 65535][c.pick(7)]);
      e.bytes(&reader_id_pool(c));
      e.bytes(&writer_id_pool(c));
      e.sn(match c.pick(3) {
        0 => sn_pool(c),
        _ => c.int_in(1, 6),
      });
      let fsize: u16 = [8u16, 8, 16, 1, 7, 9, 65535, 0][c.pick(8)];
      let mut data_size: u32 = match c.pick(8) {
        0 => 0,
        1 => u32::from(fsize),
        2 => u32::from(fsize).wrapping_mul(3),
        3 => u32::from(fsize).wrapping_mul(3).wrapping_add(1),
        4 => 1 << 20,
        5 => 1 << 28,
        6 => u32::MAX,
        _ => c.int_in(1, 100) as u32,
      };
      if cap_data_size && data_size > 65536 {
        data_size = 65536;
      }
      let total = if fsize == 0 { 0 } else { (data_size / u32::from(fsize)) + u32::from(data_size % u32::from(fsize) != 0) };
      let start = match c.pick(7) {
        0 => 0,
        1 | 2 => 1,
        3 => total,
        4 => total.wrapping_add(1),
        5 => u32::MAX,
        _ => c.int_in(0, 5) as u32,
      };
      let in_sub: u16 = match c.pick(6) {
        0 => 0,
        1 | 2 => 1,
        3 => total.min(65535) as u16,
        4 => 65535,
        _ => c.int_in(0, 5) as u16,
      };
      e.u32(start);
      e.u16(in_sub);
      e.u16(fsize);
      e.u32(data_size);
      let mut f = u8::from(le);
      if c.chance(40) {
        f |= 0x02;
        bad_params(c, &mut e);
      }
      if c.chance(40) {
        f |= 0x04;
      }
      let plen = match c.pick(5) {
        0 => 0,
        1 => usize::from(fsize).min(200),
        2 => (usize::from(fsize) * usize::from(in_sub)).min(300),
        _ => c.usize_in(0, 40),
      };
      let p = c.bytes(plen);
      e.bytes(&p);
      (wire::DATA_FRAG, f)
    }
    5 | 6 => {
      recipes.push("heartbeat");
      e.bytes(&reader_id_pool(c));
      e.bytes(&writer_id_pool(c));
      let first = sn_pool(c);
      let mut last = match c.pick(3) {
        0 => first.wrapping_sub(1),
        _ => sn_pool(c),
      };
      if cap_hb_range && last.saturating_sub(first.max(1)) > 65536 {
        last = first.max(1) + 65536;
      }
      e.sn(first);
      e.sn(last);
      e.i32(match c.pick(4) {
        0 => 0,
        1 => -1,
        2 => i32::MAX,
        _ => c.int_in(1, 1000) as i32,
      });
      (wire::HEARTBEAT, u8::from(le) | (c.byte() & 0x06))
    }
    7 | 8 => {
      recipes.push("gap");
      e.bytes(&reader_id_pool(c));
      e.bytes(&writer_id_pool(c));
      let start = sn_pool(c);
      let mut base = match c.pick(3) {
        0 => start,
        1 => start.wrapping_add(c.int_in(0, 5)),
        _ => sn_pool(c),
      };
      if cap_gap_range && base.saturating_sub(start.max(1)) > 1000 {
        base = start.max(1) + 1000;
      }
      e.sn(start);
      let num_bits = match c.pick(6) {
        0 => 0,
        1 => 1,
        2 => 256,
        3 => 257,
        4 => u32::MAX,
        _ => c.int_in(0, 256) as u32,
      };
      let words = match c.pick(3) {
        0 => ((num_bits.min(256) + 31) / 32) as usize,
        1 => 0,
        _ => c.usize_in(0, 9),
      };
      e.sn(base);
      e.u32(num_bits);
      for _ in 0..words {
        let w = c.u32();
        e.u32(w);
      }
      (wire::GAP, u8::from(le))
    }
    9 | 10 => {
      recipes.push("acknack");
      e.bytes(&match c.pick(3) {
        0 => eid_bytes(rig::user_reader_eid(7, true)), // the hostile peer's matched reader
        1 => eid_bytes(EntityId::UNKNOWN),
        _ => [c.byte(), c.byte(), c.byte(), c.byte()],
      });
      e.bytes(&match c.pick(3) {
        0 | 1 => eid_bytes(rig::user_writer_eid(5, true)), // local writer
        _ => [c.byte(), c.byte(), c.byte(), c.byte()],
      });
      e.sn(sn_pool(c));
      let num_bits = match c.pick(5) {
        0 => 0,
        1 => 256,
        2 => 257,
        _ => c.int_in(0, 256) as u32,
      };
      e.u32(num_bits);
      let words = match c.pick(3) {
        0 | 1 => ((num_bits.min(256) + 31) / 32) as usize,
        _ => c.usize_in(0, 9),
      };
      for _ in 0..words {
        let w = c.u32();
        e.u32(w);
      }
      e.i32(c.int_in(-1, 100) as i32);
      (wire::ACKNACK, u8::from(le) | (c.byte() & 0x02))
    }
    11 => {
      recipes.push("nackfrag");
      e.bytes(&eid_bytes(rig::user_reader_eid(7, true)));
      e.bytes(&eid_bytes(rig::user_writer_eid(5, true)));
      e.sn(sn_pool(c));
      e.u32(u32_pool(c));
      let num_bits = c.int_in(0, 257) as u32;
      e.u32(num_bits);
      for _ in 0..((num_bits.min(256) + 31) / 32) {
        let w = c.u32();
        e.u32(w);
      }
      e.i32(c.int_in(0, 100) as i32);
      (wire::NACK_FRAG, u8::from(le))
    }
    12 => {
      recipes.push("info");
      match c.pick(6) {
        0 => {
          // INFO_TS, possibly too short
          let n = [0usize, 4, 8, 12][c.pick(4)];
          let b = c.bytes(n);
          e.bytes(&b);
          (wire::INFO_TS, u8::from(le) | (c.byte() & 0x02))
        }
        1 => {
          // INFO_DST to someone else / to us / short
          let p: Vec<u8> = match c.pick(3) {
            0 => rig::node_prefix(0).bytes.to_vec(),
            1 => vec![0; 12],
            _ => c.bytes(12),
          };
          let n = [12usize, 12, 0, 8][c.pick(4)];
          e.bytes(&p[..n]);
          (wire::INFO_DST, u8::from(le))
        }
        2 => {
          // INFO_SRC with any prefix except the well-behaved peer's
          e.u32(0);
          e.u8(c.pick(4) as u8);
          e.u8(c.byte());
          e.u8(c.byte());
          e.u8(c.byte());
          let p = rig::node_prefix(if c.bool() { H_NODE } else { X_NODE }).bytes;
          e.bytes(&p);
          (wire::INFO_SRC, u8::from(le))
        }
        3 => {
          // INFO_REPLY with a locator count from the pool
          let count = u32_pool(c);
          e.u32(count);
          for _ in 0..count.min(3) {
            e.u32(1);
            e.u32(7400);
            let a = c.bytes(16);
            e.bytes(&a);
          }
          if c.bool() {
            e.u32(u32_pool(c));
          }
          (wire::INFO_REPLY, u8::from(le) | (c.byte() & 0x02))
        }
        4 => {
          e.bytes(&reader_id_pool(c));
          e.bytes(&writer_id_pool(c));
          e.sn(sn_pool(c));
          e.u32(u32_pool(c));
          e.i32(c.int_in(0, 9) as i32);
          (wire::HEARTBEAT_FRAG, u8::from(le))
        }
        _ => {
          let n = c.usize_in(0, 24);
          let b = c.bytes(n);
          e.bytes(&b);
          (wire::PAD, u8::from(le))
        }
      }
    }
    _ => {
      recipes.push("unknown-kind");
      let n = c.usize_in(0, 40);
      let b = c.bytes(n);
      e.bytes(&b);
      ([0x80u8, 0xff, 0x02, 0x30, 0x31, 0x32, 0x33, 0x34][c.pick(8)], c.byte())
    }
  };
  if c.chance(16) {
    flags ^= 1; // endianness flag contradicts the encoding
  }
  let len_override = match c.pick(12) {
    0 => Some(0u16),
    1 => Some((e.buf.len() as u16).wrapping_add(4)),
    2 => Some((e.buf.len() as u16).saturating_sub(4)),
    3 => Some(65535),
    _ => None,
  };
  (kind, flags, e.buf, len_override)
}

struct CaseNode {
  node: Node,
  ri: usize,
  wi: usize,
  front: crate::dds::with_key::datareader::DataReader<Raw, RawAdapter>,
  h_writer: GUID,
  v_writer: GUID,
}

fn payload(tag: u8, n: usize) -> Vec<u8> {
  let mut p = vec![0u8, 1, 0, 0, tag % 4];
  for i in 1..n {
    p.push((i as u8).wrapping_mul(17) ^ tag);
  }
  p
}

fn setup(c: &mut Choices, with_prefix_traffic: bool) -> CaseNode {
  let mut node = Node::new(0);
  let ri = node.add_reader(rig::user_reader_eid(1, true), "rig_topic", &rig::reliable_qos());
  let _r2 = node.add_reader(rig::user_reader_eid(2, false), "rig_topic_be", &rig::best_effort_qos());
  let wi = node.add_writer(rig::user_writer_eid(5, true), "rig_topic_w", &rig::reliable_qos());
  node.writers[wi].writer.data_max_size_serialized = 32;
  let h_writer = GUID::new(rig::node_prefix(H_NODE), rig::user_writer_eid(1, true));
  let v_writer = GUID::new(rig::node_prefix(V_NODE), rig::user_writer_eid(1, true));
  node
    .reader_mut(ri)
    .update_writer_proxy(rig::writer_proxy_for(h_writer, rig::node_locator(H_NODE)), &rig::reliable_qos());
  node
    .reader_mut(ri)
    .update_writer_proxy(rig::writer_proxy_for(v_writer, rig::node_locator(V_NODE)), &rig::reliable_qos());
  let h_be = GUID::new(rig::node_prefix(H_NODE), rig::user_writer_eid(2, false));
  node
    .reader_mut(1)
    .update_writer_proxy(rig::writer_proxy_for(h_be, rig::node_locator(H_NODE)), &rig::best_effort_qos());
  // remote readers of the local writer: hostile peer's and well-behaved peer's
  let h_reader = GUID::new(rig::node_prefix(H_NODE), rig::user_reader_eid(7, true));
  let v_reader = GUID::new(rig::node_prefix(V_NODE), rig::user_reader_eid(7, true));
  for (g, n) in [(h_reader, H_NODE), (v_reader, V_NODE)] {
    node.writers[wi]
      .writer
      .update_reader_proxy(&rig::reader_proxy_for(g, rig::node_locator(n), &rig::reliable_qos()), &rig::reliable_qos());
  }
  // local writer history: 3 samples, the second one fragmented
  for (sn, n) in [(1i64, 10usize), (2, 90), (3, 12)] {
    let p = payload(sn as u8, n);
    let sp = SerializedPayload {
      representation_identifier: RepresentationIdentifier::CDR_LE,
      representation_options: [0, 0],
      value: Bytes::copy_from_slice(&p[4..]),
    };
    let _ = node.writers[wi].cmd_tx.try_send(WriterCommand::DDSData {
      ddsdata: DDSData::new(sp),
      write_options: WriteOptionsBuilder::new().build(),
      sequence_number: SequenceNumber::from(sn),
    });
    node.writers[wi].writer.process_writer_command();
  }
  let front = frontend::data_reader::<Raw, RawAdapter>(&mut node.readers[ri]);
  let mut cn = CaseNode {
    node,
    ri,
    wi,
    front,
    h_writer,
    v_writer,
  };
  if with_prefix_traffic {
    // valid traffic from the hostile peer's writer builds protocol state:
    // some samples received, one assembly in progress, a heartbeat processed
    let n = c.pick(5);
    let hp = rig::node_prefix(H_NODE).bytes;
    let rid = eid_bytes(rig::user_reader_eid(1, true));
    let wid = eid_bytes(rig::user_writer_eid(1, true));
    for k in 0..n {
      let mut dg = wire::rtps_header((2, 4), [1, 0x12], &hp);
      match c.pick(3) {
        0 => {
          let sn = c.int_in(1, 6);
          let (f, b) = wire::data_body(
            true,
            &wire::DataSpec {
              reader_id: rid,
              writer_id: wid,
              sn,
              inline_qos: None,
              payload: Some(payload(sn as u8, 9)),
              key_flag: false,
            },
          );
          wire::push_submessage(&mut dg, wire::DATA, f, &b, None);
        }
        1 => {
          let sn = c.int_in(1, 6);
          let p = payload(sn as u8, 20); // 24 bytes = 3 fragments of 8
          let fnum = 1 + c.pick(3) as u32;
          let (f, b) = wire::data_frag_body(
            true,
            &wire::DataFragSpec {
              reader_id: rid,
              writer_id: wid,
              sn,
              frag_start: fnum,
              frags_in_submessage: 1,
              frag_size: 8,
              sample_size: 24,
              inline_qos: None,
              payload: p[(fnum as usize - 1) * 8..(fnum as usize * 8)].to_vec(),
              key_flag: false,
            },
          );
          wire::push_submessage(&mut dg, wire::DATA_FRAG, f, &b, None);
        }
        _ => {
          let (f, b) = wire::heartbeat_body(true, rid, wid, 1, c.int_in(0, 8), k as i32 + 1, false, false);
          wire::push_submessage(&mut dg, wire::HEARTBEAT, f, &b, None);
        }
      }
      cn.node.inject(&dg);
    }
  }
  let _ = hooks::capture_drain();
  cn
}

/// The survival clause. Returns Err((clause, key, detail)).
fn survival(cn: &mut CaseNode, label: &str) -> Result<(), (String, String, String)> {
  let vp = rig::node_prefix(V_NODE).bytes;
  let rid = eid_bytes(rig::user_reader_eid(1, true));
  let wid = eid_bytes(rig::user_writer_eid(1, true));
  // drop whatever the hostile phase left deliverable
  hooks::tick_reset(200_000);
  let pre = cn.front.take(usize::MAX, ReadCondition::any());
  hooks::tick_disarm();
  if let Err(e) = pre {
    // an error report for a bad change is fine; try again (C09 covers "exactly once")
    let _ = e;
    hooks::tick_reset(200_000);
    let _ = cn.front.take(usize::MAX, ReadCondition::any());
    hooks::tick_disarm();
  }
  let _ = hooks::capture_drain();
  let mut dg = wire::rtps_header((2, 4), [1, 0x12], &vp);
  for sn in [1i64, 2] {
    let (f, b) = wire::data_body(
      true,
      &wire::DataSpec {
        reader_id: rid,
        writer_id: wid,
        sn,
        inline_qos: None,
        payload: Some(payload(0x40 + sn as u8, 11)),
        key_flag: false,
      },
    );
    wire::push_submessage(&mut dg, wire::DATA, f, &b, None);
  }
  let (f, b) = wire::heartbeat_body(true, rid, wid, 1, 2, 1, false, false);
  wire::push_submessage(&mut dg, wire::HEARTBEAT, f, &b, None);
  hooks::tick_reset(200_000);
  cn.node.inject(&dg);
  let got = cn.front.take(usize::MAX, ReadCondition::any());
  hooks::tick_disarm();
  let got = got.map_err(|e| ("c06.survival-take-error".to_string(), label.to_string(), format!("take after hostile traffic fails: {e:?}")))?;
  let mut sns = Vec::new();
  for ds in got {
    let si = ds.sample_info().sample_identity();
    if si.writer_guid != cn.v_writer {
      continue; // leftovers of the hostile writer are not the point here
    }
    let sn = i64::from(si.sequence_number);
    match ds.into_value() {
      Sample::Value(r) => {
        let want = payload(0x40 + sn as u8, 11);
        let mut w = want[4..].to_vec();
        while (w.len() + 4) % 4 != 0 {
          w.push(0);
        }
        if r.bytes != w {
          return Err(("c06.survival-content".into(), label.into(), format!("well-behaved peer's sample {sn} altered: {}", hex(&r.bytes))));
        }
      }
      Sample::Dispose(_) => return Err(("c06.survival-content".into(), label.into(), format!("sample {sn} became a dispose"))),
    }
    sns.push(sn);
  }
  if sns != vec![1, 2] {
    return Err((
      "c06.survival-delivery".into(),
      label.into(),
      format!("after the hostile traffic the well-behaved peer's samples [1, 2] were handed over as {sns:?}"),
    ));
  }
  // the HEARTBEAT must be answered with a pure acknowledgment (base 3)
  let replies = hooks::capture_drain();
  let mut ok = false;
  for (loc, bytes) in &replies {
    if *loc != rig::node_locator(V_NODE) {
      continue;
    }
    if let Ok((_, subs)) = wire::decode_datagram(bytes, true) {
      for (_, d) in subs {
        if let Decoded::AckNack { writer_id, set, .. } = d {
          if writer_id == wid && set.base == 3 && set.members().is_empty() {
            ok = true;
          }
        }
      }
    }
  }
  if !ok {
    return Err((
      "c06.survival-acknack".into(),
      label.into(),
      format!("HEARTBEAT(1,2) of the well-behaved peer was not answered with ACKNACK base 3 ({} datagrams emitted)", replies.len()),
    ));
  }
  // the writer still serves the well-behaved peer's reader: request sample 1
  let mut an = wire::rtps_header((2, 4), [1, 0x12], &vp);
  let (f, b) = wire::info_dst_body(true, &rig::node_prefix(0).bytes);
  wire::push_submessage(&mut an, wire::INFO_DST, f, &b, None);
  let mut members = BTreeSet::new();
  members.insert(1i64);
  let (f, b) = wire::acknack_body(
    true,
    eid_bytes(rig::user_reader_eid(7, true)),
    eid_bytes(rig::user_writer_eid(5, true)),
    1,
    1,
    &wire::bitmap_words(1, 1, &members),
    1000,
    false,
  );
  wire::push_submessage(&mut an, wire::ACKNACK, f, &b, None);
  hooks::tick_reset(200_000);
  cn.node.inject(&an);
  let mut served = false;
  for _ in 0..4 {
    cn.node.fire_writer_timers(cn.wi);
    for (loc, bytes) in hooks::capture_drain() {
      if loc != rig::node_locator(V_NODE) {
        continue;
      }
      if let Ok((_, subs)) = wire::decode_datagram(&bytes, true) {
        for (_, d) in subs {
          if let Decoded::Data { sn: 1, payload: Some(p), .. } = d {
            let mut want = payload(1, 10);
            while want.len() % 4 != 0 {
              want.push(0);
            }
            if p == want {
              served = true;
            }
          }
        }
      }
    }
    if served {
      break;
    }
  }
  hooks::tick_disarm();
  if !served {
    return Err((
      "c06.survival-writer".into(),
      label.into(),
      "after the hostile traffic the writer no longer answers a valid ACKNACK of the well-behaved peer's reader with the requested sample".into(),
    ));
  }
  Ok(())
}

fn budgets_ok(len: usize, o: &mut Outcome, recipes: &[&'static str], what: &str) -> bool {
  let ticks = hooks::ticks();
  let tick_budget = 2_000 + 64 * len as u64;
  if ticks > tick_budget {
    o.violate(
      "c06.tick-budget",
      &recipes.join("+"),
      format!("{what}: {ticks} loop iterations for a datagram of {len} bytes (budget {tick_budget})"),
    );
    return false;
  }
  true
}

/// Known finding "DATAFRAG data_size is allocated on the first fragment": while its
/// generator exclusion is on, no datagram (structured, mutated or raw) may carry
/// a DATAFRAG with data_size above 64 KiB. Rewrites the field in place.
fn sanitize_datafrag_sizes(dg: &mut [u8]) -> u32 {
  if !hooks::excluded("c06.datafrag-data-size") {
    return 0;
  }
  let mut changed = 0;
  let mut pos = 20;
  while pos + 4 <= dg.len() {
    let kind = dg[pos];
    let le = dg[pos + 1] & 1 == 1;
    let l = if le {
      u16::from_le_bytes([dg[pos + 2], dg[pos + 3]])
    } else {
      u16::from_be_bytes([dg[pos + 2], dg[pos + 3]])
    } as usize;
    let body_len = if l == 0 && kind != wire::PAD && kind != wire::INFO_TS {
      dg.len() - pos - 4
    } else {
      l
    };
    if kind == wire::DATA_FRAG && pos + 4 + 32 <= dg.len() {
      // data_size is at body offset 28
      let o = pos + 4 + 28;
      let v = if le {
        u32::from_le_bytes([dg[o], dg[o + 1], dg[o + 2], dg[o + 3]])
      } else {
        u32::from_be_bytes([dg[o], dg[o + 1], dg[o + 2], dg[o + 3]])
      };
      if v > 65536 {
        let nv: u32 = 65536;
        dg[o..o + 4].copy_from_slice(&if le { nv.to_le_bytes() } else { nv.to_be_bytes() });
        changed += 1;
      }
    }
    pos += 4 + body_len;
  }
  changed
}

fn inject_monitored(cn: &mut CaseNode, dg_in: &[u8], o: &mut Outcome, recipes: &[&'static str], idx: usize) -> bool {
  let mut dg_owned = dg_in.to_vec();
  o.excluded += sanitize_datafrag_sizes(&mut dg_owned);
  let dg: &[u8] = &dg_owned;
  let len = dg.len();
  let tick_budget = 2_000 + 64 * len as u64;
  let base = hooks::alloc_stats().map(|s| s.live).unwrap_or(0);
  hooks::alloc_reset_peak();
  // exceeding the budget unwinds from the loop itself, so that the violation is
  // keyed by the function that spins
  hooks::tick_reset(tick_budget);
  let _ = hooks::handler_reached_take();
  cn.node.inject(dg);
  let reached = hooks::handler_reached_take();
  let ticks = hooks::ticks();
  hooks::tick_disarm();
  if reached > 0 {
    o.nontrivial = true;
    o.label("reached-handler");
  }
  if ticks > tick_budget {
    o.violate(
      "c06.tick-budget",
      &recipes.join("+"),
      format!("datagram {idx} ({len} bytes, {}): {ticks} loop iterations in value-driven loops (budget {tick_budget}); bytes={}", recipes.join("+"), hex(&dg[..len.min(160)])),
    );
    return false;
  }
  if let Some(st) = hooks::alloc_stats() {
    let peak_over = st.peak.saturating_sub(base);
    let budget = (1usize << 20) + 256 * len;
    if peak_over > budget {
      // key: the submessage kind that allocates by a header field, if present
      let has_datafrag = wire::walk(dg).map_or(false, |(_, subs)| subs.iter().any(|x| x.kind == wire::DATA_FRAG));
      let key = if has_datafrag { "datafrag".to_string() } else { recipes.join("+") };
      o.violate(
        "c06.alloc-budget",
        &key,
        format!("datagram {idx} ({len} bytes, {}): peak allocation {peak_over} bytes above the level before it (budget {budget}); bytes={}", recipes.join("+"), hex(&dg[..len.min(160)])),
      );
      return false;
    }
  }
  let _ = budgets_ok;
  true
}

fn scenario_structured(c: &mut Choices, o: &mut Outcome) {
  let _g = CaseGuard::new();
  let mut cn = setup(c, true);
  let n = 1 + c.pick(20);
  let mut desc = Vec::new();
  let mut all: Vec<u8> = Vec::new();
  for idx in 0..n {
    let from = match c.pick(4) {
      0 => X_NODE,
      _ => H_NODE,
    };
    let version = match c.pick(6) {
      0 => (1u8, 0u8),
      1 => (2, 255),
      _ => (2, 4),
    };
    let mut dg = wire::rtps_header(version, [c.byte(), c.byte()], &rig::node_prefix(from).bytes);
    let nsub = 1 + c.weighted(&[8, 3, 1]);
    let mut recipes: Vec<&'static str> = Vec::new();
    for _ in 0..nsub {
      let (kind, flags, body, lo) = hostile_sub(c, &mut recipes);
      wire::push_submessage(&mut dg, kind, flags, &body, lo);
    }
    desc.push(format!("{}:{}", recipes.join("+"), hex(&dg[20..dg.len().min(20 + 96)])));
    all.extend_from_slice(&dg);
    if !inject_monitored(&mut cn, &dg, o, &recipes, idx) {
      break;
    }
    let _ = hooks::capture_drain();
    // the application keeps reading, the writer's timers keep firing
    if c.chance(60) {
      hooks::tick_reset(100_000);
      let _ = cn.front.take(usize::MAX, ReadCondition::any());
      hooks::tick_disarm();
    }
    if c.chance(30) {
      hooks::tick_reset(200_000);
      cn.node.fire_writer_timers(cn.wi);
      hooks::tick_disarm();
      let _ = hooks::capture_drain();
    }
  }
  o.sample = format!("hostile datagrams: {desc:?}");
  o.digest = fnv(&all);
  if !o.is_violation() {
    if let Err((clause, key, detail)) = survival(&mut cn, "structured") {
      o.violate(&clause, &key, detail);
    }
  }
  frontend::drain_discovery_commands();
}

fn scenario_raw(c: &mut Choices, o: &mut Outcome) {
  let _g = CaseGuard::new();
  let mut cn = setup(c, true);
  let n = 1 + c.pick(6);
  let mut all = Vec::new();
  let mut desc = Vec::new();
  for idx in 0..n {
    let mut recipes: Vec<&'static str> = Vec::new();
    let dg: Vec<u8> = if c.bool() {
      // valid-ish structured datagram, then byte mutations / truncation
      let mut dg = wire::rtps_header((2, 4), [1, 0x12], &rig::node_prefix(H_NODE).bytes);
      let nsub = 1 + c.pick(3);
      for _ in 0..nsub {
        let (kind, flags, body, lo) = hostile_sub(c, &mut recipes);
        wire::push_submessage(&mut dg, kind, flags, &body, lo);
      }
      recipes.push("mutated");
      let edits = c.pick(5);
      for _ in 0..edits {
        let i = 8.max(c.pick(dg.len())); // keep the RTPS magic
        if i >= 8 && i < 20 {
          continue; // keep the prefix: never the well-behaved peer's
        }
        dg[i] = c.byte();
      }
      if c.chance(60) {
        let cut = 20 + c.pick(dg.len() - 19);
        dg.truncate(cut.min(dg.len()));
      }
      dg
    } else {
      recipes.push("raw");
      let mut dg = if c.chance(200) {
        wire::rtps_header((2, c.pick(6) as u8), [1, 0x0f], &rig::node_prefix(H_NODE).bytes)
      } else {
        c.bytes(20)
      };
      let n = c.usize_in(0, 120);
      let tail = c.bytes(n);
      dg.extend(tail);
      if dg.len() >= 20 && dg[8..20] == rig::node_prefix(V_NODE).bytes {
        dg[8] ^= 0xff;
      }
      dg
    };
    desc.push(hex(&dg[..dg.len().min(120)]));
    all.extend_from_slice(&dg);
    if !inject_monitored(&mut cn, &dg, o, &recipes, idx) {
      break;
    }
    let _ = hooks::capture_drain();
  }
  o.sample = format!("datagrams: {desc:?}");
  o.digest = fnv(&all);
  if !o.is_violation() {
    if let Err((clause, key, detail)) = survival(&mut cn, "raw") {
      o.violate(&clause, &key, detail);
    }
  }
  frontend::drain_discovery_commands();
}

fn scenario_discovery_bytes(c: &mut Choices, o: &mut Outcome) {
  use crate::{
    discovery::{
      sedp_messages::{DiscoveredReaderData, DiscoveredTopicData, DiscoveredWriterData},
      spdp_participant_data::SpdpDiscoveredParticipantData,
    },
    serialization::pl_cdr_adapters::PlCdrDeserialize,
  };
  // a parameter list with plausible PIDs and hostile lengths / contents
  let le = c.bool();
  let mut e = Enc::new(le);
  let n = c.pick(12);
  for _ in 0..n {
    let pid: u16 = match c.pick(5) {
      0 => [0x0050u16, 0x005a, 0x0002, 0x0015, 0x0016, 0x0058, 0x0044, 0x0034, 0x0043][c.pick(9)],
      1 => [0x0005u16, 0x0007, 0x001d, 0x001a, 0x001b, 0x0023, 0x0025, 0x0029, 0x0040, 0x002f, 0x0030, 0x0031, 0x0032, 0x0033, 0x0048][c.pick(15)],
      2 => 0x8000 | c.u16(),
      3 => c.u16() & 0x00ff,
      _ => c.u16(),
    };
    let actual = match c.pick(6) {
      0 => 0usize,
      1 => 4,
      2 => 16,
      3 => 24,
      _ => c.usize_in(0, 40),
    };
    let declared = match c.pick(6) {
      0 => c.u16(),
      _ => ((actual + 3) & !3) as u16,
    };
    e.u16(pid);
    e.u16(declared);
    // contents: often a length-prefixed string / sequence with a hostile count
    let mut body = Vec::new();
    if actual >= 4 && c.bool() {
      let mut e2 = Enc::new(le);
      e2.u32(u32_pool(c));
      body.extend(e2.buf);
    }
    while body.len() < actual {
      body.push(c.byte());
    }
    body.truncate(actual);
    e.bytes(&body);
    while e.buf.len() % 4 != 0 {
      e.u8(0);
    }
  }
  if c.chance(220) {
    wire::sentinel(&mut e);
  }
  let rep = if le {
    RepresentationIdentifier::PL_CDR_LE
  } else {
    RepresentationIdentifier::PL_CDR_BE
  };
  let bytes = Bytes::from(e.buf.clone());
  o.sample = format!("pl_cdr({}) {}", if le { "LE" } else { "BE" }, hex(&e.buf[..e.buf.len().min(200)]));
  o.digest = fnv(&e.buf);
  let base = hooks::alloc_stats().map(|s| s.live).unwrap_or(0);
  hooks::alloc_reset_peak();
  hooks::tick_reset(1_000_000);
  let which = c.pick(4);
  let parsed = match which {
    0 => SpdpDiscoveredParticipantData::from_pl_cdr_bytes(&bytes, rep).is_ok(),
    1 => DiscoveredReaderData::from_pl_cdr_bytes(&bytes, rep).is_ok(),
    2 => DiscoveredWriterData::from_pl_cdr_bytes(&bytes, rep).is_ok(),
    _ => DiscoveredTopicData::from_pl_cdr_bytes(&bytes, rep).is_ok(),
  };
  hooks::tick_disarm();
  o.label(["spdp", "reader-data", "writer-data", "topic-data"][which]);
  if parsed {
    o.label("parsed");
  }
  o.nontrivial = n >= 1;
  if let Some(st) = hooks::alloc_stats() {
    let over = st.peak.saturating_sub(base);
    let budget = (1usize << 20) + 256 * e.buf.len();
    if over > budget {
      o.violate(
        "c06.alloc-budget",
        ["spdp", "reader-data", "writer-data", "topic-data"][which],
        format!("deserialising {} bytes of discovery data allocated {over} bytes (budget {budget})", e.buf.len()),
      );
    }
  }
}

pub fn run(scenario: u32, choices: &[u8], _strict: bool) -> Outcome {
  let mut c = Choices::new(choices);
  let mut o = Outcome::new();
  match scenario {
    0 => scenario_structured(&mut c, &mut o),
    1 => scenario_raw(&mut c, &mut o),
    2 => scenario_discovery_bytes(&mut c, &mut o),
    // A datagram need not be malformed to be dangerous: it can be wrong only relative to the
    // state it meets. The stateful scripts of C01 / C04 are run for survival only: a panic, a
    // hang (tick budget) or an abort is caught by the engine's monitors; what the models of
    // those properties think of the outcome is not C06's business.
    #[cfg(feature = "security")]
    5 => return super::c17_gate::run_hostile(choices),
    3 | 4 => {
      let r = if scenario == 3 {
        super::rscript::run(super::rscript::Focus::C01, choices, _strict)
      } else {
        super::wscript::run(super::wscript::Focus::C04, choices, _strict)
      };
      o.sample = r.sample;
      o.digest = r.digest;
      o.nontrivial = r.nontrivial;
      o.labels = r.labels;
      o.label(if scenario == 3 { "stateful-reader-script" } else { "stateful-writer-script" });
      if o.labels.contains(&"writer-repair-frags-never-drain") {
        let detail = format!("after the script (every datagram in it is well-formed) and 8 further timer rounds without any traffic a reader proxy still has repair fragments on request: the SendRepairFrags timer re-arms itself for ever (every millisecond in production). {}", o.sample.chars().take(1500).collect::<String>());
        o.violate("c06.perpetual-work", "writer:repair-frags", detail);
      }
    }
    _ => o.verdict = Verdict::Discard("unknown scenario".into()),
  }
  o
}

//! C16 — protected traffic decodes only for its intended receiver and only if untouched.
//!
//! Real `CryptographicBuiltin` instances (one sender, 1-3 matched receivers, one
//! impostor with other key material) are wired through the real key factory and
//! key exchange. Plaintexts are carried through the real framing: the encoded
//! form is serialized to datagram bytes, optionally altered, parsed again by
//! `Message::read_from_buffer` and only then handed to the decode functions.
//! The oracle is the round trip plus "an alteration inside the authenticated
//! bytes never decodes"; where the authenticated bytes are is computed here from
//! the DDS-Security wire layout (CryptoHeader 20 bytes, CryptoContent = length +
//! bytes, CryptoFooter = MAC 16 + count 4 + n x (key id 4 + MAC 16)), not from
//! the implementation.

use bytes::Bytes;
use speedy::{Endianness, Writable};

use super::{fnv, wire, Choices, Outcome, Property, Scenario};
use crate::{
  messages::submessages::{
    elements::parameter_list::ParameterList,
    secure_postfix::SecurePostfix,
    secure_prefix::SecurePrefix,
    submessage::SecuritySubmessage,
    submessages::WriterSubmessage,
  },
  rtps::{Message, Submessage, SubmessageBody},
  security::{
    access_control::types::{EndpointSecurityAttributes, ParticipantSecurityAttributes, TopicSecurityAttributes},
    authentication::types::{Challenge, SharedSecret, SharedSecretHandle},
    cryptographic::{
      cryptographic_plugin::{CryptoKeyExchange, CryptoKeyFactory, CryptoTransform},
      types::{DecodeOutcome, DecodedSubmessage, EncodedSubmessage},
    },
    CryptographicBuiltin,
    types::{PluginSecurityAttributesMask, Property as SecProperty},
  },
};

pub fn property() -> Property {
  Property {
    id: "C16",
    level: "exploration",
    rule: "one case = one sender and 1-3 matched receivers (real CryptographicBuiltin instances wired \
           through the real key factory / key exchange) with generated protection: RTPS / submessage / \
           payload each NONE, SIGN (GMAC) or ENCRYPT (GCM), 128 or 256 bit keys, origin authentication on \
           or off; one plaintext per level (payload lengths 0-70, 1000-1030, every residue mod 4; DATA, \
           DATAFRAG, HEARTBEAT, GAP, ACKNACK, NACKFRAG submessages; messages of 1-4 submessages) encoded, \
           serialized, parsed back and decoded at every receiver; then every byte of the serialized \
           encoded form (at most 400 positions per level: all of header / footer plus generated \
           positions) is altered in turn, parsed and decoded again, plus field swaps between two \
           encodings, decoding of an encoding addressed to another receiver, and of an encoding made \
           under other key material. Non-trivial = some level protected and (a length that is not a \
           multiple of 4 or >= 1 alteration inside the authenticated bytes). Distinct = distinct \
           configuration and plaintext.",
    assumptions: &[
      "ring (AES-GCM) is trusted; alterations are single-byte (any non-zero XOR mask) or whole-field swaps, not adaptive forgeries",
      "bytes the DDS-Security layout leaves unauthenticated (padding after a CryptoContent, flag bits and length of the wrapper submessage headers, the receiver-specific MAC count and the entries of other receivers) may be altered without rejection; then the decoded content must still equal the plaintext",
      "without origin authentication every key-exchanged receiver is an authorised receiver",
    ],
    scenarios: &[Scenario {
      id: 0,
      name: "encode -> real framing -> (alter) -> parse -> decode, three levels",
      quick: 4_000,
      thorough: 400_000,
      max_len: 400,
      max_threads: 0,
    }],
    run,
    exhaustive: None,
  }
}

// ---------------------------------------------------------------- configuration

#[derive(Clone, Copy, Debug, PartialEq, Eq)]
enum Prot {
  None,
  Sign,
  Encrypt,
}

#[derive(Clone, Debug)]
struct Config {
  rtps: Prot,
  rtps_origin: bool,
  sub: Prot,
  sub_origin: bool,
  payload: Prot,
  key128: bool,
  receivers: usize,
}

fn participant_attrs(c: &Config) -> ParticipantSecurityAttributes {
  // Table 60 of DDS-Security 1.1
  let mut mask = 0x8000_0000u32;
  if c.rtps == Prot::Encrypt {
    mask |= 0b0001;
  }
  if c.rtps_origin {
    mask |= 0b1000;
  }
  ParticipantSecurityAttributes {
    allow_unauthenticated_participants: false,
    is_access_protected: false,
    is_rtps_protected: c.rtps != Prot::None,
    is_discovery_protected: false,
    is_liveliness_protected: false,
    plugin_participant_attributes: PluginSecurityAttributesMask(mask),
    ac_participant_properties: Vec::new(),
  }
}

fn endpoint_attrs(c: &Config) -> EndpointSecurityAttributes {
  // Table 62 of DDS-Security 1.1
  let mut mask = 0x8000_0000u32;
  if c.sub == Prot::Encrypt {
    mask |= 0b001;
  }
  if c.payload == Prot::Encrypt {
    mask |= 0b010;
  }
  if c.sub_origin {
    mask |= 0b100;
  }
  EndpointSecurityAttributes {
    topic_security_attributes: TopicSecurityAttributes::empty(),
    is_submessage_protected: c.sub != Prot::None,
    is_payload_protected: c.payload != Prot::None,
    is_key_protected: false,
    plugin_endpoint_attributes: PluginSecurityAttributesMask(mask),
    ac_endpoint_properties: Vec::new(),
  }
}

fn props(c: &Config) -> Vec<SecProperty> {
  if c.key128 {
    vec![SecProperty {
      name: "dds.sec.crypto.keysize".to_string(),
      value: "128".to_string(),
      propagate: false,
    }]
  } else {
    Vec::new()
  }
}

fn secret(i: u8) -> SharedSecretHandle {
  SharedSecretHandle {
    shared_secret: SharedSecret::from([i.wrapping_mul(7).wrapping_add(1); 32]),
    challenge1: Challenge::from([i.wrapping_add(11); 32]),
    challenge2: Challenge::from([i.wrapping_add(29); 32]),
  }
}

struct Receiver {
  crypto: CryptographicBuiltin,
  p: u32,
  /// the sender's participant as this receiver knows it
  sender_p: u32,
  reader: u32,
  /// the sender's writer as this receiver knows it
  sender_w: u32,
}

struct Sender {
  crypto: CryptographicBuiltin,
  p: u32,
  w: u32,
  /// the receivers' participants / readers as the sender knows them
  recv_p: Vec<u32>,
  recv_r: Vec<u32>,
}

fn must<T, E: std::fmt::Debug>(r: Result<T, E>, what: &str) -> T {
  match r {
    Ok(v) => v,
    Err(e) => panic!("C16 set-up: {what}: {e:?}"),
  }
}

/// sender + n receivers, fully key-exchanged in both directions
fn world(c: &Config, salt: u8) -> Result<(Sender, Vec<Receiver>), String> {
  let e = |what: &str, err: &dyn std::fmt::Debug| format!("{what}: {err:?}");
  let mut s = CryptographicBuiltin::new();
  let sp = s
    .register_local_participant(1, 1, &props(c), participant_attrs(c))
    .map_err(|x| e("register_local_participant", &x))?;
  let sw = s
    .register_local_datawriter(sp, &props(c), endpoint_attrs(c))
    .map_err(|x| e("register_local_datawriter", &x))?;
  let mut sender = Sender {
    crypto: s,
    p: sp,
    w: sw,
    recv_p: Vec::new(),
    recv_r: Vec::new(),
  };
  let mut receivers = Vec::new();
  for i in 0..c.receivers {
    let mut r = CryptographicBuiltin::new();
    let rp = r
      .register_local_participant(2, 2, &props(c), participant_attrs(c))
      .map_err(|x| e("register_local_participant", &x))?;
    let rr = r
      .register_local_datareader(rp, &props(c), endpoint_attrs(c))
      .map_err(|x| e("register_local_datareader", &x))?;
    let sec = salt.wrapping_add(i as u8);
    // participants, both directions
    let rp_at_s = sender
      .crypto
      .register_matched_remote_participant(sender.p, 2, 2, secret(sec))
      .map_err(|x| e("register_matched_remote_participant", &x))?;
    let sp_at_r = r
      .register_matched_remote_participant(rp, 1, 1, secret(sec))
      .map_err(|x| e("register_matched_remote_participant", &x))?;
    let t = sender
      .crypto
      .create_local_participant_crypto_tokens(sender.p, rp_at_s)
      .map_err(|x| e("create_local_participant_crypto_tokens", &x))?;
    r.set_remote_participant_crypto_tokens(rp, sp_at_r, t)
      .map_err(|x| e("set_remote_participant_crypto_tokens", &x))?;
    let t = r
      .create_local_participant_crypto_tokens(rp, sp_at_r)
      .map_err(|x| e("create_local_participant_crypto_tokens", &x))?;
    sender
      .crypto
      .set_remote_participant_crypto_tokens(sender.p, rp_at_s, t)
      .map_err(|x| e("set_remote_participant_crypto_tokens", &x))?;
    // endpoints, both directions
    let rr_at_s = sender
      .crypto
      .register_matched_remote_datareader(sender.w, rp_at_s, secret(sec), false)
      .map_err(|x| e("register_matched_remote_datareader", &x))?;
    let sw_at_r = r
      .register_matched_remote_datawriter(rr, sp_at_r, secret(sec))
      .map_err(|x| e("register_matched_remote_datawriter", &x))?;
    let t = sender
      .crypto
      .create_local_datawriter_crypto_tokens(sender.w, rr_at_s)
      .map_err(|x| e("create_local_datawriter_crypto_tokens", &x))?;
    r.set_remote_datawriter_crypto_tokens(rr, sw_at_r, t)
      .map_err(|x| e("set_remote_datawriter_crypto_tokens", &x))?;
    let t = r
      .create_local_datareader_crypto_tokens(rr, sw_at_r)
      .map_err(|x| e("create_local_datareader_crypto_tokens", &x))?;
    sender
      .crypto
      .set_remote_datareader_crypto_tokens(sender.w, rr_at_s, t)
      .map_err(|x| e("set_remote_datareader_crypto_tokens", &x))?;
    sender.recv_p.push(rp_at_s);
    sender.recv_r.push(rr_at_s);
    receivers.push(Receiver {
      crypto: r,
      p: rp,
      sender_p: sp_at_r,
      reader: rr,
      sender_w: sw_at_r,
    });
  }
  Ok((sender, receivers))
}

/// A second, equally legitimate sender (another participant with its own writer) that is
/// matched and key-exchanged with receiver 0 only. Returns it together with the handles
/// under which receiver 0 knows its participant and its writer.
fn second_sender(c: &Config, r0: &mut Receiver, salt: u8) -> Result<(Sender, u32, u32), String> {
  let e = |what: &str, err: &dyn std::fmt::Debug| format!("second sender: {what}: {err:?}");
  let mut s = CryptographicBuiltin::new();
  let sp = s.register_local_participant(3, 3, &props(c), participant_attrs(c)).map_err(|x| e("register_local_participant", &x))?;
  let sw = s.register_local_datawriter(sp, &props(c), endpoint_attrs(c)).map_err(|x| e("register_local_datawriter", &x))?;
  let sec = salt.wrapping_add(57);
  let rp_at_s = s.register_matched_remote_participant(sp, 2, 2, secret(sec)).map_err(|x| e("register_matched_remote_participant", &x))?;
  let sp_at_r = r0.crypto.register_matched_remote_participant(r0.p, 3, 3, secret(sec)).map_err(|x| e("register_matched_remote_participant", &x))?;
  let t = s.create_local_participant_crypto_tokens(sp, rp_at_s).map_err(|x| e("create_local_participant_crypto_tokens", &x))?;
  r0.crypto.set_remote_participant_crypto_tokens(r0.p, sp_at_r, t).map_err(|x| e("set_remote_participant_crypto_tokens", &x))?;
  let t = r0.crypto.create_local_participant_crypto_tokens(r0.p, sp_at_r).map_err(|x| e("create_local_participant_crypto_tokens", &x))?;
  s.set_remote_participant_crypto_tokens(sp, rp_at_s, t).map_err(|x| e("set_remote_participant_crypto_tokens", &x))?;
  let rr_at_s = s.register_matched_remote_datareader(sw, rp_at_s, secret(sec), false).map_err(|x| e("register_matched_remote_datareader", &x))?;
  let sw_at_r = r0.crypto.register_matched_remote_datawriter(r0.reader, sp_at_r, secret(sec)).map_err(|x| e("register_matched_remote_datawriter", &x))?;
  let t = s.create_local_datawriter_crypto_tokens(sw, rr_at_s).map_err(|x| e("create_local_datawriter_crypto_tokens", &x))?;
  r0.crypto.set_remote_datawriter_crypto_tokens(r0.reader, sw_at_r, t).map_err(|x| e("set_remote_datawriter_crypto_tokens", &x))?;
  let t = r0.crypto.create_local_datareader_crypto_tokens(r0.reader, sw_at_r).map_err(|x| e("create_local_datareader_crypto_tokens", &x))?;
  s.set_remote_datareader_crypto_tokens(sw, rr_at_s, t).map_err(|x| e("set_remote_datareader_crypto_tokens", &x))?;
  Ok((
    Sender {
      crypto: s,
      p: sp,
      w: sw,
      recv_p: vec![rp_at_s],
      recv_r: vec![rr_at_s],
    },
    sp_at_r,
    sw_at_r,
  ))
}

// ---------------------------------------------------------------- framing helpers

const PREFIX: [u8; 12] = [1, 18, 0xc1, 0x60, 0, 0, 0, 0, 0, 0, 0, 1];
const READER_ID: [u8; 4] = [0, 0, 1, 0x07];
const WRITER_ID: [u8; 4] = [0, 0, 1, 0x02];

fn datagram(subs: &[(u8, u8, Vec<u8>)]) -> Vec<u8> {
  let mut dg = wire::rtps_header((2, 4), [1, 0x12], &PREFIX);
  for (kind, flags, body) in subs {
    wire::push_submessage(&mut dg, *kind, *flags, body, None);
  }
  dg
}

fn parse(bytes: &[u8]) -> Option<Message> {
  Message::read_from_buffer(&Bytes::copy_from_slice(bytes)).ok()
}

fn serialize(m: &Message) -> Vec<u8> {
  m.write_to_vec_with_ctx(Endianness::LittleEndian).expect("C16: message serialization")
}

fn payload_bytes(c: &mut Choices, len: usize) -> Vec<u8> {
  let seed = c.pick(251) as u8;
  let mut v = vec![0, 1, 0, 0];
  v.extend((0..len).map(|i| (i as u8).wrapping_mul(37).wrapping_add(seed)));
  v
}

fn gen_len(c: &mut Choices) -> usize {
  match c.weighted(&[6, 2, 1]) {
    0 => c.pick(71),
    1 => 1000 + c.pick(31),
    _ => 0,
  }
}

/// a plaintext submessage as (kind, flags, body) in our own codec
fn gen_plain_submessage(c: &mut Choices, writer_side: bool) -> (u8, u8, Vec<u8>, &'static str) {
  let le = !c.chance(40);
  if writer_side {
    match c.weighted(&[5, 2, 2, 2]) {
      0 => {
        let len = gen_len(c);
        let (f, b) = wire::data_body(
          le,
          &wire::DataSpec {
            reader_id: READER_ID,
            writer_id: WRITER_ID,
            sn: 1 + c.pick(1000) as i64,
            inline_qos: None,
            payload: Some(payload_bytes(c, len)),
            key_flag: false,
          },
        );
        (wire::DATA, f, b, "DATA")
      }
      1 => {
        let len = 1 + gen_len(c);
        let (f, b) = wire::data_frag_body(
          le,
          &wire::DataFragSpec {
            reader_id: READER_ID,
            writer_id: WRITER_ID,
            sn: 1 + c.pick(1000) as i64,
            frag_start: 1,
            frags_in_submessage: 1,
            frag_size: 2048,
            sample_size: 4000,
            inline_qos: None,
            payload: payload_bytes(c, len),
            key_flag: false,
          },
        );
        (wire::DATA_FRAG, f, b, "DATAFRAG")
      }
      2 => {
        let first = 1 + c.pick(50) as i64;
        let (f, b) = wire::heartbeat_body(le, READER_ID, WRITER_ID, first, first + c.pick(50) as i64, c.pick(1000) as i32, c.bool(), false);
        (wire::HEARTBEAT, f, b, "HEARTBEAT")
      }
      _ => {
        let start = 1 + c.pick(50) as i64;
        let (f, b) = wire::gap_body(le, READER_ID, WRITER_ID, start, start + 1 + c.pick(5) as i64, 0, &[]);
        (wire::GAP, f, b, "GAP")
      }
    }
  } else if c.bool() {
    let words = [c.pick(1 << 16) as u32];
    let (f, b) = wire::acknack_body(le, READER_ID, WRITER_ID, 1 + c.pick(100) as i64, 32, &words, c.pick(1000) as i32, c.bool());
    (wire::ACKNACK, f, b, "ACKNACK")
  } else {
    let words = [c.pick(1 << 16) as u32];
    let (f, b) = wire::nackfrag_body(le, READER_ID, WRITER_ID, 1 + c.pick(100) as i64, 1, 32, &words, c.pick(1000) as i32);
    (wire::NACK_FRAG, f, b, "NACKFRAG")
  }
}

// ---------------------------------------------------------------- wire layout of the protected forms

const SEC_BODY: u8 = 0x30;
const SEC_PREFIX: u8 = 0x31;
const SEC_POSTFIX: u8 = 0x32;
const SRTPS_PREFIX: u8 = 0x33;
const SRTPS_POSTFIX: u8 = 0x34;

#[derive(Clone, Copy, Debug, PartialEq, Eq)]
enum Region {
  /// alteration must be rejected
  Authenticated(&'static str),
  /// not covered by any MAC: either outcome, content must stay equal
  Free,
}

/// classify every byte of a CryptoFooter body: MAC(16) count(4) entries(20 each)
fn footer_regions(out: &mut [Region], start: usize, len: usize, own_entry: Option<usize>) {
  for i in 0..len {
    let r = if i < 16 {
      Region::Authenticated("common-mac")
    } else if i < 20 {
      // the number of receiver-specific MACs: with origin authentication a smaller number cuts
      // this receiver's MAC off (must be rejected), a larger one no longer parses
      // (a smaller number that still includes this receiver's entry is harmless: only the
      // explicit "number set to 0" alteration below is asserted)
      let _ = own_entry;
      Region::Free
    } else {
      let entry = (i - 20) / 20;
      if own_entry == Some(entry) {
        if (i - 20) % 20 < 4 {
          Region::Authenticated("receiver-mac-key-id")
        } else {
          Region::Authenticated("receiver-mac")
        }
      } else {
        Region::Free
      }
    };
    out[start + i] = r;
  }
}

fn header_regions(out: &mut [Region], start: usize) {
  for i in 0..20 {
    out[start + i] = Region::Authenticated(match i {
      0..=3 => "transformation-kind",
      4..=7 => "key-id",
      8..=11 => "session-id",
      _ => "iv-suffix",
    });
  }
}

/// regions of a serialized [prefix, body.., postfix] sequence (submessage or message level)
fn wrapped_regions(bytes: &[u8], prefix_kind: u8, postfix_kind: u8, prot: Prot, own_entry: Option<usize>, whole_message: bool) -> Result<Vec<Region>, String> {
  let (_, subs) = wire::walk(bytes)?;
  let mut out = vec![Region::Free; bytes.len()];
  if whole_message {
    for r in out.iter_mut().take(20) {
      *r = Region::Authenticated("rtps-header");
    }
  }
  let pi = subs.iter().position(|s| s.kind == prefix_kind).ok_or("no prefix submessage")?;
  let qi = subs.iter().position(|s| s.kind == postfix_kind).ok_or("no postfix submessage")?;
  if qi <= pi + 1 {
    return Err("nothing between prefix and postfix".into());
  }
  if subs[pi].body.len() < 20 {
    return Err("short crypto header".into());
  }
  header_regions(&mut out, subs[pi].offset + 4);
  for s in &subs[pi + 1..qi] {
    match prot {
      Prot::Sign => {
        for r in out.iter_mut().skip(s.offset).take(4 + s.body.len()) {
          *r = Region::Authenticated("signed-submessage");
        }
      }
      Prot::Encrypt => {
        if s.kind != SEC_BODY || s.body.len() < 4 {
          return Err("expected SEC_BODY".into());
        }
        let n = u32::from_be_bytes([s.body[0], s.body[1], s.body[2], s.body[3]]) as usize;
        if 4 + n > s.body.len() {
          return Err("CryptoContent longer than SEC_BODY".into());
        }
        for (k, r) in out.iter_mut().skip(s.offset + 4).take(4 + n).enumerate() {
          *r = Region::Authenticated(if k < 4 { "content-length" } else { "ciphertext" });
        }
      }
      Prot::None => {}
    }
  }
  footer_regions(&mut out, subs[qi].offset + 4, subs[qi].body.len(), own_entry);
  Ok(out)
}

// ---------------------------------------------------------------- decoding through the parser

enum Dec<T> {
  /// parsed and decoded to this content
  Success(T),
  /// did not parse into the expected shape, or decode refused
  Rejected(String),
}

fn triple(m: &Message) -> Option<(SecurePrefix, Submessage, SecurePostfix)> {
  if m.submessages.len() != 3 {
    return None;
  }
  let p = match &m.submessages[0].body {
    SubmessageBody::Security(SecuritySubmessage::SecurePrefix(p, _)) => p.clone(),
    _ => return None,
  };
  let q = match &m.submessages[2].body {
    SubmessageBody::Security(SecuritySubmessage::SecurePostfix(q, _)) => q.clone(),
    _ => return None,
  };
  Some((p, m.submessages[1].clone(), q))
}

/// what a receiver gets out of datagram bytes holding one protected submessage:
/// (body, the local endpoint handles it is for)
fn decode_sub_at(crypto: &CryptographicBuiltin, local_p: u32, remote_p: u32, bytes: &[u8]) -> Dec<(SubmessageBody, Vec<u32>)> {
  let Some(m) = parse(bytes) else {
    return Dec::Rejected("does not parse".into());
  };
  let Some(t) = triple(&m) else {
    return Dec::Rejected("not a prefix/body/postfix triple".into());
  };
  match crypto.decode_submessage(t, local_p, remote_p) {
    Ok(DecodeOutcome::Success(DecodedSubmessage::Writer(w, h))) => Dec::Success((SubmessageBody::Writer(w), h)),
    Ok(DecodeOutcome::Success(DecodedSubmessage::Reader(r, h))) => Dec::Success((SubmessageBody::Reader(r), h)),
    Ok(DecodeOutcome::Success(DecodedSubmessage::Interpreter(i))) => Dec::Success((SubmessageBody::Interpreter(i), vec![])),
    Ok(DecodeOutcome::KeysNotFound(k)) => Dec::Rejected(format!("KeysNotFound({k})")),
    Ok(DecodeOutcome::ValidatingReceiverSpecificMACFailed) => Dec::Rejected("ValidatingReceiverSpecificMACFailed".into()),
    Ok(DecodeOutcome::ParticipantCryptoHandleNotFound(p)) => Dec::Rejected(format!("ParticipantCryptoHandleNotFound({p:?})")),
    Err(e) => Dec::Rejected(format!("{e:?}").chars().take(160).collect()),
  }
}

fn decode_msg_at(crypto: &CryptographicBuiltin, local_p: u32, remote_p: u32, bytes: &[u8]) -> Dec<Vec<u8>> {
  let Some(m) = parse(bytes) else {
    return Dec::Rejected("does not parse".into());
  };
  match crypto.decode_rtps_message(m, local_p, remote_p) {
    Ok(DecodeOutcome::Success(m)) => Dec::Success(canonical_message(&m)),
    Ok(DecodeOutcome::KeysNotFound(k)) => Dec::Rejected(format!("KeysNotFound({k})")),
    Ok(DecodeOutcome::ValidatingReceiverSpecificMACFailed) => Dec::Rejected("ValidatingReceiverSpecificMACFailed".into()),
    Ok(DecodeOutcome::ParticipantCryptoHandleNotFound(p)) => Dec::Rejected(format!("ParticipantCryptoHandleNotFound({p:?})")),
    Err(e) => Dec::Rejected(format!("{e:?}").chars().take(160).collect()),
  }
}

/// header + bodies, independent of original_bytes
fn canonical_message(m: &Message) -> Vec<u8> {
  let mut v = format!("{:?}|", m.header).into_bytes();
  for s in &m.submessages {
    v.extend(format!("{:?}|{:?};", s.header, s.body).into_bytes());
  }
  v
}

/// payload level: DATA (padded to 4 like RustDDS's own writer) or DATAFRAG (not padded)
fn frame_payload(enc: &[u8], as_frag: bool) -> Vec<u8> {
  if as_frag {
    let (f, b) = wire::data_frag_body(
      true,
      &wire::DataFragSpec {
        reader_id: READER_ID,
        writer_id: WRITER_ID,
        sn: 7,
        frag_start: 1,
        frags_in_submessage: 1,
        frag_size: 1024,
        sample_size: 4000,
        inline_qos: None,
        payload: enc.to_vec(),
        key_flag: false,
      },
    );
    datagram(&[(wire::DATA_FRAG, f, b)])
  } else {
    let (f, b) = wire::data_body(
      true,
      &wire::DataSpec {
        reader_id: READER_ID,
        writer_id: WRITER_ID,
        sn: 7,
        inline_qos: None,
        payload: Some(enc.to_vec()),
        key_flag: false,
      },
    );
    datagram(&[(wire::DATA, f, b)])
  }
}

fn decode_payload_at(crypto: &CryptographicBuiltin, reader: u32, sender_w: u32, bytes: &[u8]) -> Dec<Vec<u8>> {
  let Some(m) = parse(bytes) else {
    return Dec::Rejected("does not parse".into());
  };
  let enc: Vec<u8> = match m.submessages.first().map(|s| &s.body) {
    Some(SubmessageBody::Writer(WriterSubmessage::Data(d, _))) if m.submessages.len() == 1 => match &d.serialized_payload {
      Some(b) => b.to_vec(),
      None => return Dec::Rejected("no payload".into()),
    },
    Some(SubmessageBody::Writer(WriterSubmessage::DataFrag(d, _))) if m.submessages.len() == 1 => d.serialized_payload.to_vec(),
    _ => return Dec::Rejected("not one DATA / DATAFRAG".into()),
  };
  match crypto.decode_serialized_payload(enc, ParameterList::new(), reader, sender_w) {
    Ok(p) => Dec::Success(p),
    Err(e) => Dec::Rejected(format!("{e:?}").chars().take(160).collect()),
  }
}

/// plain == decoded up to the zero padding the DATA framing may add
fn payload_equal(plain: &[u8], got: &[u8]) -> bool {
  got.len() >= plain.len() && got.len() <= plain.len() + 3 && &got[..plain.len()] == plain && got[plain.len()..].iter().all(|b| *b == 0)
}

// ---------------------------------------------------------------- the case

fn positions(c: &mut Choices, regions: &[Region], lo: usize) -> Vec<usize> {
  let n = regions.len();
  if n - lo <= 400 {
    return (lo..n).collect();
  }
  // all header / MAC bytes, plus positions elsewhere derived from one generated seed
  let mut v: Vec<usize> = (lo..n)
    .filter(|i| matches!(regions[*i], Region::Authenticated(r) if r != "ciphertext" && r != "signed-submessage" && r != "plaintext"))
    .collect();
  let mut x = 0x9e37_79b9_7f4a_7c15u64 ^ (c.pick(1 << 16) as u64);
  while v.len() < 400 {
    x = x.wrapping_mul(6364136223846793005).wrapping_add(1442695040888963407);
    v.push(lo + ((x >> 33) as usize) % (n - lo));
  }
  v.sort_unstable();
  v.dedup();
  v
}

pub fn run(_scenario: u32, choices: &[u8], _strict: bool) -> Outcome {
  let mut c = Choices::new(choices);
  let mut o = Outcome::new();
  let prot = |c: &mut Choices| [Prot::None, Prot::Sign, Prot::Encrypt][c.weighted(&[1, 3, 3])];
  let cfg = Config {
    rtps: prot(&mut c),
    rtps_origin: c.bool(),
    sub: prot(&mut c),
    sub_origin: c.bool(),
    payload: prot(&mut c),
    key128: c.bool(),
    receivers: 1 + c.pick(3),
  };
  let salt = c.pick(200) as u8;
  let mask = [0x01u8, 0x80, 0xff, 0x10, 0x55][c.pick(5)];
  let (sender, mut receivers) = match world(&cfg, salt) {
    Ok(w) => w,
    Err(e) => {
      o.violate("c16.setup", "key-exchange", format!("{cfg:?}: {e}"));
      return o;
    }
  };
  // receiver 0 is also matched with a second legitimate sender: what one of them produced must
  // never decode as the other's ("all pairs of sender / receiver key registrations")
  let (sender_b, b_p_at_r0, b_w_at_r0) = match second_sender(&cfg, &mut receivers[0], salt) {
    Ok(x) => x,
    Err(e) => {
      o.violate("c16.setup", "key-exchange-second-sender", format!("{cfg:?}: {e}"));
      return o;
    }
  };
  let receivers = receivers;
  // the same configuration with other key material
  let (impostor, _) = must(world(&cfg, salt.wrapping_add(100)), "second world");
  let mut sample = format!("{cfg:?} mask={mask:#x}");
  let mut tampered_authenticated = 0u64;
  let mut odd_length = false;
  let all_r: Vec<u32> = sender.recv_r.clone();
  let all_p: Vec<u32> = sender.recv_p.clone();

  // ================================================================ payload level
  {
    let len = gen_len(&mut c);
    let plain = payload_bytes(&mut c, len);
    let as_frag = c.chance(80);
    sample.push_str(&format!(" | payload len={} frag={as_frag}", plain.len()));
    let enc = match sender.crypto.encode_serialized_payload(plain.clone(), sender.w) {
      Ok((e, _)) => e,
      Err(e) => {
        o.violate("c16.encode-error", "payload", format!("{cfg:?}: {e:?}"));
        return o;
      }
    };
    if cfg.payload == Prot::None {
      if enc != plain {
        o.violate("c16.roundtrip", "payload-none", "unprotected payload was changed by encode_serialized_payload".into());
        return o;
      }
    } else {
      if enc.len() % 4 != 0 {
        odd_length = true;
        o.label("payload-encoded-length-not-multiple-of-4");
      }
      if cfg.payload == Prot::Encrypt && enc.windows(8).any(|w| plain.len() >= 12 && w == &plain[4..12]) {
        o.violate("c16.plaintext-visible", "payload", "encrypted payload contains the plaintext".into());
        return o;
      }
      let bytes = frame_payload(&enc, as_frag);
      for (i, r) in receivers.iter().enumerate() {
        match decode_payload_at(&r.crypto, r.reader, r.sender_w, &bytes) {
          Dec::Success(p) if payload_equal(&plain, &p) => {}
          Dec::Success(p) => {
            o.violate("c16.roundtrip", "payload-differs", format!("{cfg:?}: receiver {i} decoded {} bytes, sent {}", p.len(), plain.len()));
            return o;
          }
          Dec::Rejected(why) => {
            o.violate(
              "c16.roundtrip",
              &format!("payload-{:?}-{}-rejected", cfg.payload, if as_frag { "DATAFRAG" } else { "DATA" }),
              format!("{cfg:?}: receiver {i} rejected an untouched protected payload of {} bytes (encoded {} bytes, {} framing): {why}", plain.len(), enc.len(), if as_frag { "DATAFRAG" } else { "DATA" }),
            );
            return o;
          }
        }
      }
      // other key material
      let other = match impostor.crypto.encode_serialized_payload(plain.clone(), impostor.w) {
        Ok((e, _)) => frame_payload(&e, as_frag),
        Err(e) => panic!("C16: impostor encode: {e:?}"),
      };
      if let Dec::Success(_) = decode_payload_at(&receivers[0].crypto, receivers[0].reader, receivers[0].sender_w, &other) {
        o.violate("c16.foreign-key-accepted", "payload", format!("{cfg:?}: a payload protected under other key material decoded"));
        return o;
      }
      // two legitimate senders at one receiver
      {
        let r0 = &receivers[0];
        let by_b = match sender_b.crypto.encode_serialized_payload(plain.clone(), sender_b.w) {
          Ok((e, _)) => frame_payload(&e, as_frag),
          Err(e) => {
            o.violate("c16.encode-error", "payload-second-sender", format!("{cfg:?}: {e:?}"));
            return o;
          }
        };
        match decode_payload_at(&r0.crypto, r0.reader, b_w_at_r0, &by_b) {
          Dec::Success(p) if payload_equal(&plain, &p) => {}
          other => {
            o.violate(
              "c16.roundtrip",
              "payload-second-sender",
              format!("{cfg:?}: a receiver matched with two writers does not decode the second writer's untouched payload: {}", match other {
                Dec::Rejected(w) => w,
                _ => "decoded differently".into(),
              }),
            );
            return o;
          }
        }
        if let Dec::Success(_) = decode_payload_at(&r0.crypto, r0.reader, b_w_at_r0, &bytes) {
          o.violate("c16.wrong-sender-accepted", "payload", format!("{cfg:?}: a payload encoded by writer A decoded as coming from writer B (both matched with the reader)"));
          return o;
        }
        if let Dec::Success(_) = decode_payload_at(&r0.crypto, r0.reader, r0.sender_w, &by_b) {
          o.violate("c16.wrong-sender-accepted", "payload", format!("{cfg:?}: a payload encoded by writer B decoded as coming from writer A (both matched with the reader)"));
          return o;
        }
        tampered_authenticated += 2;
        o.label("two-senders-cross-decoding-rejected");
      }
      // alterations
      let (_, subs) = wire::walk(&bytes).expect("own datagram");
      let start = subs[0].offset + 4 + if as_frag { 32 } else { 20 };
      let mut regions = vec![Region::Free; bytes.len()];
      header_regions(&mut regions, start);
      let content_end = match cfg.payload {
        Prot::Sign => start + 20 + plain.len(),
        _ => start + 20 + 4 + plain.len(),
      };
      for (k, r) in regions.iter_mut().enumerate().take(content_end).skip(start + 20) {
        *r = Region::Authenticated(if cfg.payload == Prot::Sign {
          "plaintext"
        } else if k < start + 24 {
          "content-length"
        } else {
          "ciphertext"
        });
      }
      for r in regions.iter_mut().skip(content_end).take(16) {
        *r = Region::Authenticated("common-mac");
      }
      let r0 = &receivers[0];
      for k in 0u8..=5 {
        if bytes[start..start + 4] == [0, 0, 0, k] {
          continue;
        }
        let mut b = bytes.clone();
        b[start..start + 4].copy_from_slice(&[0, 0, 0, k]);
        if let Dec::Success(_) = decode_payload_at(&r0.crypto, r0.reader, r0.sender_w, &b) {
          o.violate("c16.alteration-accepted", "payload-transformation-kind-replaced", format!("{cfg:?}: payload with transformation kind replaced by {k} still decoded"));
          return o;
        }
        tampered_authenticated += 1;
      }
      for pos in positions(&mut c, &regions, start) {
        let mut b = bytes.clone();
        b[pos] ^= mask;
        if let Dec::Success(p) = decode_payload_at(&r0.crypto, r0.reader, r0.sender_w, &b) {
          if !payload_equal(&plain, &p) {
            o.violate("c16.altered-data-delivered", "payload", format!("{cfg:?}: byte {} (+{} into the payload) ^ {mask:#x} decoded to different data", pos, pos - start));
            return o;
          }
          if let Region::Authenticated(what) = regions[pos] {
            o.violate("c16.alteration-accepted", &format!("payload-{what}"), format!("{cfg:?}: alteration of {what} (byte +{} of the encoded payload, ^ {mask:#x}) still decoded", pos - start));
            return o;
          }
          o.label("payload-unauthenticated-byte-altered");
        } else if matches!(regions[pos], Region::Authenticated(_)) {
          tampered_authenticated += 1;
        }
      }
    }
  }

  // ================================================================ submessage level
  for writer_side in [true, false] {
    let (kind, flags, body, name) = gen_plain_submessage(&mut c, writer_side);
    sample.push_str(&format!(" | sub {name} len={}", body.len()));
    let plain_msg = parse(&datagram(&[(kind, flags, body.clone())])).expect("C16: own plaintext submessage must parse");
    let plain_sub = plain_msg.submessages[0].clone();
    // writer side: sender -> receivers; reader side: receiver 0 -> sender
    let encoded = if writer_side {
      sender.crypto.encode_datawriter_submessage(plain_sub.clone(), sender.w, all_r.clone())
    } else {
      receivers[0].crypto.encode_datareader_submessage(plain_sub.clone(), receivers[0].reader, vec![receivers[0].sender_w])
    };
    let encoded = match encoded {
      Ok(e) => e,
      Err(e) => {
        o.violate("c16.encode-error", "submessage", format!("{cfg:?} {name}: {e:?}"));
        return o;
      }
    };
    let (pre, mid, post) = match encoded {
      EncodedSubmessage::Unencoded(s) => {
        if cfg.sub != Prot::None {
          o.violate("c16.not-protected", "submessage", format!("{cfg:?}: {name} left unencoded although submessage protection is required"));
          return o;
        }
        if s.body != plain_sub.body {
          o.violate("c16.roundtrip", "submessage-none", "unprotected submessage changed".into());
          return o;
        }
        continue;
      }
      EncodedSubmessage::Encoded(a, b, c) => (a, b, c),
    };
    if cfg.sub == Prot::None {
      o.violate("c16.roundtrip", "submessage-none-encoded", "submessage encoded although no protection configured".into());
      return o;
    }
    let enc_msg = Message {
      header: plain_msg.header,
      submessages: vec![pre, mid, post],
    };
    let bytes = serialize(&enc_msg);
    if bytes.len() % 4 != 0 || body.len() % 4 != 0 {
      odd_length = true;
    }
    // round trip at every receiver
    let targets: Vec<(&CryptographicBuiltin, u32, u32, u32)> = if writer_side {
      receivers.iter().map(|r| (&r.crypto, r.p, r.sender_p, r.reader)).collect()
    } else {
      vec![(&sender.crypto, sender.p, sender.recv_p[0], sender.w)]
    };
    for (i, (crypto, lp, rp, local_endpoint)) in targets.iter().enumerate() {
      match decode_sub_at(crypto, *lp, *rp, &bytes) {
        Dec::Success((b, handles)) => {
          if b != plain_sub.body {
            o.violate("c16.roundtrip", "submessage-differs", format!("{cfg:?}: {name} decoded differently at receiver {i}"));
            return o;
          }
          if handles != vec![*local_endpoint] {
            o.violate("c16.wrong-endpoint", "submessage", format!("{cfg:?}: {name} decoded for local endpoints {handles:?}, expected [{local_endpoint}]"));
            return o;
          }
        }
        Dec::Rejected(why) => {
          o.violate(
            "c16.roundtrip",
            &format!("submessage-{:?}-rejected", cfg.sub),
            format!("{cfg:?}: receiver {i} rejected an untouched protected {name} ({} body bytes): {why}", body.len()),
          );
          return o;
        }
      }
    }
    // the same submessage under the key material of the wrong kind of endpoint: a writer
    // submessage encoded with the keys receiver 0 registered for its DataReader (and sent to the
    // sender), a reader submessage encoded with the keys of the sender's DataWriter
    {
      let cross = if writer_side {
        receivers[0].crypto.encode_datareader_submessage(plain_sub.clone(), receivers[0].reader, vec![receivers[0].sender_w])
      } else {
        sender.crypto.encode_datawriter_submessage(plain_sub.clone(), sender.w, all_r.clone())
      };
      if let Ok(EncodedSubmessage::Encoded(a, b, c2)) = cross {
        let xb = serialize(&Message {
          header: plain_msg.header,
          submessages: vec![a, b, c2],
        });
        let (xc, xlp, xrp) = if writer_side {
          (&sender.crypto, sender.p, sender.recv_p[0])
        } else {
          (&receivers[0].crypto, receivers[0].p, receivers[0].sender_p)
        };
        match decode_sub_at(xc, xlp, xrp, &xb) {
          Dec::Success((SubmessageBody::Writer(_), h)) if writer_side => {
            o.violate(
              "c16.wrong-key-material-accepted",
              "submessage-endpoint-kind",
              format!("{cfg:?}: writer submessage {name} encoded under the key material of a remote DataReader decoded for local endpoints {h:?}"),
            );
            return o;
          }
          Dec::Success((SubmessageBody::Reader(_), h)) if !writer_side => {
            o.violate(
              "c16.wrong-key-material-accepted",
              "submessage-endpoint-kind",
              format!("{cfg:?}: reader submessage {name} encoded under the key material of a remote DataWriter decoded for local endpoints {h:?}"),
            );
            return o;
          }
          _ => o.label("wrong-endpoint-kind-keys-rejected"),
        }
      }
    }
    let (crypto0, lp0, rp0, _) = targets[0];
    // addressed to somebody else only
    if writer_side && cfg.receivers >= 2 {
      let only_other = sender
        .crypto
        .encode_datawriter_submessage(plain_sub.clone(), sender.w, vec![all_r[1]])
        .ok()
        .map(Vec::<Submessage>::from)
        .map(|v| serialize(&Message { header: plain_msg.header, submessages: v }));
      if let Some(b) = only_other {
        match decode_sub_at(crypto0, lp0, rp0, &b) {
          Dec::Success(_) if cfg.sub_origin => {
            o.violate(
              "c16.origin-authentication",
              "submessage-not-addressed",
              format!("{cfg:?}: {name} carrying a receiver-specific MAC only for receiver 1 decoded at receiver 0"),
            );
            return o;
          }
          Dec::Success(_) => o.label("no-origin-authentication-other-receiver-decodes"),
          Dec::Rejected(_) => o.label("not-addressed-rejected"),
        }
      }
    }
    // with origin authentication: receiver-specific MACs stripped, and an encoding for nobody
    if cfg.sub_origin {
      let (_, subs) = wire::walk(&bytes).expect("own datagram");
      if let Some(q) = subs.iter().find(|x| x.kind == SEC_POSTFIX) {
        // keep the common MAC, set the count to 0, drop the entries, fix the submessage length
        let mut b = bytes[..q.offset + 4 + 16].to_vec();
        b.extend_from_slice(&[0, 0, 0, 0]);
        let le = bytes[q.offset + 1] & 1 == 1;
        let l = 20u16;
        let lb = if le { l.to_le_bytes() } else { l.to_be_bytes() };
        b[q.offset + 2] = lb[0];
        b[q.offset + 3] = lb[1];
        // the number of receiver-specific MACs set to 0, the entries left in place
        let mut z = bytes.clone();
        z[q.offset + 4 + 16..q.offset + 4 + 20].copy_from_slice(&[0, 0, 0, 0]);
        if let Dec::Success(_) = decode_sub_at(crypto0, lp0, rp0, &z) {
          o.violate(
            "c16.origin-authentication",
            "submessage-receiver-mac-count-zeroed",
            format!("{cfg:?}: {name} with the receiver-specific MAC count set to 0 decoded although origin authentication is required"),
          );
          return o;
        }
        if let Dec::Success(_) = decode_sub_at(crypto0, lp0, rp0, &b) {
          o.violate(
            "c16.origin-authentication",
            "submessage-receiver-macs-stripped",
            format!("{cfg:?}: {name} with all receiver-specific MACs stripped from the footer decoded although origin authentication is required"),
          );
          return o;
        }
        tampered_authenticated += 1;
      }
      let for_nobody = if writer_side {
        sender.crypto.encode_datawriter_submessage(plain_sub.clone(), sender.w, vec![])
      } else {
        receivers[0].crypto.encode_datareader_submessage(plain_sub.clone(), receivers[0].reader, vec![])
      };
      if let Ok(e) = for_nobody {
        let b = serialize(&Message { header: plain_msg.header, submessages: Vec::<Submessage>::from(e) });
        if let Dec::Success(_) = decode_sub_at(crypto0, lp0, rp0, &b) {
          o.violate(
            "c16.origin-authentication",
            "submessage-encoded-for-nobody",
            format!("{cfg:?}: {name} encoded for an empty receiver list (no receiver-specific MAC at all) decoded although origin authentication is required"),
          );
          return o;
        }
        o.label("encoded-for-nobody-rejected");
      }
    }
    // two legitimate senders at one receiver (writer side)
    if writer_side {
      let r0 = &receivers[0];
      match sender_b.crypto.encode_datawriter_submessage(plain_sub.clone(), sender_b.w, sender_b.recv_r.clone()) {
        Ok(e) => {
          let by_b = serialize(&Message { header: plain_msg.header, submessages: Vec::<Submessage>::from(e) });
          match decode_sub_at(&r0.crypto, r0.p, b_p_at_r0, &by_b) {
            Dec::Success((b, _)) if b == plain_sub.body => {}
            other => {
              o.violate(
                "c16.roundtrip",
                "submessage-second-sender",
                format!("{cfg:?}: {name} of a second matched sender does not decode: {}", match other {
                  Dec::Rejected(w) => w,
                  _ => "decoded differently".into(),
                }),
              );
              return o;
            }
          }
          if let Dec::Success(_) = decode_sub_at(&r0.crypto, r0.p, r0.sender_p, &by_b) {
            o.violate("c16.wrong-sender-accepted", "submessage", format!("{cfg:?}: {name} encoded by participant B decoded as coming from participant A"));
            return o;
          }
        }
        Err(e) => {
          o.violate("c16.encode-error", "submessage-second-sender", format!("{cfg:?} {name}: {e:?}"));
          return o;
        }
      }
      if let Dec::Success(_) = decode_sub_at(&r0.crypto, r0.p, b_p_at_r0, &bytes) {
        o.violate("c16.wrong-sender-accepted", "submessage", format!("{cfg:?}: {name} encoded by participant A decoded as coming from participant B"));
        return o;
      }
      tampered_authenticated += 2;
      o.label("two-senders-cross-decoding-rejected");
    }
    // other key material (writer side only: the impostor world has the same shape)
    if writer_side {
      if let Ok(e) = impostor.crypto.encode_datawriter_submessage(plain_sub.clone(), impostor.w, impostor.recv_r.clone()) {
        let b = serialize(&Message { header: plain_msg.header, submessages: Vec::<Submessage>::from(e) });
        if let Dec::Success(_) = decode_sub_at(crypto0, lp0, rp0, &b) {
          o.violate("c16.foreign-key-accepted", "submessage", format!("{cfg:?}: {name} protected under other key material decoded"));
          return o;
        }
      }
      // prefix of one encoding with body and postfix of another (other IV / session)
      if let Ok(EncodedSubmessage::Encoded(pre2, _, _)) = sender.crypto.encode_datawriter_submessage(plain_sub.clone(), sender.w, all_r.clone()) {
        let mut mixed = enc_msg.clone();
        mixed.submessages[0] = pre2;
        if let Dec::Success(_) = decode_sub_at(crypto0, lp0, rp0, &serialize(&mixed)) {
          o.violate("c16.alteration-accepted", "submessage-prefix-of-another-encoding", format!("{cfg:?}: {name} with the SecurePrefix of another encoding decoded"));
          return o;
        }
        o.label("prefix-swap-rejected");
      }
    }
    // single-byte alterations
    let own = if writer_side { cfg.sub_origin.then_some(0) } else { cfg.sub_origin.then_some(0) };
    let regions = match wrapped_regions(&bytes, SEC_PREFIX, SEC_POSTFIX, cfg.sub, own, false) {
      Ok(r) => r,
      Err(e) => {
        o.violate("c16.wire-layout", "submessage", format!("{cfg:?}: encoded {name} does not have the DDS-Security layout: {e}"));
        return o;
      }
    };
    // the transformation kind replaced by every other kind (NONE included)
    if let Some(kpos) = regions.iter().position(|r| *r == Region::Authenticated("transformation-kind")) {
      for k in 0u8..=5 {
        if bytes[kpos..kpos + 4] == [0, 0, 0, k] {
          continue;
        }
        let mut b = bytes.clone();
        b[kpos..kpos + 4].copy_from_slice(&[0, 0, 0, k]);
        if let Dec::Success(_) = decode_sub_at(crypto0, lp0, rp0, &b) {
          o.violate("c16.alteration-accepted", "submessage-transformation-kind-replaced", format!("{cfg:?}: {name} with transformation kind replaced by {k} still decoded"));
          return o;
        }
        tampered_authenticated += 1;
      }
    }
    for pos in positions(&mut c, &regions, 20) {
      let mut b = bytes.clone();
      b[pos] ^= mask;
      if let Dec::Success((got, _)) = decode_sub_at(crypto0, lp0, rp0, &b) {
        if got != plain_sub.body {
          o.violate("c16.altered-data-delivered", "submessage", format!("{cfg:?}: {name} byte {pos} ^ {mask:#x} decoded to a different submessage"));
          return o;
        }
        if let Region::Authenticated(what) = regions[pos] {
          o.violate("c16.alteration-accepted", &format!("submessage-{what}"), format!("{cfg:?}: {name}: alteration of {what} (byte {pos} of {}, ^ {mask:#x}) still decoded", bytes.len()));
          return o;
        }
        o.label("submessage-unauthenticated-byte-altered");
      } else if matches!(regions[pos], Region::Authenticated(_)) {
        tampered_authenticated += 1;
      }
    }
  }

  // ================================================================ message level
  if cfg.rtps != Prot::None {
    let n = 1 + c.pick(4);
    let mut subs = Vec::new();
    let mut names = Vec::new();
    for _ in 0..n {
      let ws = c.chance(200);
      let (k, f, b, name) = gen_plain_submessage(&mut c, ws);
      names.push(name);
      subs.push((k, f, b));
    }
    sample.push_str(&format!(" | message {names:?}"));
    let plain_bytes = datagram(&subs);
    let plain_msg = parse(&plain_bytes).expect("C16: own plaintext message must parse");
    let want = canonical_message(&plain_msg);
    let enc = match sender.crypto.encode_rtps_message(plain_msg.clone(), sender.p, all_p.clone()) {
      Ok(m) => m,
      Err(e) => {
        o.violate("c16.encode-error", "message", format!("{cfg:?}: {e:?}"));
        return o;
      }
    };
    let bytes = serialize(&enc);
    if plain_bytes.len() % 4 != 0 {
      odd_length = true;
    }
    for (i, r) in receivers.iter().enumerate() {
      match decode_msg_at(&r.crypto, r.p, r.sender_p, &bytes) {
        Dec::Success(got) if got == want => {}
        Dec::Success(_) => {
          o.violate("c16.roundtrip", "message-differs", format!("{cfg:?}: message {names:?} decoded differently at receiver {i}"));
          return o;
        }
        Dec::Rejected(why) => {
          o.violate(
            "c16.roundtrip",
            &format!("message-{:?}-rejected", cfg.rtps),
            format!("{cfg:?}: receiver {i} rejected an untouched protected message {names:?} ({} plaintext bytes): {why}", plain_bytes.len()),
          );
          return o;
        }
      }
    }
    let r0 = &receivers[0];
    if cfg.receivers >= 2 {
      if let Ok(m) = sender.crypto.encode_rtps_message(plain_msg.clone(), sender.p, vec![all_p[1]]) {
        match decode_msg_at(&r0.crypto, r0.p, r0.sender_p, &serialize(&m)) {
          Dec::Success(_) if cfg.rtps_origin => {
            o.violate(
              "c16.origin-authentication",
              "message-not-addressed",
              format!("{cfg:?}: a message carrying a receiver-specific MAC only for receiver 1 decoded at receiver 0"),
            );
            return o;
          }
          Dec::Success(_) => o.label("no-origin-authentication-other-receiver-decodes"),
          Dec::Rejected(_) => o.label("not-addressed-rejected"),
        }
      }
    }
    if cfg.rtps_origin {
      let (_, subs) = wire::walk(&bytes).expect("own datagram");
      if let Some(q) = subs.iter().find(|x| x.kind == SRTPS_POSTFIX) {
        let mut b = bytes[..q.offset + 4 + 16].to_vec();
        b.extend_from_slice(&[0, 0, 0, 0]);
        let le = bytes[q.offset + 1] & 1 == 1;
        let lb = if le { 20u16.to_le_bytes() } else { 20u16.to_be_bytes() };
        b[q.offset + 2] = lb[0];
        b[q.offset + 3] = lb[1];
        let mut z = bytes.clone();
        z[q.offset + 4 + 16..q.offset + 4 + 20].copy_from_slice(&[0, 0, 0, 0]);
        if let Dec::Success(_) = decode_msg_at(&r0.crypto, r0.p, r0.sender_p, &z) {
          o.violate(
            "c16.origin-authentication",
            "message-receiver-mac-count-zeroed",
            format!("{cfg:?}: a message with the receiver-specific MAC count set to 0 decoded although origin authentication is required"),
          );
          return o;
        }
        if let Dec::Success(_) = decode_msg_at(&r0.crypto, r0.p, r0.sender_p, &b) {
          o.violate(
            "c16.origin-authentication",
            "message-receiver-macs-stripped",
            format!("{cfg:?}: a message with all receiver-specific MACs stripped from the footer decoded although origin authentication is required"),
          );
          return o;
        }
        tampered_authenticated += 1;
      }
      if let Ok(m) = sender.crypto.encode_rtps_message(plain_msg.clone(), sender.p, vec![]) {
        if let Dec::Success(_) = decode_msg_at(&r0.crypto, r0.p, r0.sender_p, &serialize(&m)) {
          o.violate(
            "c16.origin-authentication",
            "message-encoded-for-nobody",
            format!("{cfg:?}: a message encoded for an empty receiver list decoded although origin authentication is required"),
          );
          return o;
        }
        o.label("encoded-for-nobody-rejected");
      }
    }
    // two legitimate senders at one receiver
    match sender_b.crypto.encode_rtps_message(plain_msg.clone(), sender_b.p, sender_b.recv_p.clone()) {
      Ok(m) => {
        let by_b = serialize(&m);
        if let Dec::Success(_) = decode_msg_at(&r0.crypto, r0.p, r0.sender_p, &by_b) {
          o.violate("c16.wrong-sender-accepted", "message", format!("{cfg:?}: a message encoded by participant B decoded as coming from participant A"));
          return o;
        }
      }
      Err(e) => {
        o.violate("c16.encode-error", "message-second-sender", format!("{cfg:?}: {e:?}"));
        return o;
      }
    }
    if let Dec::Success(_) = decode_msg_at(&r0.crypto, r0.p, b_p_at_r0, &bytes) {
      o.violate("c16.wrong-sender-accepted", "message", format!("{cfg:?}: a message encoded by participant A decoded as coming from participant B"));
      return o;
    }
    tampered_authenticated += 2;
    if let Ok(m) = impostor.crypto.encode_rtps_message(plain_msg.clone(), impostor.p, impostor.recv_p.clone()) {
      if let Dec::Success(_) = decode_msg_at(&r0.crypto, r0.p, r0.sender_p, &serialize(&m)) {
        o.violate("c16.foreign-key-accepted", "message", format!("{cfg:?}: a message protected under other key material decoded"));
        return o;
      }
    }
    let regions = match wrapped_regions(&bytes, SRTPS_PREFIX, SRTPS_POSTFIX, cfg.rtps, cfg.rtps_origin.then_some(0), true) {
      Ok(r) => r,
      Err(e) => {
        o.violate("c16.wire-layout", "message", format!("{cfg:?}: encoded message does not have the DDS-Security layout: {e}"));
        return o;
      }
    };
    if let Some(kpos) = regions.iter().position(|r| *r == Region::Authenticated("transformation-kind")) {
      for k in 0u8..=5 {
        if bytes[kpos..kpos + 4] == [0, 0, 0, k] {
          continue;
        }
        let mut b = bytes.clone();
        b[kpos..kpos + 4].copy_from_slice(&[0, 0, 0, k]);
        if let Dec::Success(_) = decode_msg_at(&r0.crypto, r0.p, r0.sender_p, &b) {
          o.violate("c16.alteration-accepted", "message-transformation-kind-replaced", format!("{cfg:?}: message with transformation kind replaced by {k} still decoded"));
          return o;
        }
        tampered_authenticated += 1;
      }
    }
    for pos in positions(&mut c, &regions, 0) {
      let mut b = bytes.clone();
      b[pos] ^= mask;
      if let Dec::Success(got) = decode_msg_at(&r0.crypto, r0.p, r0.sender_p, &b) {
        if got != want {
          o.violate("c16.altered-data-delivered", "message", format!("{cfg:?}: message byte {pos} ^ {mask:#x} decoded to a different message"));
          return o;
        }
        if let Region::Authenticated(what) = regions[pos] {
          o.violate("c16.alteration-accepted", &format!("message-{what}"), format!("{cfg:?}: message {names:?}: alteration of {what} (byte {pos} of {}, ^ {mask:#x}) still decoded", bytes.len()));
          return o;
        }
        o.label("message-unauthenticated-byte-altered");
      } else if matches!(regions[pos], Region::Authenticated(_)) {
        tampered_authenticated += 1;
      }
    }
  }

  for (lvl, p) in [("rtps", cfg.rtps), ("submessage", cfg.sub), ("payload", cfg.payload)] {
    o.label(match (lvl, p) {
      ("rtps", Prot::None) => "rtps-none",
      ("rtps", Prot::Sign) => "rtps-sign",
      ("rtps", Prot::Encrypt) => "rtps-encrypt",
      ("submessage", Prot::None) => "submessage-none",
      ("submessage", Prot::Sign) => "submessage-sign",
      ("submessage", Prot::Encrypt) => "submessage-encrypt",
      (_, Prot::None) => "payload-none",
      (_, Prot::Sign) => "payload-sign",
      (_, Prot::Encrypt) => "payload-encrypt",
    });
  }
  if cfg.sub_origin && cfg.sub != Prot::None {
    o.label("submessage-origin-authentication");
  }
  if cfg.rtps_origin && cfg.rtps != Prot::None {
    o.label("rtps-origin-authentication");
  }
  o.label(if cfg.key128 { "aes128" } else { "aes256" });
  o.sample = format!("{sample} | {tampered_authenticated} alterations of authenticated bytes rejected");
  o.digest = fnv(sample.as_bytes());
  let any = cfg.rtps != Prot::None || cfg.sub != Prot::None || cfg.payload != Prot::None;
  o.nontrivial = any && (odd_length || tampered_authenticated > 0);
  o
}

//! C03 — ACKNACKs never acknowledge or request what they should not.
//! Generator, model and clauses: rscript.rs (Focus::C03, check_replies).

use super::{rscript, Outcome, Property, Scenario};

pub fn property() -> Property {
  Property {
    id: "C03",
    level: "exploration",
    rule: "the reader-script generator of C01 (DATA / DATAFRAG / GAP / HEARTBEAT from 1-3 writers in \
           any order, loss, duplication) weighted towards HEARTBEATs with any first/last/count \
           (stale counts, first = last+1, ranges wider than 256) and final flag set or not, and \
           towards partially received fragmented samples; every matched writer is announced with a \
           unicast locator as discovery always provides. Every datagram the reader emits is captured \
           at the tap, decoded by the independent codec and by Message::read_from_buffer, and \
           compared with the bookkeeping model as of the moment the HEARTBEAT was processed. \
           Non-trivial = a reply carried at least one requested sequence number or fragment, or \
           acknowledged past a GAP. Distinct = distinct decoded histories.",
    assumptions: &[
      "a HEARTBEAT whose count is not above the last one accepted from that writer is a duplicate and is ignored (RTPS 2.5, 8.3.8.6.5 / 8.4.15.7); the generator also sends such heartbeats with other contents than the original, which no conforming writer does",
      "count growth is checked per submessage kind (ACKNACK and NACKFRAG are numbered from one counter, but the NACKFRAGs of a reply are emitted before its ACKNACK)",
      "a HEARTBEAT whose count is not newer than the last processed one is legitimately ignored",
      "writers matched with >= 1 unicast locator (callers' precondition)",
    ],
    scenarios: &[Scenario {
      id: 0,
      name: "reader replies vs bookkeeping model",
      quick: 20_000,
      thorough: 3_000_000,
      max_len: 700,
      max_threads: 0,
    }],
    run,
    exhaustive: None,
  }
}

pub fn run(_scenario: u32, choices: &[u8], strict: bool) -> Outcome {
  rscript::run(rscript::Focus::C03, choices, strict)
}

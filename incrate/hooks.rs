//! Runtime side of the guarded hooks that sit in /repo (cfg(rustdds_verif)).
//!
//! Call sites in /repo are one-liners such as
//! `#[cfg(rustdds_verif)] if let Some(t) = crate::verif::hooks::clock_now() { return t; }`.
//! Everything is thread-local unless stated, so that cases running on
//! different engine threads cannot influence each other.

use std::{
  cell::{Cell, RefCell},
  collections::{BTreeMap, BTreeSet},
  sync::{
    atomic::{AtomicBool, AtomicU64, Ordering},
    Mutex,
  },
  time::{Duration as StdDuration, Instant},
};

use crate::structure::{locator::Locator, time::Timestamp};

// ---------------------------------------------------------------- virtual clock

thread_local! {
  static VCLOCK: Cell<Option<u64>> = const { Cell::new(None) };
  static VINSTANT_OFFSET: Cell<Option<StdDuration>> = const { Cell::new(None) };
  static VINSTANT_BASE: Cell<Option<Instant>> = const { Cell::new(None) };
}

/// Virtual `Timestamp::now()`: strictly increasing by one tick per call.
pub fn clock_now() -> Option<Timestamp> {
  VCLOCK.with(|c| {
    c.get().map(|t| {
      c.set(Some(t + 1));
      Timestamp::from_ticks(t)
    })
  })
}

/// Start virtual time for this thread at 1_000_000 s (ticks are 2^-32 s).
pub fn clock_start() {
  VCLOCK.with(|c| c.set(Some(1_000_000u64 << 32)));
}

pub fn clock_stop() {
  VCLOCK.with(|c| c.set(None));
}

pub fn clock_advance_nanos(nanos: u64) {
  VCLOCK.with(|c| {
    if let Some(t) = c.get() {
      let ticks = ((u128::from(nanos) << 32) / 1_000_000_000u128) as u64;
      c.set(Some(t + ticks.max(1)));
    }
  });
}

pub fn clock_peek() -> Option<Timestamp> {
  VCLOCK.with(|c| c.get().map(Timestamp::from_ticks))
}

/// Virtual `Instant::now()` for DiscoveryDB: a fixed base plus a driver-controlled
/// offset (so that no real time passes between two calls).
pub fn instant_now() -> Instant {
  VINSTANT_OFFSET.with(|o| match o.get() {
    None => Instant::now(),
    Some(off) => VINSTANT_BASE.with(|b| b.get().unwrap()) + off,
  })
}

pub fn instant_start() {
  VINSTANT_BASE.with(|b| b.set(Some(Instant::now())));
  VINSTANT_OFFSET.with(|o| o.set(Some(StdDuration::from_secs(0))));
}

pub fn instant_stop() {
  VINSTANT_OFFSET.with(|o| o.set(None));
}

pub fn instant_advance(d: StdDuration) {
  VINSTANT_OFFSET.with(|o| {
    if let Some(off) = o.get() {
      o.set(Some(off + d));
    }
  });
}

// ---------------------------------------------------------------- datagram tap

thread_local! {
  static CAPTURE: RefCell<Option<Vec<(Locator, Vec<u8>)>>> = const { RefCell::new(None) };
}

/// process-wide fault policy for live participants (C07): loss per 256 and dup per 256
static FAULT_ON: AtomicBool = AtomicBool::new(false);
static FAULT_LOSS: AtomicU64 = AtomicU64::new(0);
static FAULT_DUP: AtomicU64 = AtomicU64::new(0);
static FAULT_SEED: AtomicU64 = AtomicU64::new(0);
static FAULT_COUNTER: AtomicU64 = AtomicU64::new(0);
pub static FAULT_DROPPED: AtomicU64 = AtomicU64::new(0);
pub static FAULT_DUPLICATED: AtomicU64 = AtomicU64::new(0);

pub enum TapDecision {
  /// the datagram was captured (or dropped): do not touch the socket
  Swallow,
  /// send normally
  Send,
  /// send twice
  SendTwice,
}

thread_local! {
  static TAP_BYPASS: Cell<bool> = const { Cell::new(false) };
}

pub fn tap_bypass(on: bool) {
  TAP_BYPASS.with(|b| b.set(on));
}

pub fn tap(buffer: &[u8], locator: &Locator) -> TapDecision {
  if TAP_BYPASS.with(Cell::get) {
    return TapDecision::Send;
  }
  let captured = CAPTURE.with(|c| {
    if let Some(v) = c.borrow_mut().as_mut() {
      v.push((*locator, buffer.to_vec()));
      true
    } else {
      false
    }
  });
  if captured {
    return TapDecision::Swallow;
  }
  // per-domain policy (C07: several live cases at once, each in its own domain)
  if DOMAIN_FAULTS_ON.load(Ordering::Relaxed) > 0 {
    let port = match locator {
      Locator::UdpV4(a) => Some(a.port()),
      Locator::UdpV6(a) => Some(a.port()),
      _ => None,
    };
    if let Some(port) = port {
      if port >= 7400 {
        let domain = usize::from((port - 7400) / 250);
        let packed = DOMAIN_FAULTS[domain.min(255)].load(Ordering::Relaxed);
        if packed != 0 {
          let loss = packed & 0xff;
          let dup = (packed >> 8) & 0xff;
          let seed = packed >> 16;
          // The fate of a datagram is a function of what it carries (submessage kinds, entity
          // ids, sequence numbers - not GUID prefixes, timestamps or counts) and of how many
          // datagrams with that content went before it: a second attempt of the same case with
          // the same seed loses the same logical datagrams, so a loss-dependent defect repeats.
          let key = logical_key(buffer);
          let n = {
            let mut m = DOMAIN_OCCURRENCES.lock().unwrap();
            let c = m.entry((domain as u16, key)).or_insert(0u32);
            *c += 1;
            u64::from(*c)
          };
          FAULT_COUNTER.fetch_add(1, Ordering::Relaxed);
          let r = splitmix(key ^ seed ^ (n << 40)) & 0xff;
          if r < loss {
            FAULT_DROPPED.fetch_add(1, Ordering::Relaxed);
            return TapDecision::Swallow;
          }
          if r < loss + dup {
            FAULT_DUPLICATED.fetch_add(1, Ordering::Relaxed);
            return TapDecision::SendTwice;
          }
        }
      }
    }
  }
  if FAULT_ON.load(Ordering::Relaxed) {
    let n = FAULT_COUNTER.fetch_add(1, Ordering::Relaxed);
    let mut h = n ^ FAULT_SEED.load(Ordering::Relaxed);
    // splitmix64
    h = h.wrapping_add(0x9e3779b97f4a7c15);
    h = (h ^ (h >> 30)).wrapping_mul(0xbf58476d1ce4e5b9);
    h = (h ^ (h >> 27)).wrapping_mul(0x94d049bb133111eb);
    h ^= h >> 31;
    let r = h & 0xff;
    let loss = FAULT_LOSS.load(Ordering::Relaxed);
    let dup = FAULT_DUP.load(Ordering::Relaxed);
    if r < loss {
      FAULT_DROPPED.fetch_add(1, Ordering::Relaxed);
      return TapDecision::Swallow;
    }
    if r < loss + dup {
      FAULT_DUPLICATED.fetch_add(1, Ordering::Relaxed);
      return TapDecision::SendTwice;
    }
  }
  TapDecision::Send
}

fn splitmix(mut h: u64) -> u64 {
  h = h.wrapping_add(0x9e3779b97f4a7c15);
  h = (h ^ (h >> 30)).wrapping_mul(0xbf58476d1ce4e5b9);
  h = (h ^ (h >> 27)).wrapping_mul(0x94d049bb133111eb);
  h ^ (h >> 31)
}

static DOMAIN_OCCURRENCES: Mutex<BTreeMap<(u16, u64), u32>> = Mutex::new(BTreeMap::new());

/// content key of an RTPS datagram for the fault policy
fn logical_key(b: &[u8]) -> u64 {
  let mut h = 0xcbf2_9ce4_8422_2325u64;
  let mut mix = |x: u64| {
    h ^= x;
    h = h.wrapping_mul(0x100_0000_01b3);
  };
  if b.len() < 20 {
    return b.len() as u64;
  }
  let mut pos = 20;
  while pos + 4 <= b.len() {
    let kind = b[pos];
    let le = b[pos + 1] & 1 == 1;
    let l = if le { u16::from_le_bytes([b[pos + 2], b[pos + 3]]) } else { u16::from_be_bytes([b[pos + 2], b[pos + 3]]) } as usize;
    let body_len = if l == 0 && kind != 0x01 && kind != 0x09 { b.len() - pos - 4 } else { l };
    let end = (pos + 4 + body_len).min(b.len());
    let body = &b[pos + 4..end];
    mix(u64::from(kind));
    let rd32 = |o: usize| -> u64 {
      if o + 4 > body.len() {
        return 0;
      }
      let a = [body[o], body[o + 1], body[o + 2], body[o + 3]];
      u64::from(if le { u32::from_le_bytes(a) } else { u32::from_be_bytes(a) })
    };
    let ids = |o: usize| -> u64 {
      if o + 8 > body.len() {
        return 0;
      }
      u64::from_be_bytes([body[o], body[o + 1], body[o + 2], body[o + 3], body[o + 4], body[o + 5], body[o + 6], body[o + 7]])
    };
    match kind {
      // DATA, DATAFRAG: entity ids, sequence number (low word), fragment start
      0x15 | 0x16 => {
        mix(ids(4));
        mix(rd32(16));
        if kind == 0x16 {
          mix(rd32(20));
        }
      }
      // HEARTBEAT: ids, first and last (low words)
      0x07 => {
        mix(ids(0));
        mix(rd32(12));
        mix(rd32(20));
      }
      // ACKNACK, GAP, NACKFRAG, HEARTBEATFRAG: ids and the first number that follows
      0x06 | 0x08 | 0x12 | 0x13 => {
        mix(ids(0));
        mix(rd32(12));
      }
      _ => {}
    }
    pos = end;
  }
  h
}

static DOMAIN_FAULTS_ON: AtomicU64 = AtomicU64::new(0);
#[allow(clippy::declare_interior_mutable_const)]
const DF_ZERO: AtomicU64 = AtomicU64::new(0);
static DOMAIN_FAULTS: [AtomicU64; 256] = [DF_ZERO; 256];

/// loss / duplication per 256 datagrams for everything sent to ports of `domain`
/// (0, 0 switches it off)
pub fn domain_fault_policy(domain: u16, loss_per_256: u64, dup_per_256: u64, seed: u64) {
  let packed = if loss_per_256 == 0 && dup_per_256 == 0 {
    0
  } else {
    (loss_per_256 & 0xff) | ((dup_per_256 & 0xff) << 8) | (seed << 16)
  };
  DOMAIN_OCCURRENCES.lock().unwrap().retain(|(d, _), _| *d != domain);
  let old = DOMAIN_FAULTS[usize::from(domain).min(255)].swap(packed, Ordering::Relaxed);
  match (old != 0, packed != 0) {
    (false, true) => {
      DOMAIN_FAULTS_ON.fetch_add(1, Ordering::Relaxed);
    }
    (true, false) => {
      DOMAIN_FAULTS_ON.fetch_sub(1, Ordering::Relaxed);
    }
    _ => {}
  }
}

pub fn capture_start() {
  CAPTURE.with(|c| *c.borrow_mut() = Some(Vec::new()));
}

pub fn capture_stop() {
  CAPTURE.with(|c| *c.borrow_mut() = None);
}

pub fn capture_len() -> usize {
  CAPTURE.with(|c| c.borrow().as_ref().map_or(0, Vec::len))
}

pub fn capture_drain() -> Vec<(Locator, Vec<u8>)> {
  CAPTURE.with(|c| {
    c.borrow_mut()
      .as_mut()
      .map(std::mem::take)
      .unwrap_or_default()
  })
}

pub fn fault_policy(on: bool, loss_per_256: u64, dup_per_256: u64, seed: u64) {
  FAULT_LOSS.store(loss_per_256, Ordering::Relaxed);
  FAULT_DUP.store(dup_per_256, Ordering::Relaxed);
  FAULT_SEED.store(seed, Ordering::Relaxed);
  FAULT_ON.store(on, Ordering::Relaxed);
}

// ---------------------------------------------------------------- tick budget

thread_local! {
  static TICKS: Cell<u64> = const { Cell::new(0) };
  static TICK_LIMIT: Cell<u64> = const { Cell::new(u64::MAX) };
  static HANDLER_REACHED: Cell<u64> = const { Cell::new(0) };
}

pub const TICK_PANIC_TAG: &str = "VERIF-TICK-BUDGET-EXCEEDED";

/// Called from value-driven loops in /repo. Unwinds when the per-case budget
/// is exceeded, turning "unbounded time" into a reproducible failure.
#[inline]
pub fn tick() {
  TICKS.with(|t| {
    let n = t.get() + 1;
    t.set(n);
    if n > TICK_LIMIT.with(Cell::get) {
      // disarm, so that unwinding code that ticks again does not double panic
      TICK_LIMIT.with(|l| l.set(u64::MAX));
      panic!("{TICK_PANIC_TAG}");
    }
  });
}

#[inline]
pub fn tick_n(n: u64) {
  TICKS.with(|t| {
    let v = t.get().saturating_add(n);
    t.set(v);
    if v > TICK_LIMIT.with(Cell::get) {
      TICK_LIMIT.with(|l| l.set(u64::MAX));
      panic!("{TICK_PANIC_TAG}");
    }
  });
}

pub fn tick_reset(limit: u64) {
  TICKS.with(|t| t.set(0));
  TICK_LIMIT.with(|l| l.set(limit));
}

pub fn tick_disarm() {
  TICK_LIMIT.with(|l| l.set(u64::MAX));
}

pub fn ticks() -> u64 {
  TICKS.with(Cell::get)
}

pub fn handler_reached() {
  HANDLER_REACHED.with(|h| h.set(h.get() + 1));
}

pub fn handler_reached_take() -> u64 {
  HANDLER_REACHED.with(|h| h.replace(0))
}

// ---------------------------------------------------------------- allocation probe
// The engine binary installs a counting global allocator and registers a probe.

pub struct AllocStats {
  pub live: usize,
  pub peak: usize,
}

static ALLOC_PROBE: Mutex<Option<(fn() -> AllocStats, fn())>> = Mutex::new(None);

pub fn set_alloc_probe(read: fn() -> AllocStats, reset_peak: fn()) {
  *ALLOC_PROBE.lock().unwrap() = Some((read, reset_peak));
}

pub fn alloc_stats() -> Option<AllocStats> {
  let p = *ALLOC_PROBE.lock().unwrap();
  p.map(|(r, _)| r())
}

pub fn alloc_reset_peak() {
  let p = *ALLOC_PROBE.lock().unwrap();
  if let Some((_, r)) = p {
    r();
  }
}

// ---------------------------------------------------------------- known-finding exclusions
// process-wide: set by the engine before a campaign starts

static EXCLUSIONS: Mutex<BTreeSet<String>> = Mutex::new(BTreeSet::new());

pub fn exclusion_enable(name: &str) {
  EXCLUSIONS.lock().unwrap().insert(name.to_string());
}

pub fn exclusion_clear() {
  EXCLUSIONS.lock().unwrap().clear();
}

pub fn excluded(name: &str) -> bool {
  EXCLUSIONS.lock().unwrap().contains(name)
}

// ---------------------------------------------------------------- yield points (C13)

thread_local! {
  static YIELD_CB: RefCell<Option<Box<dyn Fn(u32)>>> = const { RefCell::new(None) };
}

/// Called between the steps named in property C13, always outside locks that the
/// other thread may want. No-op unless the current thread takes part in a
/// cooperative schedule.
#[inline]
pub fn yield_point(id: u32) {
  YIELD_CB.with(|cb| {
    if let Some(f) = cb.borrow().as_ref() {
      f(id);
    }
  });
}

pub fn yield_install(f: Box<dyn Fn(u32)>) {
  YIELD_CB.with(|cb| *cb.borrow_mut() = Some(f));
}

pub fn yield_uninstall() {
  YIELD_CB.with(|cb| *cb.borrow_mut() = None);
}

// ---------------------------------------------------------------- optional logging (debugging aid)

struct StderrLogger;
impl log::Log for StderrLogger {
  fn enabled(&self, _m: &log::Metadata) -> bool {
    true
  }
  fn log(&self, r: &log::Record) {
    let filter = std::env::var("VERIF_LOG_FILTER").unwrap_or_default();
    let line = format!("{}", r.args());
    if filter.is_empty() || filter.split(',').any(|f| r.target().contains(f) || line.contains(f)) {
      eprintln!(
        "[{:?}] {} {}: {}",
        std::thread::current().name().unwrap_or("?"),
        r.level(),
        r.target(),
        line.chars().take(400).collect::<String>()
      );
    }
  }
  fn flush(&self) {}
}
static LOGGER: StderrLogger = StderrLogger;

/// VERIF_LOG=info|debug|trace switches on RustDDS's own log output on stderr
pub fn init_logging_from_env() {
  static ONCE: std::sync::Once = std::sync::Once::new();
  ONCE.call_once(|| {
    if let Ok(l) = std::env::var("VERIF_LOG") {
      let lvl = match l.as_str() {
        "trace" => log::LevelFilter::Trace,
        "debug" => log::LevelFilter::Debug,
        "warn" => log::LevelFilter::Warn,
        _ => log::LevelFilter::Info,
      };
      let _ = log::set_logger(&LOGGER);
      log::set_max_level(lvl);
    }
  });
}

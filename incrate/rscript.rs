//! Reader-side script engine shared by C01, C03 and C05: generates a history of
//! DATA / DATAFRAG / HEARTBEAT / GAP submessages from 1-3 remote writers in any
//! arrival order with loss and duplication, interleaved with application takes;
//! injects it as real datagrams through MessageReceiver::handle_received_packet;
//! keeps a bookkeeping model of what the writers told the reader; evaluates the
//! clauses of the property in focus.

use std::collections::{BTreeMap, BTreeSet};

use super::{
  fnv,
  frontend::{self, Raw, RawAdapter},
  hex, hooks,
  rig::{self, eid_bytes, CaseGuard, Node},
  wire::{self, Decoded},
  Choices, Outcome,
};
use crate::{
  dds::{
    qos::QosPolicies,
    readcondition::ReadCondition,
    with_key::{datareader::DataReader, datasample::Sample, simpledatareader::SimpleDataReader},
  },
  structure::{
    guid::{EntityId, GUID},
    sequence_number::SequenceNumber,
  },
};

#[derive(Clone, Copy, PartialEq, Eq, Debug)]
pub enum Focus {
  C01,
  C03,
  C05,
}

#[derive(Clone, Debug)]
struct Delivered {
  /// serialized payload incl. the 4-byte encapsulation header
  payload: Vec<u8>,
  key_flag: bool,
  ts: Option<u64>,
}

struct WriterModel {
  idx: usize,
  guid: GUID,
  prefix: [u8; 12],
  eid: [u8; 4],
  matched: bool,
  fsize: u16,
  /// some fragmented samples of this writer have several hundred fragments (more than the 256
  /// a fragment-number set can name)
  huge: bool,
  hb_seen: i32,
  rcv: BTreeMap<i64, Delivered>,
  /// processed declarations: every sn < ubelow, and the members of uset
  ubelow: i64,
  uset: BTreeSet<i64>,
  /// all declarations, processed or not (permissive side of clause 3)
  uall_below: i64,
  uall_set: BTreeSet<i64>,
  /// assembler state: sn -> received fragment numbers
  frags: BTreeMap<i64, BTreeSet<u32>>,
  assembler_exists: bool,
  handed: BTreeSet<i64>,
  last_handed: i64,
  an_last_base: Option<i64>,
  an_last_count: Option<i32>,
  nf_last_count: Option<i32>,
  /// per-sample description fixed for the case
  salt: u8,
}

impl WriterModel {
  fn known(&self, sn: i64) -> bool {
    sn < self.ubelow || self.uset.contains(&sn) || self.rcv.contains_key(&sn)
  }
  fn frontier(&self) -> i64 {
    let mut f = self.ubelow.max(1);
    while self.uset.contains(&f) || self.rcv.contains_key(&f) {
      f += 1;
    }
    f
  }
  fn declared_any(&self, sn: i64) -> bool {
    sn < self.uall_below || self.uall_set.contains(&sn)
  }
  /// what the application can be given now
  fn available(&self) -> BTreeSet<i64> {
    let f = self.frontier();
    self
      .rcv
      .range(..f)
      .map(|(s, _)| *s)
      .filter(|s| !self.handed.contains(s))
      .collect()
  }
}

/// sample description: a pure function of (case salt, writer, sn)
struct SampleDesc {
  payload: Vec<u8>,
  key_flag: bool,
  ts: Option<u64>,
  fragmented: bool,
}

fn sample_desc(w: &WriterModel, sn: i64, big_mask: u32, focus: Focus) -> SampleDesc {
  let h = fnv(&[w.salt, w.idx as u8, sn as u8, (sn >> 8) as u8]);
  let fragmented = (big_mask >> ((sn as u32) % 32)) & 1 == 1;
  let key_flag = !fragmented && h % 11 == 0;
  let fs = w.fsize as usize;
  let vlen: usize = if fragmented {
    // total serialized size S = k*fs + r (k = 1..5 fragments' worth, every
    // residue around a multiple of the fragment size), at least two fragments
    let k = if w.huge && (h >> 40) % 3 == 0 { 250 + (h >> 44) as usize % 60 } else { 1 + (h >> 8) as usize % 5 };
    let r = [0usize, 1, 2, 3, fs - 1, fs - 2, fs / 2][(h >> 16) as usize % 7];
    (k * fs + r).max(fs + 1) - 4
  } else if key_flag {
    1 + (h >> 8) as usize % 3
  } else {
    1 + (h >> 8) as usize % 40
  };
  let vlen = vlen.max(1);
  let mut payload = Vec::with_capacity(4 + vlen);
  // encapsulation header: CDR_LE / CDR_BE
  payload.extend_from_slice(if h & 1 == 0 { &[0, 1, 0, 0] } else { &[0, 0, 0, 0] });
  // first value byte = instance key (small), rest = recognisable content
  payload.push((h >> 24) as u8 % 4);
  for i in 1..vlen {
    payload.push(((i as u64).wrapping_mul(131) ^ h ^ (sn as u64) << 3) as u8);
  }
  let ts = match (h >> 32) % 5 {
    0 => None,
    k => Some((2_000_000u64 << 32) + ((sn as u64 % 3) << 20) + k),
  };
  let _ = focus;
  SampleDesc {
    payload,
    key_flag,
    ts,
    fragmented,
  }
}

#[derive(Clone, Debug)]
enum Sub {
  Data { w: usize, sn: i64 },
  /// `short`: bytes missing at the end of the payload (a well-formed DATAFRAG that carries less
  /// than its fragments need); 0 = complete
  Frag { w: usize, sn: i64, start: u32, count: u16, short: u16 },
  Hb { w: usize, first: i64, last: i64, count: i32, fin: bool },
  /// `dirty`: the padding bits behind numBits in the last bitmap word are set (they mean nothing)
  Gap { w: usize, start: i64, base: i64, bits: BTreeSet<i64>, num_bits: u32, dirty: bool },
}

#[derive(Clone, Debug)]
enum Step {
  Datagram { group: usize, subs: Vec<(Sub, bool, bool)> }, // (sub, little-endian, explicit reader id)
  Take { max: usize },
}

enum Front {
  Simple(SimpleDataReader<Raw, RawAdapter>),
  Full(DataReader<Raw, RawAdapter>),
}

struct Handed {
  writer: GUID,
  sn: i64,
  value: Option<Raw>,
  dispose_key: Option<u8>,
  ts: Option<u64>,
}

fn drain_front(front: &mut Front, max: usize) -> Result<Vec<Handed>, String> {
  let mut out = Vec::new();
  match front {
    Front::Simple(s) => {
      s.drain_read_notifications();
      while out.len() < max {
        match s.try_take_one() {
          Ok(Some(dcc)) => out.push(Handed {
            writer: dcc.writer_guid,
            sn: i64::from(dcc.sequence_number),
            ts: dcc.write_options.source_timestamp().map(|t| t.to_ticks()),
            value: match &dcc.sample {
              Sample::Value(v) => Some(v.clone()),
              Sample::Dispose(_) => None,
            },
            dispose_key: match &dcc.sample {
              Sample::Dispose(k) => Some(*k),
              Sample::Value(_) => None,
            },
          }),
          Ok(None) => break,
          Err(e) => return Err(format!("{e:?}")),
        }
      }
    }
    Front::Full(d) => {
      let v = if max == 1 {
        match d.take_next_sample() {
          Ok(o) => o.into_iter().collect::<Vec<_>>(),
          Err(e) => return Err(format!("{e:?}")),
        }
      } else {
        match d.take(max, ReadCondition::any()) {
          Ok(v) => v,
          Err(e) => return Err(format!("{e:?}")),
        }
      };
      for ds in v {
        let info = ds.sample_info().clone();
        let si = info.sample_identity();
        let (value, dispose_key) = match ds.into_value() {
          Sample::Value(v) => (Some(v), None),
          Sample::Dispose(k) => (None, Some(k)),
        };
        out.push(Handed {
          writer: si.writer_guid,
          sn: i64::from(si.sequence_number),
          value,
          dispose_key,
          ts: info.source_timestamp().map(|t| t.to_ticks()),
        });
      }
    }
  }
  Ok(out)
}

struct Expected {
  /// expected reply to a processed heartbeat
  w: usize,
  hb_first: i64,
  hb_last: i64,
  fin: bool,
  frontier: i64,
  missing: Vec<i64>,
  /// partially received among the missing: sn -> missing fragment numbers
  partial: BTreeMap<i64, Vec<u32>>,
}

pub fn run(focus: Focus, choices: &[u8], _strict: bool) -> Outcome {
  let mut c = Choices::new(choices);
  let mut o = Outcome::new();
  let _guard = CaseGuard::new();

  // ---------------------------------------------------------------- configuration
  let nwriters = 1 + c.weighted(&[5, 3, 2]);
  let wide = c.chance(40);
  let big_mask: u32 = match focus {
    Focus::C05 => {
      if c.chance(200) {
        c.u32() | 0x0101_0101
      } else {
        0
      }
    }
    _ => {
      if c.chance(110) {
        c.u32() & c.u32()
      } else {
        0
      }
    }
  };
  let use_full = c.bool();
  let mut node = Node::new(0);
  let reader_eid = rig::user_reader_eid(1, true);
  let ri = node.add_reader(reader_eid, "rig_topic", &rig::reliable_qos());
  let reader_guid = node.readers[ri].guid;
  let mut writers: Vec<WriterModel> = Vec::new();
  for i in 0..nwriters {
    let prefix_node = 10 + (i / 2) as u8;
    let guid = GUID::new(
      rig::node_prefix(prefix_node),
      rig::user_writer_eid((i % 2) as u8 + 1, true),
    );
    let matched = i == 0 || !c.chance(50);
    let fsize = [8u16, 12, 16, 32, 64][c.pick(5)];
    let huge = big_mask != 0 && c.chance(60);
    let fsize = if huge { 8 } else { fsize };
    if matched {
      node.reader_mut(ri).update_writer_proxy(
        rig::writer_proxy_for(guid, rig::node_locator(prefix_node)),
        &rig::reliable_qos(),
      );
    }
    writers.push(WriterModel {
      idx: i,
      guid,
      prefix: guid.prefix.bytes,
      eid: eid_bytes(guid.entity_id),
      matched,
      fsize,
      huge,
      hb_seen: 0,
      rcv: BTreeMap::new(),
      ubelow: 1,
      uset: BTreeSet::new(),
      uall_below: 1,
      uall_set: BTreeSet::new(),
      frags: BTreeMap::new(),
      assembler_exists: false,
      handed: BTreeSet::new(),
      last_handed: 0,
      an_last_base: None,
      an_last_count: None,
      nf_last_count: None,
      salt: c.byte(),
    });
  }
  let _ = hooks::capture_drain(); // matching emits nothing, but be clean
  let mut front = if use_full {
    Front::Full(frontend::data_reader::<Raw, RawAdapter>(&mut node.readers[ri]))
  } else {
    Front::Simple(frontend::simple_reader::<Raw, RawAdapter>(&mut node.readers[ri], true))
  };
  o.label(if use_full { "api:DataReader" } else { "api:SimpleDataReader" });
  if nwriters > 1 {
    o.label("multi-writer");
  }
  if wide {
    o.label("window>256");
  }

  let sn_pool: Vec<i64> = if wide {
    (1..=8).chain(262..=278).collect()
  } else {
    (1..=20).collect()
  };
  let pick_sn = |c: &mut Choices| sn_pool[c.pick(sn_pool.len())];

  // ---------------------------------------------------------------- script
  let nsteps = c.usize_in(4, 60);
  let mut steps: Vec<Step> = Vec::new();
  let mut hb_counts = vec![0i32; nwriters];
  let mut gen_frags: BTreeMap<(usize, i64), BTreeSet<u32>> = BTreeMap::new();
  let sub_weights: [u32; 4] = match focus {
    Focus::C01 => [10, if big_mask != 0 { 8 } else { 0 }, 4, 4],
    Focus::C03 => [8, if big_mask != 0 { 8 } else { 0 }, 8, 3],
    Focus::C05 => [3, if big_mask != 0 { 16 } else { 2 }, 2, 1],
  };
  for _ in 0..nsteps {
    if c.chance(48) {
      steps.push(Step::Take {
        max: [1usize, 2, usize::MAX][c.pick(3)],
      });
      continue;
    }
    let group = c.pick((nwriters + 1) / 2);
    let group_writers: Vec<usize> = (0..nwriters).filter(|i| i / 2 == group).collect();
    let nsub = 1 + c.weighted(&[6, 2, 1]);
    let mut subs = Vec::new();
    for _ in 0..nsub {
      let w = group_writers[c.pick(group_writers.len())];
      let le = c.bool();
      let explicit = !c.chance(80);
      let sub = match c.weighted(&sub_weights) {
        0 => Sub::Data { w, sn: pick_sn(&mut c) },
        1 => {
          // prefer continuing a sample whose assembly is in progress, so that
          // fragment sets do complete (in any order, with duplicates)
          let in_progress: Vec<i64> = gen_frags
            .iter()
            .filter(|((gw, _), _)| *gw == w)
            .map(|((_, s), _)| *s)
            .collect();
          let sn = if !in_progress.is_empty() && c.chance(190) {
            in_progress[c.pick(in_progress.len())]
          } else {
            pick_sn(&mut c)
          };
          let d = sample_desc(&writers[w], sn, big_mask, focus);
          if !d.fragmented {
            Sub::Data { w, sn }
          } else {
            let total = ((d.payload.len() + writers[w].fsize as usize - 1) / writers[w].fsize as usize) as u32;
            let have = gen_frags.entry((w, sn)).or_default();
            let missing: Vec<u32> = (1..=total).filter(|f| !have.contains(f)).collect();
            let start = if !missing.is_empty() && c.chance(200) {
              missing[c.pick(missing.len())]
            } else {
              1 + c.pick(total as usize) as u32
            };
            // several fragments per DATAFRAG (groups may overlap what is already there): often
            // for C05, now and then for the others too
            let count = if c.chance(if focus == Focus::C05 { 50 } else { 25 }) {
              1 + c.pick((total - start + 1) as usize) as u16
            } else {
              1
            };
            // now and then the DATAFRAG carries fewer bytes than its fragments need
            let short = if c.chance(if focus == Focus::C05 { 28 } else { 8 }) { 1 + c.pick(writers[w].fsize as usize) as u16 } else { 0 };
            if short == 0 {
              let have = gen_frags.entry((w, sn)).or_default();
              have.insert(start);
              if have.len() as u32 == total {
                gen_frags.remove(&(w, sn));
              }
            }
            Sub::Frag { w, sn, start, count, short }
          }
        }
        2 => {
          let first = match c.pick(4) {
            0 => 1,
            _ => pick_sn(&mut c),
          };
          let last = match c.pick(5) {
            0 => first - 1,
            1 => first,
            2 => first + 300,
            _ => pick_sn(&mut c).max(first),
          };
          let count = if c.chance(40) {
            hb_counts[w] // stale / duplicate count
          } else {
            hb_counts[w] += 1 + c.pick(3) as i32;
            hb_counts[w]
          };
          Sub::Hb { w, first, last, count, fin: c.bool() }
        }
        _ => {
          let start = pick_sn(&mut c);
          let base = match c.pick(4) {
            0 => start,
            1 => start + 1,
            _ => start + 1 + c.pick(6) as i64,
          };
          let num_bits = [0u32, 1, 8, 33, 256, 2, 5, 31][c.pick(8)];
          let mut bits = BTreeSet::new();
          for k in 0..num_bits.min(40) {
            if c.chance(60) {
              bits.insert(base + i64::from(k));
            }
          }
          let dirty = num_bits % 32 != 0 && c.chance(70);
          Sub::Gap { w, start, base, bits, num_bits, dirty }
        }
      };
      subs.push((sub, le, explicit));
    }
    steps.push(Step::Datagram { group, subs });
  }
  steps.push(Step::Take { max: usize::MAX });

  o.sample = format!(
    "writers={:?} wide={wide} big_mask={big_mask:#x} steps={:?}",
    writers
      .iter()
      .map(|w| (w.idx, w.matched, w.fsize))
      .collect::<Vec<_>>(),
    steps
  );
  o.digest = fnv(o.sample.as_bytes());

  // ---------------------------------------------------------------- execution
  let mut seen_ooo = false;
  let mut seen_dup = false;
  let mut seen_hole = false;
  let mut seen_frag_ooo = false;
  let mut seen_frag_dup = false;
  let mut seen_interleave = false;
  let mut multi_frag_sample_done = false;
  let mut last_frag_key: Option<(usize, i64)> = None;
  let mut total_handed = 0usize;
  let mut nack_seen = false;
  let mut nackfrag_seen = false;
  let mut ack_past_gap = false;
  let mut arrived: Vec<BTreeSet<i64>> = vec![BTreeSet::new(); nwriters];
  let mut max_arrived = vec![0i64; nwriters];

  for (stepno, step) in steps.iter().enumerate() {
    match step {
      Step::Datagram { group, subs } => {
        let prefix = writers[group * 2].prefix;
        let mut dg = wire::rtps_header((2, 4), [1, 0x12], &prefix);
        let mut ts_in_force: Option<u64> = None;
        let mut expected: Vec<Expected> = Vec::new();
        for (sub, le, explicit) in subs {
          let rid = if *explicit {
            eid_bytes(reader_eid)
          } else {
            eid_bytes(EntityId::UNKNOWN)
          };
          match sub {
            Sub::Data { w, sn } => {
              let d = sample_desc(&writers[*w], *sn, big_mask, focus);
              if d.ts != ts_in_force {
                let (f, b) = wire::info_ts_body(*le, d.ts.map(|t| ((t >> 32) as u32, t as u32)));
                wire::push_submessage(&mut dg, wire::INFO_TS, f, &b, None);
                ts_in_force = d.ts;
              }
              let spec = wire::DataSpec {
                reader_id: rid,
                writer_id: writers[*w].eid,
                sn: *sn,
                inline_qos: if d.key_flag {
                  Some(vec![(wire::PID_STATUS_INFO, vec![0, 0, 0, 1])])
                } else {
                  None
                },
                payload: Some(d.payload.clone()),
                key_flag: d.key_flag,
              };
              let (f, b) = wire::data_body(*le, &spec);
              wire::push_submessage(&mut dg, wire::DATA, f, &b, None);
              // labels
              if arrived[*w].contains(sn) {
                seen_dup = true;
              }
              if *sn < max_arrived[*w] && !arrived[*w].contains(sn) {
                seen_ooo = true;
              }
              arrived[*w].insert(*sn);
              max_arrived[*w] = max_arrived[*w].max(*sn);
              // model
              let wm = &mut writers[*w];
              if wm.matched && !wm.known(*sn) {
                // what a DATA submessage carries is the payload up to the end of
                // the submessage, i.e. including RTPS's zero padding to 4 bytes
                let mut carried = d.payload;
                while carried.len() % 4 != 0 {
                  carried.push(0);
                }
                wm.rcv.insert(
                  *sn,
                  Delivered {
                    payload: carried,
                    key_flag: d.key_flag,
                    ts: d.ts,
                  },
                );
              }
            }
            Sub::Frag { w, sn, start, count, short } => {
              let d = sample_desc(&writers[*w], *sn, big_mask, focus);
              let fs = writers[*w].fsize as usize;
              if d.ts != ts_in_force {
                let (f, b) = wire::info_ts_body(*le, d.ts.map(|t| ((t >> 32) as u32, t as u32)));
                wire::push_submessage(&mut dg, wire::INFO_TS, f, &b, None);
                ts_in_force = d.ts;
              }
              let from = (*start as usize - 1) * fs;
              let to = ((*start as usize - 1 + *count as usize) * fs).min(d.payload.len());
              // a short DATAFRAG keeps at least one byte; it is well-formed (its length field says
              // what it carries) but incomplete
              let cut = (*short as usize).min(to - from - 1);
              let to_wire = to - cut;
              let spec = wire::DataFragSpec {
                reader_id: rid,
                writer_id: writers[*w].eid,
                sn: *sn,
                frag_start: *start,
                frags_in_submessage: *count,
                frag_size: fs as u16,
                sample_size: d.payload.len() as u32,
                inline_qos: None,
                payload: d.payload[from..to_wire].to_vec(),
                key_flag: false,
              };
              let (f, b) = wire::data_frag_body(*le, &spec);
              wire::push_submessage(&mut dg, wire::DATA_FRAG, f, &b, None);
              if cut > 0 {
                // model: fragments that did not arrive completely have not arrived
                o.label("short-datafrag");
                writers[*w].assembler_exists = true;
                // ... but the sample counts as started: whether the reader then asks for it as a
                // whole (ACKNACK) or fragment by fragment (NACKFRAG naming all of them) is left open
                if !arrived[*w].contains(sn) {
                  writers[*w].frags.entry(*sn).or_default();
                }
                last_frag_key = Some((*w, *sn));
                continue;
              }
              if *count > 1 {
                o.label("multi-frag-submessage");
              }
              if let Some(k) = last_frag_key {
                if k != (*w, *sn) && writers[k.0].frags.contains_key(&k.1) {
                  seen_interleave = true;
                }
              }
              last_frag_key = Some((*w, *sn));
              // model: assembler exists for any writer GUID, matched or not
              let total = ((d.payload.len() + fs - 1) / fs) as u32;
              let wm = &mut writers[*w];
              wm.assembler_exists = true;
              let set = wm.frags.entry(*sn).or_default();
              for f in *start..(*start + u32::from(*count)) {
                if !set.insert(f) {
                  seen_frag_dup = true;
                }
              }
              if set.iter().next_back().map_or(false, |m| *m > *start + u32::from(*count) - 1) {
                seen_frag_ooo = true;
              }
              if set.len() as u32 == total {
                wm.frags.remove(sn);
                multi_frag_sample_done = true;
                if arrived[*w].contains(sn) {
                  seen_dup = true;
                }
                if *sn < max_arrived[*w] && !arrived[*w].contains(sn) {
                  seen_ooo = true;
                }
                arrived[*w].insert(*sn);
                max_arrived[*w] = max_arrived[*w].max(*sn);
                if wm.matched && !wm.known(*sn) {
                  wm.rcv.insert(
                    *sn,
                    Delivered {
                      payload: d.payload,
                      key_flag: false,
                      ts: d.ts,
                    },
                  );
                }
              }
            }
            Sub::Hb { w, first, last, count, fin } => {
              let (f, b) = wire::heartbeat_body(*le, rid, writers[*w].eid, *first, *last, *count, *fin, false);
              wire::push_submessage(&mut dg, wire::HEARTBEAT, f, &b, None);
              let wm = &mut writers[*w];
              wm.uall_below = wm.uall_below.max(*first);
              if wm.matched && *count > wm.hb_seen {
                wm.hb_seen = *count;
                if *first > wm.frontier() && wm.rcv.range(wm.frontier()..*first).next().is_some() {
                  seen_hole = true;
                }
                wm.ubelow = wm.ubelow.max(*first);
                let frontier = wm.frontier();
                let missing: Vec<i64> = if first > last {
                  vec![]
                } else {
                  ((*first).max(frontier)..=*last).filter(|s| !wm.known(*s)).collect()
                };
                let mut partial = BTreeMap::new();
                if let Some(m0) = missing.first() {
                  for s in missing.iter().take_while(|s| **s < m0 + 256) {
                    if let Some(got) = wm.frags.get(s) {
                      let d = sample_desc(wm, *s, big_mask, focus);
                      let total = ((d.payload.len() + wm.fsize as usize - 1) / wm.fsize as usize) as u32;
                      partial.insert(*s, (1..=total).filter(|f| !got.contains(f)).collect::<Vec<u32>>());
                    }
                  }
                }
                expected.push(Expected {
                  w: *w,
                  hb_first: *first,
                  hb_last: *last,
                  fin: *fin,
                  frontier,
                  missing,
                  partial,
                });
              }
            }
            Sub::Gap { w, start, base, bits, num_bits, dirty } => {
              let mut words = wire::bitmap_words(*base, *num_bits, bits);
              if *dirty && *num_bits % 32 != 0 && !words.is_empty() {
                let lastw = words.len() - 1;
                words[lastw] |= (1u32 << (32 - *num_bits % 32)) - 1;
                o.label("gap-with-dirty-padding-bits");
              }
              let (f, b) = wire::gap_body(*le, rid, writers[*w].eid, *start, *base, *num_bits, &words);
              wire::push_submessage(&mut dg, wire::GAP, f, &b, None);
              let wm = &mut writers[*w];
              let in_bits: BTreeSet<i64> = bits
                .iter()
                .copied()
                .filter(|s| *s >= *base && *s < *base + i64::from(*num_bits))
                .collect();
              let before = wm.frontier();
              if start <= base {
                for s in *start..*base {
                  wm.uall_set.insert(s);
                }
              }
              wm.uall_set.extend(in_bits.iter().copied());
              if wm.matched {
                if start <= base {
                  for s in *start..*base {
                    wm.uset.insert(s);
                  }
                }
                wm.uset.extend(in_bits.iter().copied());
                if wm.frontier() > before && wm.rcv.range(before..wm.frontier()).next().is_some() {
                  seen_hole = true;
                }
                if wm.frontier() > before {
                  ack_past_gap = true;
                }
              }
            }
          }
        }
        // inject
        hooks::tick_reset(2_000_000);
        node.inject(&dg);
        hooks::tick_disarm();
        let emitted = hooks::capture_drain();
        if focus == Focus::C03 {
          if let Err((clause, key, detail)) = check_replies(
            &emitted,
            &expected,
            &mut writers,
            reader_eid,
            &mut nack_seen,
            &mut nackfrag_seen,
          ) {
            o.violate(clause, &key, format!("step {stepno}: {detail}; datagram={}", hex(&dg)));
            break;
          }
        }
      }
      Step::Take { max } => {
        hooks::tick_reset(2_000_000);
        let got = drain_front(&mut front, *max);
        hooks::tick_disarm();
        let got = match got {
          Ok(g) => g,
          Err(e) => {
            if focus != Focus::C03 {
              o.violate("c01.take-error", "take", format!("step {stepno}: take failed: {e}"));
            }
            break;
          }
        };
        total_handed += got.len();
        if focus == Focus::C03 {
          // bookkeeping only
          for h in &got {
            if let Some(wm) = writers.iter_mut().find(|w| w.guid == h.writer) {
              wm.handed.insert(h.sn);
            }
          }
          continue;
        }
        let pfx = if focus == Focus::C01 {
          "c01"
        } else if o.labels.contains(&"multi-frag-submessage") {
          "c05.multifrag"
        } else {
          "c05"
        };
        // expected availability before this take, per writer
        let mut avail: Vec<BTreeSet<i64>> = writers.iter().map(WriterModel::available).collect();
        let total_avail: usize = avail.iter().map(BTreeSet::len).sum();
        for h in &got {
          let Some(wi) = writers.iter().position(|w| w.guid == h.writer) else {
            o.violate(&format!("{pfx}.unknown-writer"), "writer", format!("step {stepno}: sample from unknown writer {:?}", h.writer));
            break;
          };
          let wm = &mut writers[wi];
          if !wm.matched {
            o.violate(&format!("{pfx}.unmatched-writer"), "writer", format!("step {stepno}: sample sn={} of unmatched writer {} handed over", h.sn, wi));
            break;
          }
          let Some(del) = wm.rcv.get(&h.sn).cloned() else {
            o.violate(
              &format!("{pfx}.never-delivered"),
              "fabricated",
              format!("step {stepno}: writer {wi} sn={} handed over but no DATA / complete DATAFRAG set delivered it", h.sn),
            );
            break;
          };
          if wm.handed.contains(&h.sn) {
            o.violate(&format!("{pfx}.handed-twice"), "dup", format!("step {stepno}: writer {wi} sn={} handed over twice", h.sn));
            break;
          }
          if h.sn <= wm.last_handed {
            o.violate(
              &format!("{pfx}.order"),
              "order",
              format!("step {stepno}: writer {wi} sn={} handed over after sn={}", h.sn, wm.last_handed),
            );
            break;
          }
          // every lower sn handed over or declared unavailable (any declaration counts)
          if let Some(hole) = (1..h.sn).find(|s| !wm.handed.contains(s) && !wm.declared_any(*s)) {
            o.violate(
              &format!("{pfx}.hole"),
              "hole",
              format!("step {stepno}: writer {wi} sn={} handed over although sn={hole} was neither handed over nor declared unavailable", h.sn),
            );
            break;
          }
          // contents
          if del.key_flag {
            if h.dispose_key != Some(del.payload[4]) {
              o.violate(&format!("{pfx}.content"), "dispose-key", format!("step {stepno}: writer {wi} sn={} dispose key {:?} != {}", h.sn, h.dispose_key, del.payload[4]));
              break;
            }
          } else {
            match &h.value {
              Some(v) if v.bytes == del.payload[4..] && v.rep == [del.payload[0], del.payload[1]] => {}
              other => {
                o.violate(
                  &format!("{pfx}.content"),
                  "payload",
                  format!(
                    "step {stepno}: writer {wi} sn={} payload differs: got {:?} expected rep={:?} bytes={}",
                    h.sn,
                    other.as_ref().map(|v| (v.rep, hex(&v.bytes[..v.bytes.len().min(64)]))),
                    &del.payload[..2],
                    hex(&del.payload[4..del.payload.len().min(68)])
                  ),
                );
                break;
              }
            }
          }
          if h.ts != del.ts {
            o.violate(
              &format!("{pfx}.source-timestamp"),
              "ts",
              format!("step {stepno}: writer {wi} sn={} source timestamp {:?} != carried {:?}", h.sn, h.ts, del.ts),
            );
            break;
          }
          // exact model: it must have been available
          if !avail[wi].remove(&h.sn) {
            o.violate(
              &format!("{pfx}.not-yet-deliverable"),
              "early",
              format!("step {stepno}: writer {wi} sn={} handed over before the reliable frontier {} reached it", h.sn, wm.frontier()),
            );
            break;
          }
          wm.handed.insert(h.sn);
          wm.last_handed = h.sn;
        }
        if o.is_violation() {
          break;
        }
        // completeness: an unbounded take returns everything deliverable
        let expected_n = total_avail.min(*max);
        if got.len() != expected_n {
          let left: Vec<(usize, Vec<i64>)> = avail
            .iter()
            .enumerate()
            .map(|(i, s)| (i, s.iter().copied().collect()))
            .filter(|(_, v): &(usize, Vec<i64>)| !v.is_empty())
            .collect();
          o.violate(
            &format!("{pfx}.incomplete"),
            "withheld",
            format!(
              "step {stepno}: take({}) returned {} samples, {} were deliverable (all lower sequence numbers received or declared unavailable); not handed over: {:?}",
              if *max == usize::MAX { "all".to_string() } else { max.to_string() },
              got.len(),
              total_avail,
              left
            ),
          );
          break;
        }
      }
    }
  }
  frontend::drain_discovery_commands();

  // ---------------------------------------------------------------- labels / non-triviality
  if seen_ooo {
    o.label("ooo");
  }
  if seen_dup {
    o.label("dup");
  }
  if seen_hole {
    o.label("hole-below-sample");
  }
  if multi_frag_sample_done {
    o.label("frag-complete");
  }
  if seen_frag_ooo {
    o.label("frag-ooo");
  }
  if seen_frag_dup {
    o.label("frag-dup");
  }
  if seen_interleave {
    o.label("frag-interleaved");
  }
  if steps.iter().filter(|s| matches!(s, Step::Take { .. })).count() > 1 {
    o.label("take-interleaved");
  }
  if writers.iter().any(|w| !w.frags.is_empty()) {
    o.label("frag-incomplete-at-end");
  }
  if nack_seen {
    o.label("nack");
  }
  if nackfrag_seen {
    o.label("nackfrag");
  }
  if ack_past_gap {
    o.label("gap-moves-frontier");
  }
  o.nontrivial = match focus {
    Focus::C01 => total_handed >= 1 && (seen_ooo || seen_dup || seen_hole),
    Focus::C03 => nack_seen || nackfrag_seen || (ack_past_gap && writers.iter().any(|w| w.an_last_count.is_some())),
    Focus::C05 => multi_frag_sample_done && (seen_frag_ooo || seen_frag_dup || seen_interleave),
  };
  o
}

fn check_replies(
  emitted: &[(crate::structure::locator::Locator, Vec<u8>)],
  expected: &[Expected],
  writers: &mut [WriterModel],
  reader_eid: EntityId,
  nack_seen: &mut bool,
  nackfrag_seen: &mut bool,
) -> Result<(), (&'static str, String, String)> {
  // decode everything the reader emitted, grouped by destination writer
  let mut acknacks: Vec<(usize, wire::NumSet, i32)> = Vec::new();
  let mut nackfrags: Vec<(usize, i64, wire::NumSet, i32)> = Vec::new();
  for (loc, bytes) in emitted {
    let (hdr, subs) = wire::decode_datagram(bytes, true)
      .map_err(|e| ("c03.malformed-reply", "decode".to_string(), format!("reply does not decode: {e}; bytes={}", hex(bytes))))?;
    // the implementation must be able to parse its own reply too
    if crate::rtps::Message::read_from_buffer(&bytes::Bytes::copy_from_slice(bytes)).is_err() {
      return Err(("c03.malformed-reply", "self-parse".into(), format!("Message::read_from_buffer rejects the reply {}", hex(bytes))));
    }
    let _ = hdr;
    let mut dst: Option<[u8; 12]> = None;
    for (_raw, d) in subs {
      match d {
        Decoded::InfoDst(p) => dst = Some(p),
        Decoded::AckNack { reader_id, writer_id, set, count, .. } => {
          let Some(wi) = writers.iter().position(|w| w.eid == writer_id && Some(w.prefix) == dst) else {
            return Err(("c03.reply-to-nobody", "acknack".into(), format!("ACKNACK for unknown writer {writer_id:?} dst={dst:?}")));
          };
          if reader_id != eid_bytes(reader_eid) {
            return Err(("c03.reply-wrong-reader-id", "acknack".into(), format!("ACKNACK carries reader id {reader_id:?}")));
          }
          if *loc != rig::node_locator(10 + (wi / 2) as u8) {
            return Err(("c03.reply-wrong-destination", "acknack".into(), format!("ACKNACK for writer {wi} sent to {loc:?}")));
          }
          if set.num_bits > 256 {
            return Err(("c03.numbits", "acknack".into(), format!("numBits {}", set.num_bits)));
          }
          acknacks.push((wi, set, count));
        }
        Decoded::NackFrag { writer_id, sn, set, count, .. } => {
          let Some(wi) = writers.iter().position(|w| w.eid == writer_id && Some(w.prefix) == dst) else {
            return Err(("c03.reply-to-nobody", "nackfrag".into(), format!("NACKFRAG for unknown writer {writer_id:?}")));
          };
          if set.num_bits > 256 {
            return Err(("c03.numbits", "nackfrag".into(), format!("numBits {}", set.num_bits)));
          }
          nackfrags.push((wi, sn, set, count));
        }
        _ => {}
      }
    }
  }
  // one reply (ACKNACK) at most per processed heartbeat, in processing order
  // A HEARTBEAT with the final flag and nothing missing needs no reply. Replies
  // are assigned to the heartbeats in processing order; such an optional
  // heartbeat takes one only if there are more replies for that writer than
  // heartbeats that must be answered.
  let mut replies_left: BTreeMap<usize, usize> = BTreeMap::new();
  for (wi, _, _) in &acknacks {
    *replies_left.entry(*wi).or_insert(0) += 1;
  }
  let mut must_left: BTreeMap<usize, usize> = BTreeMap::new();
  for e in expected {
    if !e.missing.is_empty() || !e.fin {
      *must_left.entry(e.w).or_insert(0) += 1;
    }
  }
  let mut an_iter = acknacks.into_iter().peekable();
  let mut nf_left = nackfrags;
  for e in expected {
    let wm = &mut writers[e.w];
    let must_reply = !e.missing.is_empty() || !e.fin;
    let rl = replies_left.get(&e.w).copied().unwrap_or(0);
    let ml = must_left.get(&e.w).copied().unwrap_or(0);
    let take_one = if must_reply { true } else { rl > ml };
    if must_reply {
      must_left.insert(e.w, ml.saturating_sub(1));
    }
    let reply = if take_one && an_iter.peek().map_or(false, |(wi, _, _)| *wi == e.w) {
      replies_left.insert(e.w, rl.saturating_sub(1));
      an_iter.next()
    } else {
      None
    };
    let Some((_, set, count)) = reply else {
      if !e.missing.is_empty() {
        return Err((
          "c03.missing-not-requested",
          "no-reply".into(),
          format!("HEARTBEAT({},{}) of writer {}: samples {:?} are missing but no ACKNACK was sent", e.hb_first, e.hb_last, e.w, &e.missing[..e.missing.len().min(8)]),
        ));
      }
      if must_reply {
        return Err((
          "c03.no-reply-to-nonfinal",
          "no-reply".into(),
          format!("HEARTBEAT({},{}) of writer {} without final flag got no ACKNACK", e.hb_first, e.hb_last, e.w),
        ));
      }
      continue;
    };
    let members = set.members();
    // (1) base never exceeds the lowest sn neither received nor declared unavailable
    if set.base > e.frontier {
      return Err((
        "c03.acks-too-much",
        "base".into(),
        format!("ACKNACK base {} exceeds the lowest unknown sequence number {} of writer {}", set.base, e.frontier, e.w),
      ));
    }
    // (2) base monotone during a match
    if let Some(prev) = wm.an_last_base {
      if set.base < prev {
        return Err(("c03.base-decreased", "base".into(), format!("ACKNACK base went from {prev} to {} for writer {}", set.base, e.w)));
      }
    }
    wm.an_last_base = Some(set.base);
    // (3) every listed sn is really missing (at the time the HEARTBEAT was
    // processed) and inside the advertised range
    for m in &members {
      if *m < e.hb_first || *m > e.hb_last {
        return Err((
          "c03.requests-outside-range",
          "member".into(),
          format!("ACKNACK requests sn {m} outside the advertised range [{},{}] of writer {}", e.hb_first, e.hb_last, e.w),
        ));
      }
      if !e.missing.contains(m) {
        return Err(("c03.requests-known", "member".into(), format!("ACKNACK requests sn {m} of writer {} which was received or declared unavailable", e.w)));
      }
    }
    // (4) count grows
    if let Some(prev) = wm.an_last_count {
      if count <= prev {
        return Err(("c03.count-not-growing", "acknack".into(), format!("ACKNACK count {count} after {prev} (writer {})", e.w)));
      }
    }
    wm.an_last_count = Some(count);
    if !members.is_empty() {
      *nack_seen = true;
    }
    // NACKFRAGs belonging to this reply: those for this writer naming a sample in `partial`
    let mut mine: Vec<(i64, wire::NumSet, i32)> = Vec::new();
    let mut rest = Vec::new();
    for (wi, sn, s, cnt) in nf_left.drain(..) {
      // a NACKFRAG belongs to the first heartbeat (in processing order) at whose
      // time that sample was partially received
      if wi == e.w && e.partial.contains_key(&sn) && !mine.iter().any(|(s2, _, _)| *s2 == sn) {
        mine.push((sn, s, cnt));
      } else {
        rest.push((wi, sn, s, cnt));
      }
    }
    nf_left = rest;
    for (sn, s, cnt) in &mine {
      *nackfrag_seen = true;
      if let Some(prev) = wm.nf_last_count {
        if *cnt <= prev {
          return Err(("c03.count-not-growing", "nackfrag".into(), format!("NACKFRAG count {cnt} after {prev} (writer {})", e.w)));
        }
      }
      wm.nf_last_count = Some(*cnt);
      let Some(truly_missing) = e.partial.get(sn) else {
        return Err(("c03.nackfrag-for-unstarted-sample", "nackfrag".into(), format!("NACKFRAG for sn {sn} of writer {} of which no fragment has arrived", e.w)));
      };
      let named: Vec<u32> = s.members().into_iter().map(|m| m as u32).collect();
      let lowest = truly_missing[0];
      let want: Vec<u32> = truly_missing.iter().copied().filter(|f| *f < lowest + 256).collect();
      if named != want {
        return Err((
          "c03.nackfrag-wrong-fragments",
          "nackfrag".into(),
          format!("NACKFRAG for writer {} sn {sn} names fragments {named:?}, missing are {want:?}", e.w),
        ));
      }
      if s.base != i64::from(lowest) {
        return Err(("c03.nackfrag-base", "nackfrag".into(), format!("NACKFRAG base {} != lowest missing fragment {lowest}", s.base)));
      }
    }
    // (5) the lowest missing sample is requested
    if let Some(m0) = e.missing.first() {
      let by_acknack = members.contains(m0);
      let by_nackfrag = mine.iter().any(|(sn, _, _)| sn == m0);
      if !by_acknack && !by_nackfrag {
        return Err((
          "c03.lowest-missing-not-requested",
          if e.partial.contains_key(m0) { "partial".into() } else { "whole".into() },
          format!(
            "HEARTBEAT({},{}) of writer {}: lowest missing sn {m0} is requested neither by the ACKNACK (base {} members {:?}) nor by a NACKFRAG",
            e.hb_first, e.hb_last, e.w, set.base, members.iter().take(8).collect::<Vec<_>>()
          ),
        ));
      }
      if by_acknack && e.partial.contains_key(m0) {
        // allowed: requesting the whole sample again is truthful
      }
    }
  }
  let _ = an_iter.next();
  for (wi, sn, _, _) in nf_left {
    if !expected.iter().any(|e| e.w == wi && e.partial.contains_key(&sn)) {
      return Err((
        "c03.nackfrag-for-unstarted-sample",
        "nackfrag".into(),
        format!("NACKFRAG for sn {sn} of writer {wi}, of which no fragment had arrived when any of the heartbeats of this datagram was processed (or which was not missing)"),
      ));
    }
  }
  Ok(())
}

//! C20 — wait_for_acknowledgments says yes only when everything was acknowledged.
//! Scenario 0 (writer level, deterministic): wscript.rs (Focus::C20).

use super::{wscript, Outcome, Property, Scenario};

pub fn property() -> Property {
  Property {
    id: "C20",
    level: "exploration",
    rule: "scenario 0: the writer script of C04 with WaitForAcknowledgments commands at any point \
           (also two in a row), ACKNACK bases around last / last+1 / last+2 / 0, reader match and \
           loss, 0-4 reliable and best-effort readers; the completion channel is inspected after \
           every step and compared with a model (readers matched and unacknowledged at the call). \
           Non-trivial = >= 1 reliable reader pending at a call and a later ACKNACK whose base is \
           exactly last or last+1, or a completion after a pending state. Distinct = distinct \
           decoded histories.",
    assumptions: &[
      "a scripted reader never lowers its ACKNACK base",
      "a second wait replaces the first one (the first is not required to complete)",
    ],
    scenarios: &[Scenario {
      id: 0,
      name: "writer level: completion token vs model",
      quick: 4_000,
      thorough: 400_000,
      max_len: 700,
      max_threads: 0,
    }],
    run,
    exhaustive: None,
  }
}

pub fn run(_scenario: u32, choices: &[u8], strict: bool) -> Outcome {
  wscript::run(wscript::Focus::C20, choices, strict)
}

//! C20 — wait_for_acknowledgments says yes only when everything was acknowledged.
//! Scenario 0 (writer level, deterministic): wscript.rs (Focus::C20).

use super::{wscript, Outcome, Property, Scenario};

pub fn property() -> Property {
  Property {
    id: "C20",
    level: "exploration",
    rule: "scenario 1: a real DataWriter wired to the rig Writer; 0-3 reliable / best-effort readers, \
           writes, acknowledgments before the call, then async_wait_for_acknowledgments polled by a \
           strict executor (only when woken) while ACKNACKs (bases last / last+1 / last+2 / 1) and \
           reader losses arrive. scenario 2: the blocking form on a helper thread in three \
           timing-robust shapes. scenario 0: the writer script of C04 with WaitForAcknowledgments commands at any point \
           (also two in a row), ACKNACK bases around last / last+1 / last+2 / 0, reader match and \
           loss, 0-4 reliable and best-effort readers; the completion channel is inspected after \
           every step and compared with a model (readers matched and unacknowledged at the call). \
           Non-trivial = >= 1 reliable reader pending at a call and a later ACKNACK whose base is \
           exactly last or last+1, or a completion after a pending state. Distinct = distinct \
           decoded histories.",
    assumptions: &[
      "a scripted reader never lowers its ACKNACK base",
      "a second wait replaces the first one (the first is not required to complete)",
    ],
    scenarios: &[
      Scenario {
        id: 0,
        name: "writer level: completion token vs model",
        quick: 4_000,
        thorough: 400_000,
        max_len: 700,
        max_threads: 0,
      },
      Scenario {
        id: 1,
        name: "API level: DataWriter::async_wait_for_acknowledgments on a strict executor vs model",
        quick: 2_000,
        thorough: 200_000,
        max_len: 80,
        max_threads: 0,
      },
      Scenario {
        id: 2,
        name: "API level: DataWriter::wait_for_acknowledgments (blocking; already true / never true / becomes true)",
        quick: 12,
        thorough: 300,
        max_len: 8,
        max_threads: 4,
      },
    ],
    run,
    exhaustive: None,
  }
}

pub fn run(scenario: u32, choices: &[u8], strict: bool) -> Outcome {
  match scenario {
    1 => {
      let mut c = super::Choices::new(choices);
      let mut o = Outcome::new();
      async_form(&mut c, &mut o);
      o
    }
    2 => {
      let mut c = super::Choices::new(choices);
      let mut o = Outcome::new();
      sync_form(&mut c, &mut o);
      o
    }
    _ => wscript::run(wscript::Focus::C20, choices, strict),
  }
}

// ------------------------------------------------------------------ API level (scenarios 1 and 2)

mod api {
  use std::{
    collections::BTreeSet,
    future::Future,
    sync::{
      atomic::{AtomicBool, AtomicUsize, Ordering},
      Arc,
    },
    task::{Context, Poll, Wake, Waker},
    time::{Duration as StdDuration, Instant},
  };

  use byteorder::LittleEndian;

  use super::super::{
    c09_badchange::Msg,
    fnv, frontend, hooks,
    rig::{self, eid_bytes, CaseGuard, Node},
    wire, Choices, Outcome, Verdict,
  };
  use crate::{
    dds::qos::{policy, QosPolicies, QosPolicyBuilder},
    messages::submessages::{submessage::AckSubmessage, submessages::ReaderSubmessage},
    rtps::{writer::Writer, Message, SubmessageBody},
    serialization::CDRSerializerAdapter,
    structure::{duration::Duration, guid::GUID},
  };

  struct FlagWaker {
    flag: AtomicBool,
    count: AtomicUsize,
  }
  impl Wake for FlagWaker {
    fn wake(self: Arc<Self>) {
      self.flag.store(true, Ordering::SeqCst);
      self.count.fetch_add(1, Ordering::SeqCst);
    }
  }

  fn wqos() -> QosPolicies {
    QosPolicyBuilder::new()
      .reliability(policy::Reliability::Reliable {
        max_blocking_time: Duration::from_secs(1000),
      })
      .history(policy::History::KeepAll)
      .build()
  }

  fn acknack(writer: &mut Writer, wguid: GUID, reader: GUID, base: i64, count: i32) {
    let mut dg = wire::rtps_header((2, 4), [1, 0x12], &reader.prefix.bytes);
    let (f, b) = wire::acknack_body(true, eid_bytes(reader.entity_id), eid_bytes(wguid.entity_id), base, 0, &[], count, true);
    wire::push_submessage(&mut dg, wire::ACKNACK, f, &b, None);
    if let Ok(m) = Message::read_from_buffer(&bytes::Bytes::from(dg)) {
      for sm in m.submessages {
        if let SubmessageBody::Reader(ReaderSubmessage::AckNack(an, _)) = sm.body {
          writer.handle_ack_nack(reader.prefix, &AckSubmessage::AckNack(an));
        }
      }
    }
  }

  struct Setup {
    node: Node,
    writer: Writer,
    wguid: GUID,
    dw: crate::dds::with_key::datawriter::DataWriter<Msg, CDRSerializerAdapter<Msg, LittleEndian>>,
  }

  fn setup(topic: &str) -> Setup {
    setup_with_queue(topic, 64)
  }

  /// `cap`: capacity of the command queue between the DataWriter and the Writer
  fn setup_with_queue(topic: &str, cap: usize) -> Setup {
    let node = Node::new(0);
    let wguid = GUID::new(node.prefix, rig::user_writer_eid(1, true));
    let (ing, ends) = rig::writer_ingredients(wguid, topic, &wqos(), cap, 64);
    let writer = Writer::new(ing, rig::udp_sender(), mio_extras::timer::Builder::default().build(), node.participant_status_tx.clone());
    let dw = frontend::data_writer::<Msg, CDRSerializerAdapter<Msg, LittleEndian>>(ends, wguid, topic, &wqos());
    Setup { node, writer, wguid, dw }
  }

  /// scenario 1: async form, strict executor, single thread, deterministic
  pub fn async_form(c: &mut Choices, o: &mut Outcome) {
    let _g = CaseGuard::new();
    // sometimes the wait is first polled while the command queue to the Writer is full (the
    // application has just written a burst that the event loop has not taken yet)
    let full_queue = c.chance(60);
    let cap = if full_queue { 1 + c.pick(3) } else { 64 };
    let mut s = setup_with_queue("rig_topic_c20a", cap);
    let nreaders = c.pick(4);
    let readers: Vec<(GUID, bool)> = (0..nreaders)
      .map(|i| (GUID::new(rig::node_prefix(95 + i as u8), rig::user_reader_eid(1, true)), !c.chance(60)))
      .collect();
    for (g, reliable) in &readers {
      let q = if *reliable { rig::reliable_qos() } else { rig::best_effort_qos() };
      s.writer.update_reader_proxy(&rig::reader_proxy_for(*g, rig::node_locator(95), &q), &q);
    }
    let nwrites = c.pick(4);
    for i in 0..nwrites {
      let _ = s.dw.write(Msg { id: i as u32, name: "a".into(), v: 0 }, None);
      s.writer.process_writer_command();
    }
    let last = nwrites as i64;
    let mut acked: Vec<i64> = vec![0; nreaders];
    let mut matched: Vec<bool> = vec![true; nreaders];
    let mut counts = vec![0i32; nreaders];
    // some acknowledgments before the call
    for r in 0..nreaders {
      if c.chance(100) {
        let base = [last, last + 1, 1, last + 2][c.pick(4)].max(1);
        counts[r] += 1;
        acknack(&mut s.writer, s.wguid, readers[r].0, base, counts[r]);
        acked[r] = acked[r].max(base);
      }
    }
    // the burst: exactly as many writes as the queue holds, not yet taken by the Writer
    let last = if full_queue {
      for i in 0..cap {
        let _ = s.dw.write(Msg { id: 100 + i as u32, name: "b".into(), v: 0 }, None);
      }
      o.label("first-poll-with-full-command-queue");
      last + cap as i64
    } else {
      last
    };
    let pending_at_call: BTreeSet<usize> = (0..nreaders)
      .filter(|r| matched[*r] && readers[*r].1 && last >= 1 && acked[*r] <= last)
      .collect();
    let mut pending = pending_at_call.clone();
    // later events
    let nev = c.pick(8);
    let events: Vec<(usize, u8, i64)> = (0..nev)
      .map(|_| {
        let r = if nreaders > 0 { c.pick(nreaders) } else { 0 };
        (r, c.pick(3) as u8, [last, last + 1, last + 2, 1][c.pick(4)].max(1))
      })
      .collect();
    o.sample = format!("readers={:?} writes={nwrites} acked_before={acked:?} events={events:?}", readers.iter().map(|r| r.1).collect::<Vec<_>>());
    o.digest = fnv(o.sample.as_bytes());
    let fw = Arc::new(FlagWaker { flag: AtomicBool::new(true), count: AtomicUsize::new(0) });
    let waker: Waker = fw.clone().into();
    let mut fut = Box::pin(s.dw.async_wait_for_acknowledgments());
    let mut done: Option<bool> = None;
    // with a full queue the very first poll comes before the Writer has taken anything from it
    let mut first_poll_before_processing = full_queue;
    let mut step = |writer: &mut Writer, done: &mut Option<bool>, pending: &BTreeSet<usize>, what: &str, o: &mut Outcome| {
      if !std::mem::take(&mut first_poll_before_processing) {
        writer.process_writer_command();
      }
      if done.is_some() {
        return;
      }
      if fw.flag.swap(false, Ordering::SeqCst) {
        let mut cx = Context::from_waker(&waker);
        if let Poll::Ready(r) = fut.as_mut().poll(&mut cx) {
          match r {
            Ok(b) => *done = Some(b),
            Err(e) => {
              o.violate("c20.async-error", "api", format!("{what}: async_wait_for_acknowledgments failed: {e:?}"));
              return;
            }
          }
        }
        // the command may just have been queued: let the writer see it, and poll
        // again only if that woke us
        // (with a full queue the first poll only parks the task: once more for the command itself)
        for _ in 0..3 {
          writer.process_writer_command();
          if done.is_none() && fw.flag.swap(false, Ordering::SeqCst) {
            let mut cx = Context::from_waker(&waker);
            if let Poll::Ready(Ok(b)) = fut.as_mut().poll(&mut cx) {
              *done = Some(b);
            }
          } else {
            break;
          }
        }
      }
      match (*done, pending.is_empty()) {
        (Some(true), false) => o.violate(
          "c20.early-success",
          "async",
          format!("{what}: async wait completed with true while reliable readers {pending:?} matched at the call have not acknowledged everything"),
        ),
        (Some(false), _) => o.violate("c20.async-false", "async", format!("{what}: async wait returned false (it has no timeout)")),
        (None, true) => o.violate(
          "c20.no-success",
          "async",
          format!("{what}: the condition holds and the writer has processed everything, but the async wait is still pending (wakes: {})", fw.count.load(Ordering::SeqCst)),
        ),
        _ => {}
      }
    };
    step(&mut s.writer, &mut done, &pending, "at the call", o);
    if o.is_violation() {
      return;
    }
    for (i, (r, kind, base)) in events.iter().enumerate() {
      if nreaders == 0 {
        break;
      }
      match kind {
        0 | 1 => {
          counts[*r] += 1;
          let b = (*base).max(acked[*r]);
          acknack(&mut s.writer, s.wguid, readers[*r].0, b, counts[*r]);
          acked[*r] = b;
          if matched[*r] && readers[*r].1 && b > last {
            pending.remove(r);
          }
        }
        _ => {
          s.writer.reader_lost(readers[*r].0);
          matched[*r] = false;
          pending.remove(r);
          o.label("reader-lost");
        }
      }
      step(&mut s.writer, &mut done, &pending, &format!("after event {i}"), o);
      if o.is_violation() {
        return;
      }
    }
    o.label(if pending_at_call.is_empty() { "true-at-call" } else { "pending-at-call" });
    o.label("async");
    o.nontrivial = !pending_at_call.is_empty();
    drop(fut);
    let _ = hooks::capture_drain();
    frontend::drain_discovery_commands();
  }

  /// scenario 2: synchronous form, three timing-robust shapes
  pub fn sync_form(c: &mut Choices, o: &mut Outcome) {
    let _g = CaseGuard::new();
    let shape = c.pick(3);
    let nwrites = 1 + c.pick(3);
    let s = setup("rig_topic_c20s");
    let Setup { node, mut writer, wguid, dw } = s;
    let reader = GUID::new(rig::node_prefix(96), rig::user_reader_eid(1, true));
    writer.update_reader_proxy(&rig::reader_proxy_for(reader, rig::node_locator(96), &rig::reliable_qos()), &rig::reliable_qos());
    for i in 0..nwrites {
      let _ = dw.write(Msg { id: i as u32, name: "s".into(), v: 0 }, None);
    }
    writer.process_writer_command();
    let last = nwrites as i64;
    o.sample = format!("shape={} writes={nwrites}", ["already-true", "never-true", "becomes-true-after-the-call"][shape]);
    o.digest = fnv(o.sample.as_bytes());
    o.label(["sync-already-true", "sync-never-true", "sync-becomes-true"][shape]);
    o.nontrivial = true;
    if shape == 0 {
      acknack(&mut writer, wguid, reader, last + 1, 1);
    }
    let max_wait = if shape == 1 { StdDuration::from_millis(150) } else { StdDuration::from_secs(10) };
    let finished = Arc::new(AtomicBool::new(false));
    let f2 = Arc::clone(&finished);
    let helper = std::thread::spawn(move || {
      let t0 = Instant::now();
      let r = dw.wait_for_acknowledgments(max_wait);
      f2.store(true, Ordering::SeqCst);
      (r.map_err(|e| format!("{e:?}")), t0.elapsed(), dw)
    });
    // the rig thread plays the event loop
    let t0 = Instant::now();
    let mut delivered_ack = false;
    while !finished.load(Ordering::SeqCst) && t0.elapsed() < StdDuration::from_secs(30) {
      writer.process_writer_command();
      if shape == 2 && !delivered_ack && writer.verif_ack_waiter().is_some() {
        // the helper is known to be waiting now
        acknack(&mut writer, wguid, reader, last + 1, 1);
        delivered_ack = true;
      }
      std::thread::sleep(StdDuration::from_millis(1));
    }
    let (r, elapsed, dw) = match helper.join() {
      Ok(x) => x,
      Err(_) => {
        o.violate("c20.sync-panic", "api", "wait_for_acknowledgments panicked".into());
        return;
      }
    };
    match (shape, r) {
      (0, Ok(true)) | (2, Ok(true)) => {
        if elapsed >= StdDuration::from_secs(10) {
          o.violate("c20.sync-late", "api", format!("success only after {elapsed:?}"));
        }
      }
      (1, Ok(false)) => {
        if elapsed < StdDuration::from_millis(145) {
          o.violate("c20.sync-early-timeout", "api", format!("timeout reported after {elapsed:?}, requested 150 ms"));
        }
      }
      (1, Ok(true)) => o.violate("c20.early-success", "sync", "wait_for_acknowledgments returned true although the reader never acknowledged".into()),
      (_, Ok(false)) => o.violate(
        "c20.no-success",
        "sync",
        format!("wait_for_acknowledgments timed out after {elapsed:?} although the acknowledgment {}", if shape == 0 { "had arrived before the call" } else { "arrived during the wait" }),
      ),
      (_, Err(e)) => o.violate("c20.sync-error", "api", e),
      _ => {}
    }
    drop(dw);
    drop(node);
    let _ = hooks::capture_drain();
    frontend::drain_discovery_commands();
  }
}

pub use api::{async_form, sync_form};

#!/usr/bin/env python3
import json, sys, glob, jsonschema
m = json.load(open('/verif/MANIFEST.json')); jsonschema.validate(m, json.load(open('/root/.vp/MANIFEST.schema.json')))
es = json.load(open('/root/.vp/EVIDENCE.schema.json'))
bad = 0
for f in sorted(glob.glob('/verif/evidence/*.json')):
    try:
        e = json.load(open(f)); jsonschema.validate(e, es)
        c = e['coverage']
        print(f"{f}: ok tier={e['tier']} eval={c.get('evaluations')} dnt={c.get('distinct_nontrivial')} wall={e['wall_s']:.1f}")
    except Exception as ex:
        bad += 1; print(f, "INVALID", str(ex)[:300])
sys.exit(1 if bad else 0)
